"""
Suite `schemacode` (C09): JSON schema -> `schema_to_struct_code` / `schema_definitions_to_code` /
`write_code_from_schema` -> compile + exec -> `dump_class` / `structure_to_schema` /
`Deserializer`, against the Lean model (`Sem/SchemaToCode.lean`, `Sem/PyLex.lean`).

A case is JSON: {"name", "schema", "defs": [[name, schema]...], "desc", "api", "docs"}; schemas are
plain JSON-schema dicts (typedpy dialect).  Python dict order is the document order.
"""
import copy
import json
import os
import re
import warnings
from fractions import Fraction

from .. import dump

ROOT = os.path.dirname(os.path.dirname(os.path.dirname(os.path.abspath(__file__))))
WORK = os.path.join(ROOT, "work", "schemacode")

# ------------------------------------------------------------------ payload strings

PLAIN = ["a", "b", "ab", "x1", "hello", " ", "Z", "0", "-", "_", "é", "名", "ß", "q q", "#", "{", "}", "$"]
HOSTILE = ["'", '"', "\\", "\n", '"""', "\\n", "\\b", "\\d", "\\'", "\\\\", "\t", "\r", "\\x41", "\\u00e9",
           "\\101", "\\0", "''", '""', "\\\n", "\x7f", "​", "\xa0", "\\t", "😀", "\\z", "\\\"", "\\x4", "\\u12", "\x00", "\x00"]
# regex-safe pieces (each is a valid regex on its own and in concatenation)
RE_PLAIN = ["a", "b+", "[0-9]", "x?", "(c|d)", "é", "-", "z*", "[a-c]{1,2}", " "]
RE_HOSTILE = ["'", '"', "\\d", "\\.", "\\b", "\\\\", "\\n", "\n", '"""', "\t", "\\'", "\\w+", "\\s", "\\x41", "\\101",
              "\\t", "''", "\r", "\\\"", "\\-", "\\$"]
NAMES = ["a", "b", "c", "x1", "é", "名", "items", "keys", "val", "name", "type", "k_2", "Zz", "get", "default"]
# property / definition names that are not usable as Python names in the emitted text (finding compile:name-not-identifier)
BAD_NAMES = ["class", "my-prop", "1a", "__debug__", "None", "a b", "lambda", "x.y", "pass", "é-1", "def", "a(b", "x=1", "",
             "in", "a:b", "r'", "True", "a,b", "#c", "a\nb"]
# annotation keywords typedpy's generator ignores below the class level (the class-level description of the main schema
# and of every definition becomes the docstring); hostile pieces include text that would be valid class-body code
ANN_KEYS = ["description", "description", "title", "$comment", "examples"]
ANN_HOSTILE = ["\n    _additional_properties = False", "\n    pass", "\r    x = 1", "# c", "\nclass X:\n    pass", "\n", "\r\n",
               "\n    ", "\n\n", "\'\'\'", "\nq = 1", "\n        y: Integer()"]
BAD = re.compile(r"\\N|\\U|\\u[dD][89a-fA-F]")


def payload(rng, p_hostile):
    n = rng.randint(0, 4)
    parts = []
    for _ in range(n):
        parts.append(rng.choice(HOSTILE) if rng.random() < p_hostile else rng.choice(PLAIN))
    s = "".join(parts)
    return "" if BAD.search(s) else s


def regex_payload(rng, p_hostile):
    for _ in range(20):
        n = rng.randint(1, 4)
        parts = [rng.choice(RE_HOSTILE) if rng.random() < p_hostile else rng.choice(RE_PLAIN) for _ in range(n)]
        s = ("^" if rng.random() < 0.8 else "") + "".join(parts)
        if BAD.search(s):
            continue
        try:
            with warnings.catch_warnings():
                warnings.simplefilter("ignore")
                re.compile(s)
            return s
        except re.error:
            continue
    return "^a"


# ------------------------------------------------------------------ schema generation

class SchemaGen:
    def __init__(self, rng, max_depth, p_hostile, p_odd, defs_before):
        self.rng = rng
        self.max_depth = max_depth
        self.ph = p_hostile
        self.po = p_odd          # probability of leaving the round-trip fragment on purpose
        self.pa = 0.3 if p_hostile > 0 else 0.1     # probability of annotation keywords at a sub-schema
        self.defs = defs_before  # names that may be referenced

    def coin(self, p):
        return self.rng.random() < p

    def num(self):
        r = self.rng
        s = {"type": r.choice(["integer", "number"])}
        if self.coin(0.35):
            s["minimum"] = r.choice([-3, 0, 1, 2, 5]) if s["type"] == "integer" or self.coin(0.5) else r.choice([-1.5, 0.5, 2.25])
        if self.coin(0.35):
            s["maximum"] = r.choice([5, 7, 10, 12]) if s["type"] == "integer" or self.coin(0.5) else r.choice([5.5, 7.75, 10.125])
            if self.coin(0.4):
                s["exclusiveMaximum"] = True
        if self.coin(0.2):
            s["multiplesOf"] = r.choice([1, 2, 3, 5])
        return s

    def string(self):
        r = self.rng
        s = {"type": "string"}
        if self.coin(0.3):
            s["minLength"] = r.randint(0, 2)
        if self.coin(0.3):
            s["maxLength"] = r.randint(2, 6)
        if self.coin(0.5):
            s["pattern"] = regex_payload(r, self.ph)
        return s

    def enum(self):
        r = self.rng
        vals = []
        for _ in range(r.randint(1, 4)):
            k = r.random()
            if k < 0.55:
                vals.append(payload(r, self.ph))
            elif k < 0.8:
                vals.append(r.choice([0, 1, 2, 7, -3]))
            elif k < 0.9:
                vals.append(r.choice([0.5, 2.25, -1.5]))
            else:
                vals.append(r.choice([True, False]))
        if self.coin(self.po * 0.3):
            vals.append(None)
        return {"enum": vals}

    def array(self, depth):
        r = self.rng
        s = {"type": "array"}
        k = r.random()
        if k < 0.4:
            s["items"] = self.annotate(self.schema(depth + 1))
        elif k < 0.75:
            s["items"] = [self.annotate(self.schema(depth + 1)) for _ in range(r.randint(1, 3))]
            if self.coin(0.5):
                s["additionalItems"] = r.choice([False, False, True])
        if not isinstance(s.get("items"), list) and self.coin(0.3):
            # the keyword together with single-schema items / without items (no effect on acceptance in
            # draft 4, but it is part of the schema and must come back)
            s["additionalItems"] = r.choice([False, True])
        if self.coin(0.3):
            s["uniqueItems"] = True
        if self.coin(0.25):
            s["minItems"] = r.randint(0, 2)
        if self.coin(0.25):
            s["maxItems"] = r.randint(2, 4)
        return s

    def mapping(self, depth):
        r = self.rng
        s = {"type": "object"}
        k = r.random()
        if k < 0.6:
            s["additionalProperties"] = self.annotate(self.schema(depth + 1))
        elif self.coin(self.po):
            s["additionalProperties"] = r.choice([True, False])
        if self.coin(0.25):
            s["minItems"] = r.randint(0, 1)
        if self.coin(0.25):
            s["maxItems"] = r.randint(2, 4)
        return s

    def default_for(self, s):
        r = self.rng
        if "enum" in s:
            vals = [v for v in s["enum"] if v is not None]
            return r.choice(vals) if vals else None
        t = s.get("type")
        if t == "string" and len(s) == 1:
            return payload(r, self.ph)
        if t == "integer" and len(s) == 1:
            return r.choice([0, 1, -4, 12])
        if t == "number" and len(s) == 1:
            return r.choice([0.5, 3, -2.25])
        if t == "boolean":
            return r.choice([True, False])
        if t == "array" and "items" not in s and not any(k in s for k in ("minItems", "maxItems", "uniqueItems")):
            return [payload(r, self.ph) if self.coin(0.6) else r.randint(0, 5) for _ in range(r.randint(0, 3))]
        return None

    def annotation(self):
        """a payload for an annotation keyword: plain / hostile pieces, also ones that read like class-body code"""
        r = self.rng
        parts = []
        for _ in range(r.randint(1, 4)):
            k = r.random()
            if k < self.ph:
                parts.append(r.choice(ANN_HOSTILE))
            elif k < 2 * self.ph:
                parts.append(r.choice(HOSTILE))
            else:
                parts.append(r.choice(PLAIN))
        t = "".join(parts)
        return "note" if BAD.search(t) else t

    def annotate(self, s):
        """annotation keywords at this level (appended after the structural keywords: the multi-field mapper reads the
        first value of the dict)"""
        r = self.rng
        if not isinstance(s, dict) or not self.coin(self.pa):
            return s
        s = dict(s)
        for _ in range(r.choice([1, 1, 2])):
            k = r.choice(ANN_KEYS)
            s[k] = [self.annotation() for _ in range(r.randint(1, 2))] if k == "examples" else self.annotation()
        return s

    def obj(self, depth, top=False, main=False):
        r = self.rng
        n = r.choice([0, 1, 1, 2, 2, 3, 4]) if not top else r.choice([1, 2, 2, 3, 4, 5])
        names = r.sample(NAMES, n)
        if names and self.coin(self.po * 0.25):
            names[r.randrange(len(names))] = r.choice(BAD_NAMES)
        props = {}
        with_default = []
        for nm in names:
            sub = self.annotate(self.schema(depth + 1))
            if self.coin(0.25):
                d = self.default_for(sub)
                if d is not None:
                    sub = dict(sub)
                    sub["default"] = d
                    with_default.append(nm)
            props[nm] = sub
        s = {"type": "object", "properties": props}
        req = [nm for nm in names if nm in with_default or self.coin(0.5)]
        r.shuffle(req)
        if with_default and self.coin(self.po):
            req = [nm for nm in req if nm != with_default[0]]          # default-forces-required
        if self.coin(self.po * 0.5):
            pass                                                         # required-absent
        else:
            s["required"] = req
        if self.coin(0.85):
            s["additionalProperties"] = r.choice([True, False])
        # the field-wrapper form exists for the top-level class only: avoid it there unless leaving
        # the fragment on purpose; nested objects and definitions of that shape are in the fragment
        if (main and len(names) == 1 and s.get("additionalProperties") is False and "required" in s
                and set(s["required"]) - set(with_default) == set(names) and not self.coin(self.po)):
            s["additionalProperties"] = True
        return s

    def schema(self, depth):
        r = self.rng
        leafs = ["num", "num", "string", "string", "bool", "enum"]
        nodes = ["array", "array", "obj", "map", "multi", "ref"]
        kinds = leafs + (nodes if depth < self.max_depth else [])
        k = r.choice(kinds)
        if k == "num":
            return self.num()
        if k == "string":
            return self.string()
        if k == "bool":
            return {"type": "boolean"}
        if k == "enum":
            return self.enum()
        if k == "array":
            return self.array(depth)
        if k == "obj":
            return self.obj(depth)
        if k == "map":
            return self.mapping(depth)
        if k == "ref":
            if not self.defs:
                return self.num()
            return {"$ref": "#/definitions/" + r.choice(self.defs)}
        kw = r.choice(["allOf", "anyOf", "oneOf", "not"])
        return {kw: [self.annotate(self.schema(depth + 1)) for _ in range(r.randint(1, 3))]}


# ---- definition / class names: identifiers of every shape, not only Capitalised ones.  Heads cover every
# letter of the "#/definitions/" prefix (d e f i n t o s) and other lower/upper-case letters; digits and
# underscores inside; names that are prefixes / suffixes of one another (also "up to leading prefix letters").
PREFIX_LETTERS = "definitos"
NAME_HEADS = list("defintos") * 3 + list("abcghjklmpqruvwxyz") + list("ABDEFINOST")
NAME_BODIES = ["", "ef", "tem", "ode", "rder", "_x", "9", "efinitions", "s_1", "Ab", "nt", "__", "to", "ist"]
NAME_GLUE = ["it", "nod", "se", "t", "dein", "definitions", "o", "f_", "x", "Z", "a1", "sn"]


def pool_name(rng, idx, k):
    return f"{rng.choice(NAME_HEADS)}{rng.choice(NAME_BODIES)}{idx}_{k}"


def def_names_for(rng, idx, n):
    names = []
    for k in range(n):
        r = rng.random()
        if names and r < 0.2:
            nm = names[-1] + rng.choice(["x", "_2", "s", "0"])          # previous name is a prefix of this one
        elif names and r < 0.4:
            nm = rng.choice(NAME_GLUE) + names[-1]                        # previous name is a suffix of this one
        elif r < 0.5:
            nm = f"D{idx}_{k}"
        else:
            nm = pool_name(rng, idx, k)
        if nm in names or not nm.isidentifier():
            nm = f"D{idx}_{k}"
        names.append(nm)
    return names


def bad_def_name(rng, def_names):
    """replace one definition name by a string that is not a Python name (class header and every $ref to it)"""
    k = rng.randrange(len(def_names))
    def_names[k] = rng.choice([b for b in BAD_NAMES if b]) + f"{k}"


def gen_case(rng, tier, idx, p_hostile=None, p_odd=None):
    depth = rng.choice([1, 2, 3]) if tier == "quick" else rng.choice([1, 2, 3, 4])
    ph = p_hostile if p_hostile is not None else rng.choice([0.0, 0.0, 0.1, 0.3])
    po = p_odd if p_odd is not None else rng.choice([0.0, 0.0, 0.0, 0.15])
    n_defs = rng.choice([0, 0, 1, 2, 3])
    def_names = def_names_for(rng, idx, n_defs)
    if def_names and po > 0 and rng.random() < 0.1:
        bad_def_name(rng, def_names)
    defs = []
    forward = po > 0 and rng.random() < 0.15
    for k, dn in enumerate(def_names):
        visible = def_names if forward else def_names[:k]
        visible = [v for v in visible if v != dn]
        g = SchemaGen(rng, depth, ph, po, visible)
        d = g.obj(1, top=rng.random() < 0.8)
        if rng.random() < g.pa:
            d["description"] = g.annotation()          # a definition's description is its class docstring
        defs.append([dn, d])
    g = SchemaGen(rng, depth, ph, po, def_names)
    r = rng.random()
    if r < 0.8:
        schema = g.obj(0, top=True, main=True)
    elif r < 0.97 or po == 0:
        schema = g.schema(1)
        if schema.get("type") == "object" and "properties" not in schema:
            schema = g.num()
        if "$ref" in schema:
            schema = g.string()
    else:
        schema = g.mapping(1)
    desc = None
    if rng.random() < 0.35 and ("properties" in schema or schema.get("type") != "object"):
        desc = payload(rng, ph) or "doc"
        if "properties" in schema or rng.random() < 0.5:
            schema = dict(schema)
            schema["description"] = desc
        else:
            desc = None
    name = f"G{idx}" if rng.random() < 0.5 else rng.choice(NAME_HEADS) + rng.choice(NAME_BODIES) + f"{idx}_m"
    return {"suite": "schemacode", "name": name, "schema": schema, "defs": defs,
            "api": rng.choice(["struct", "struct", "write"]), "docseed": rng.randrange(1 << 30)}


REF_POSITIONS = ["property", "items", "positional", "combinator", "map-value", "nested", "def-to-def"]


def directed_ref_cases():
    """every head letter x every position a $ref can stand in (small, deterministic)"""
    out = []
    heads = list("defintos") + ["a", "m", "Q", "x"]
    leaf = {"type": "object", "properties": {"u": {"type": "integer", "minimum": 0}, "v": {"type": "string", "maxLength": 3}},
            "required": ["u"], "additionalProperties": False}
    for i, h in enumerate(heads):
        for j, pos in enumerate(REF_POSITIONS):
            if (i + j) % 3 and pos not in ("property", "items"):
                continue          # every head in property + items position, a third of the heads in each other one
            dn = f"{h}{NAME_BODIES[(i + j) % len(NAME_BODIES)]}_r{i}{j}"
            other = f"{NAME_GLUE[(i * 7 + j) % len(NAME_GLUE)]}{dn}"          # dn is a suffix of `other`
            ref = {"$ref": "#/definitions/" + dn}
            ref2 = {"$ref": "#/definitions/" + other}
            defs = [[dn, copy.deepcopy(leaf)],
                    [other, {"type": "object", "properties": {"w": {"type": "boolean"}, "k": {"type": "number"}},
                             "required": ["w"], "additionalProperties": True}]]
            props = {"n": {"type": "integer"}}
            if pos == "property":
                props["p"] = ref
                props["q"] = ref2
            elif pos == "items":
                props["p"] = {"type": "array", "items": ref2, "maxItems": 3}
                props["q"] = {"type": "array", "items": ref}
            elif pos == "positional":
                props["p"] = {"type": "array", "items": [ref, {"type": "integer"}, ref2], "additionalItems": False}
            elif pos == "combinator":
                props["p"] = {"anyOf": [ref, {"type": "integer"}]}
                props["q"] = {"oneOf": [{"type": "string"}, ref2]}
            elif pos == "map-value":
                props["p"] = {"type": "object", "additionalProperties": ref2}
                props["q"] = {"type": "object", "additionalProperties": ref}
            elif pos == "nested":
                props["p"] = {"type": "object", "properties": {"a": ref, "b": ref2, "c": {"type": "integer"}},
                              "required": ["a", "c"], "additionalProperties": True}
            elif pos == "def-to-def":
                third = f"{dn}x"                                            # dn is a prefix of `third`
                defs.append([third, {"type": "object", "properties": {"a": ref, "b": ref2, "c": {"type": "integer"}},
                                     "required": ["a", "b"], "additionalProperties": True}])
                props["p"] = {"$ref": "#/definitions/" + third}
            schema = {"type": "object", "properties": props, "required": ["p", "n"], "additionalProperties": True}
            out.append({"suite": "schemacode", "name": f"{h}r{i}{j}_m" if j % 2 else f"R{i}{j}", "schema": schema,
                        "defs": defs, "api": "write" if (i + j) % 2 else "struct", "docseed": 1000 + 10 * i + j,
                        "stream": "directed-ref:" + pos})
    return out


FIXED = [
    # the expected findings, always exercised
    {"type": "object", "properties": {"p": {"type": "string", "pattern": "^it's"}}, "required": ["p"], "additionalProperties": True},
    {"type": "object", "properties": {"p": {"type": "string", "pattern": "^\\bword"}}, "required": ["p"], "additionalProperties": True},
    {"type": "object", "properties": {"p": {"type": "string", "pattern": "^a\nb"}}, "required": ["p"], "additionalProperties": True},
    {"type": "object", "properties": {"p": {"type": "string", "default": "it's"}, "q": {"type": "integer"}}, "required": ["p"], "additionalProperties": True},
    {"type": "object", "properties": {"p": {"type": "string", "default": "a\\nb"}, "q": {"type": "integer"}}, "required": ["p"], "additionalProperties": True},
    {"type": "object", "description": 'say """hi"""', "properties": {"p": {"type": "integer"}}, "required": ["p"], "additionalProperties": True},
    {"type": "object", "description": "path\\", "properties": {"p": {"type": "integer"}}, "required": ["p"], "additionalProperties": True},
    {"type": "object", "description": "tab\\there", "properties": {"p": {"type": "integer"}}, "required": ["p"], "additionalProperties": True},
    {"type": "object", "properties": {"p": {"enum": ["it's", "a\\b", "x\ny", "q\"'z", '"""']}}, "required": ["p"], "additionalProperties": True},
    {"type": "object", "properties": {"p": {"type": "array", "minItems": 1, "maxItems": 2}}, "required": ["p"], "additionalProperties": True},
    {"type": "object", "properties": {"p": {"type": "integer"}}, "required": ["p"], "additionalProperties": False},
    {"type": "object", "properties": {"p": {"type": "integer"}, "q": {"type": "integer"}}},
    {"type": "object", "properties": {"p": {"type": "integer", "default": 1}, "q": {"type": "integer"}}},
    {"type": "object", "properties": {"p": {"type": "integer", "default": 1}, "q": {"type": "integer"}}, "required": ["q"], "additionalProperties": True},
    {"type": "object", "properties": {"p": {"type": "object", "additionalProperties": True}}, "required": ["p"], "additionalProperties": True},
    {"type": "object", "properties": {"p": {"type": "object", "additionalProperties": False}}, "required": ["p"], "additionalProperties": True},
    {"type": "object", "properties": {}},
    {"type": "object", "properties": {"p": {"enum": [1, None]}}, "required": ["p"], "additionalProperties": True},
    {"type": "object", "properties": {"p": {"type": "object", "properties": {"x": {"type": "integer"}}, "required": ["x"], "additionalProperties": False},
                                       "q": {"type": "integer"}}, "required": ["p"], "additionalProperties": True},
    # NUL: escaped by repr in patterns / defaults / enums, pasted raw into the docstring
    {"type": "object", "properties": {"p": {"type": "string", "pattern": "^a\x00b"}, "q": {"type": "string", "default": "d\x00"},
                                       "e": {"enum": ["\x00", "x"]}}, "required": ["p", "q"], "additionalProperties": True},
    {"type": "object", "description": "nul \x00 here", "properties": {"p": {"type": "integer"}}, "required": ["p"], "additionalProperties": True},
    # names that are not Python names (compile: / exec: / roundtrip:name-not-identifier), top level and nested
    {"type": "object", "properties": {"my-prop": {"type": "integer"}, "q": {"type": "string"}}, "required": ["q"], "additionalProperties": True},
    {"type": "object", "properties": {"p": {"type": "object", "properties": {"class": {"type": "integer"}}, "required": [], "additionalProperties": True}},
     "required": ["p"], "additionalProperties": True},
    {"type": "object", "properties": {"1a": {"type": "integer"}, "__debug__": {"type": "boolean"}}, "required": [], "additionalProperties": True},
    {"type": "object", "properties": {"x.y": {"type": "integer"}, "q": {"type": "integer"}}, "required": ["q"], "additionalProperties": True},
    {"type": "object", "properties": {"#c": {"type": "integer"}, "q": {"type": "integer"}}, "required": ["q"], "additionalProperties": True},
    # annotation keywords with text that would be class-body code if it leaked into the source
    {"type": "object", "properties": {"p": {"type": "integer", "description": "count\n    _additional_properties = False", "title": "t\rq = 1"},
                                       "q": {"type": "array", "items": {"type": "string", "$comment": "x\n    pass", "examples": ["\n", "\"\"\""]}}},
     "required": ["p"], "additionalProperties": True},
    # long hostile strings (the lexer model must stay linear)
    {"type": "object", "description": "long \"\"\"\" 'q' \\ \r\n \\x41 \\N{DASH} \\u00e9 tail\\ " * 6,
     "properties": {"p": {"type": "string", "pattern": "^" + "it's\\b\\d\\.\\x41\"\\\\" * 8},
                    "q": {"type": "string", "default": "it's \\n \\N{DASH} \"\"\" \\" * 8},
                    "r": {"type": "array", "minItems": 1, "maxItems": 3, "items": {"type": "integer"}}},
     "required": ["p", "q", "r"], "additionalProperties": True},
    {"type": "object", "properties": {"p": {"type": "integer", "default": 1}}},
    {"type": "object"},
    # additionalItems x {single-schema items, no items, positional items} x {true, false}, top level and nested
    {"type": "object", "properties": {
        "a": {"type": "array", "items": {"type": "integer"}, "additionalItems": False},
        "b": {"type": "array", "items": {"type": "string"}, "additionalItems": True, "maxItems": 3},
        "c": {"type": "array", "additionalItems": False},
        "d": {"type": "array", "additionalItems": True, "uniqueItems": True},
        "e": {"type": "array", "items": [{"type": "integer"}], "additionalItems": False},
        "f": {"type": "array", "items": {"type": "array", "items": {"type": "boolean"}, "additionalItems": False}},
        "g": {"type": "object", "properties": {"h": {"type": "array", "additionalItems": False}, "i": {"type": "integer"}},
              "required": ["h"], "additionalProperties": True},
        "j": {"anyOf": [{"type": "array", "items": {"type": "integer"}, "additionalItems": True}, {"type": "string"}]}},
     "required": ["a", "c"], "additionalProperties": True},
    # uniqueItems over elements that are themselves containers (arrays, map-like objects, untyped), wrapped 0-2 deep
    {"type": "object", "properties": {
        "a": {"type": "array", "uniqueItems": True},
        "b": {"type": "array", "uniqueItems": True, "items": {"type": "array"}},
        "c": {"type": "array", "uniqueItems": True, "items": {"type": "array", "items": {"type": "number"}}, "maxItems": 4},
        "d": {"type": "array", "uniqueItems": True, "items": {"type": "object"}},
        "e": {"type": "array", "uniqueItems": True, "items": {"type": "object", "additionalProperties": {"type": "number"}}},
        "f": {"type": "array", "items": {"type": "array", "uniqueItems": True}},
        "g": {"type": "object", "additionalProperties": {"type": "array", "uniqueItems": True, "items": {"type": "array"}}},
        "h": {"type": "object", "properties": {"u": {"type": "array", "uniqueItems": True}, "n": {"type": "integer"}},
              "required": ["n"], "additionalProperties": True},
        "i": {"type": "array", "uniqueItems": True, "items": [{"type": "integer"}, {"type": "string"}]},
        "j": {"type": "array", "uniqueItems": True, "items": {"type": "number"}}},
     "required": ["a"], "additionalProperties": True},
]


def fixed_cases():
    out = []
    for i, s in enumerate(FIXED):
        out.append({"suite": "schemacode", "name": f"F{i}", "schema": copy.deepcopy(s), "defs": [],
                    "api": "struct" if i % 2 == 0 else "write", "docseed": i})
    # forward reference between definitions
    out.append({"suite": "schemacode", "name": "F_fwd",
                "schema": {"type": "object", "properties": {"p": {"$ref": "#/definitions/DF_0"}}, "required": ["p"], "additionalProperties": True},
                "defs": [["DF_0", {"type": "object", "properties": {"x": {"$ref": "#/definitions/DF_1"}}, "required": ["x"], "additionalProperties": True}],
                         ["DF_1", {"type": "object", "properties": {"y": {"type": "integer"}, "z": {"type": "string"}}, "required": ["y"], "additionalProperties": True}]],
                "api": "write", "docseed": 99})
    # additionalItems on non-positional arrays inside a definition (mapped back through _map_class_reference)
    out.append({"suite": "schemacode", "name": "F_addl",
                "schema": {"type": "object", "properties": {"p": {"$ref": "#/definitions/addl_def"}, "q": {"type": "array", "items": {"$ref": "#/definitions/addl_def"}, "additionalItems": True}},
                           "required": ["p"], "additionalProperties": True},
                "defs": [["addl_def", {"type": "object", "properties": {"x": {"type": "array", "items": {"type": "number"}, "additionalItems": False},
                                                                         "y": {"type": "array", "additionalItems": True}, "z": {"type": "integer"}},
                                       "required": ["x"], "additionalProperties": True}]],
                "api": "struct", "docseed": 98})
    return out


def gen_cases(rng, tier, n):
    cases = fixed_cases() + directed_ref_cases()
    for i in range(n):
        cases.append(gen_case(rng, tier, i))
    return cases


# ------------------------------------------------------------------ text-level tie: canonical schema, oracles, mutants

def canon_schema(s, top=False):
    """the schema the Lean AST stands for (mirror of Schema.ofJson / Schema.toJson in Drive/SchemaCode.lean): keywords the
    mapping ignores are dropped (annotations below class level, unknown keys), draft-4 default-valued keywords are dropped
    (exclusiveMaximum / uniqueItems false, additionalItems true or on non-positional arrays, additionalProperties true on an
    object with properties).  The real generator run on canon_schema(x) must print exactly the model's text."""
    desc = {"description": s["description"]} if top and "description" in s else {}
    if "$ref" in s:
        return {"$ref": s["$ref"], **desc}
    for k in ("allOf", "anyOf", "oneOf", "not"):
        if k in s:
            return {k: [canon_schema(x) for x in s[k]], **desc}
    if "enum" in s:
        return {"enum": copy.deepcopy(s["enum"]), **desc}
    t = s.get("type", "object")
    out = {"type": t}

    def keep(*ks):
        for k in ks:
            if k in s:
                out[k] = s[k]
    if t in ("integer", "number"):
        keep("multiplesOf", "minimum", "maximum")
        if s.get("exclusiveMaximum"):
            out["exclusiveMaximum"] = True
    elif t == "string":
        keep("minLength", "maxLength", "pattern")
    elif t == "array":
        items = s.get("items")
        if isinstance(items, list):
            out["items"] = [canon_schema(x) for x in items]
            if s.get("additionalItems", True) is False:
                out["additionalItems"] = False
        elif items is not None:
            out["items"] = canon_schema(items)
        if s.get("uniqueItems"):
            out["uniqueItems"] = True
        keep("minItems", "maxItems")
    elif t == "object":
        if "properties" in s:
            props = {}
            for n, x in s["properties"].items():
                c = canon_schema(x)
                if "default" in x:
                    c["default"] = copy.deepcopy(x["default"])
                props[n] = c
            out["properties"] = props
            if "required" in s:
                out["required"] = list(s["required"])
            if s.get("additionalProperties", True) is False:
                out["additionalProperties"] = False
        else:
            ap = s.get("additionalProperties")
            if isinstance(ap, bool):
                out["additionalProperties"] = ap
            elif ap is not None:
                out["additionalProperties"] = canon_schema(ap)
            keep("minItems", "maxItems")
    if top and "description" in s:
        out["description"] = s["description"]
    return out


def assemble(api, dcode, scode, has_defs):
    """the module text: what write_code_from_schema writes / what the harness concatenates for the struct API"""
    if api == "write":
        return "from typedpy import *\n\n\n" + (dcode + "\n\n# ********************\n\n\n" if has_defs else "") + scode + "\n"
    return "from typedpy import *\n\n\n" + (dcode + "\n\n\n" if has_defs else "") + scode + "\n"


def all_floats(x, acc):
    if isinstance(x, float):
        acc.append(x)
    elif isinstance(x, list):
        for y in x:
            all_floats(y, acc)
    elif isinstance(x, dict):
        for y in x.values():
            all_floats(y, acc)


def compiles(src):
    try:
        with warnings.catch_warnings():
            warnings.simplefilter("ignore")
            compile(src, "<mutant>", "exec")
        return True
    except (SyntaxError, ValueError):
        return False
    except (RecursionError, MemoryError):
        return None


def mutants_of(code, rng, n):
    """token-level mutations of a generated source: delete / duplicate / swap tokens, flip the quote of a string
    literal, change the indentation of a line, delete or insert a line break"""
    import io
    import tokenize
    toks = []
    try:
        for t in tokenize.generate_tokens(io.StringIO(code).readline):
            if t.type in (tokenize.NAME, tokenize.OP, tokenize.NUMBER, tokenize.STRING) and t.start[0] == t.end[0]:
                toks.append(t)
    except (tokenize.TokenError, SyntaxError, IndentationError, ValueError):
        pass
    lines = code.split("\n")
    # tokenize normalises nothing here: generated sources that reach this point have only "\n" line ends unless a CR
    # was pasted raw; positions are then unreliable, fall back to character deletion
    if "\r" in code or "\x0c" in code:
        toks = []

    def span(t):
        off = sum(len(l) + 1 for l in lines[:t.start[0] - 1])
        return off + t.start[1], off + t.end[1]
    out = []
    for _ in range(n):
        kind = rng.choice(["del", "del", "del", "dup", "swap", "quote", "indent", "nl", "chr"])
        m = None
        if toks and kind in ("del", "dup", "swap", "quote"):
            i = rng.randrange(len(toks))
            a, b = span(toks[i])
            if code[a:b] != toks[i].string:
                continue
            if kind == "del":
                m = code[:a] + code[b:]
            elif kind == "dup":
                m = code[:b] + " " + code[a:b] + code[b:]
            elif kind == "swap" and i + 1 < len(toks):
                c, d = span(toks[i + 1])
                m = code[:a] + code[c:d] + code[b:c] + code[a:b] + code[d:]
            elif kind == "quote":
                strs = [t for t in toks if t.type == tokenize.STRING and len(t.string) < 6]
                if strs:
                    t = rng.choice(strs)
                    a, b = span(t)
                    q = '"' if t.string[0] == "'" else "'"
                    m = code[:a] + q + code[a + 1:b - 1] + q + code[b:]
        elif kind == "indent":
            i = rng.randrange(len(lines))
            if lines[i].strip():
                k = rng.choice([-4, -2, -1, 1, 2, 4])
                body = lines[i].lstrip(" ")
                ind = max(0, len(lines[i]) - len(body) + k)
                m = "\n".join(lines[:i] + [" " * ind + body] + lines[i + 1:])
        elif kind == "nl":
            pos = [i for i, ch in enumerate(code) if ch == "\n"]
            if pos and rng.random() < 0.5:
                k = rng.choice(pos)
                m = code[:k] + code[k + 1:]
            elif toks:
                a, _ = span(rng.choice(toks))
                m = code[:a] + "\n" + code[a:]
        if m is None and code:
            k = rng.randrange(len(code))
            m = code[:k] + code[k + 1:]
        if m is not None and m != code:
            out.append(m)
    return out


# ------------------------------------------------------------------ wire form for the Lean driver

def q_of(x):
    fr = Fraction(x)
    return [fr.numerator, fr.denominator]


def wire_schema(s):
    """plain schema dict -> wire form (see Drive/SchemaCode.lean)"""
    if isinstance(s, list):
        return [wire_schema(x) for x in s]
    if not isinstance(s, dict):
        return s
    out = {}
    for k, v in s.items():
        if k == "properties":
            out[k] = [[n, wire_schema(x)] for n, x in v.items()]
        elif k == "enum":
            out[k] = [dump.dump_value(x) for x in v]
        elif k == "default":
            out[k] = dump.dump_value(v)
        elif k in ("minimum", "maximum"):
            out[k] = q_of(v)
        elif k == "description":
            continue
        elif k in ("items", "additionalProperties", "allOf", "anyOf", "oneOf", "not"):
            out[k] = wire_schema(v)
        else:
            out[k] = v
    return out


def unwire_value(v):
    return dump.load_value(v, dump.Ctx())


def unwire_schema(s):
    """wire form -> plain schema dict (for comparing the model's `back` with the real one)"""
    if isinstance(s, list):
        return [unwire_schema(x) for x in s]
    if not isinstance(s, dict):
        return s
    out = {}
    for k, v in s.items():
        if k == "properties":
            out[k] = {n: unwire_schema(x) for n, x in v}
        elif k == "enum":
            out[k] = [unwire_value(x) for x in v]
        elif k == "default":
            out[k] = unwire_value(v)
        elif k in ("minimum", "maximum"):
            fr = Fraction(v[0], v[1])
            out[k] = fr.numerator if fr.denominator == 1 else float(fr)
        elif k in ("items", "additionalProperties", "allOf", "anyOf", "oneOf", "not"):
            out[k] = unwire_schema(v)
        else:
            out[k] = v
    return out


def norm_schema(s):
    """comparison form: key order irrelevant (dict ==), `required` sorted, draft-4 default-valued
    keywords dropped (`exclusiveMaximum: false`, `uniqueItems: false`, `additionalItems: true`),
    `additionalProperties` of an object with properties made explicit, `description` ignored"""
    if isinstance(s, list):
        return [norm_schema(x) for x in s]
    if not isinstance(s, dict):
        return s
    out = {}
    for k, v in s.items():
        if k == "required":
            out[k] = sorted(v)
        elif k in ("exclusiveMaximum", "uniqueItems") and v is False:
            continue
        elif k == "additionalItems" and v is True and isinstance(s.get("items"), list):
            continue      # positional items: absent = true (the model's AST carries a Bool); otherwise literal
        elif k in ("description", "$schema", "title", "$comment", "examples"):
            continue      # annotations: no effect on what the schema admits
        elif k in ("minItems", "maxItems", "minProperties", "maxProperties") and s.get("type", "object") == "object" \
                and "$ref" not in s and not any(m in s for m in ("allOf", "anyOf", "oneOf", "not", "enum")):
            # the size of an object: typedpy's dialect reads minItems / maxItems, exports minProperties / maxProperties
            out[{"minItems": "minProperties", "maxItems": "maxProperties"}.get(k, k)] = v
        elif k == "properties":
            out[k] = {n: norm_schema(x) for n, x in v.items()}
        elif k in ("enum", "default"):
            out[k] = tag_value(v)
        else:
            out[k] = norm_schema(v)
    if "properties" in out and "additionalProperties" not in out:
        out["additionalProperties"] = True
    return out


def strip_nonpositional_addl(s):
    """the model's declarations (Core/Field.lean, dump_field) do not carry `additionalItems` of an Array whose
    `items` is a single field or absent (it has no runtime effect): for the model-vs-real comparison only, the
    keyword is erased there on both sides.  The round-trip ORACLE (real result vs original schema) keeps it."""
    if isinstance(s, list):
        return [strip_nonpositional_addl(x) for x in s]
    if not isinstance(s, dict):
        return s
    out = {}
    for k, v in s.items():
        if k == "properties" and isinstance(v, dict):
            out[k] = {n: strip_nonpositional_addl(x) for n, x in v.items()}       # names are not keywords
        elif k in ("enum", "default"):
            out[k] = v
        else:
            out[k] = strip_nonpositional_addl(v)
    if out.get("type") == "array" and not isinstance(out.get("items"), list):
        out.pop("additionalItems", None)
    return out


def tag_value(v):
    """distinguish True from 1 (Python `==` does not) while keeping 1 == 1.0"""
    if isinstance(v, bool):
        return {"bool": v}
    if isinstance(v, list):
        return [tag_value(x) for x in v]
    if isinstance(v, dict):
        return {k: tag_value(x) for k, x in v.items()}
    return v


def all_strings(x, acc):
    if isinstance(x, str):
        acc.append(x)
    elif isinstance(x, list):
        for y in x:
            all_strings(y, acc)
    elif isinstance(x, dict):
        for k, y in x.items():
            acc.append(k)
            all_strings(y, acc)


def line(case, impl):
    strings = []
    all_strings(case["schema"], strings)
    all_strings(case["defs"], strings)
    nonprint = sorted({ord(c) for s in strings for c in s if ord(c) > 127 and not c.isprintable()})
    mutants = impl.get("mutants", [])
    texts = strings + [case["name"], impl.get("code") or ""] + mutants
    high = {c for s in texts for c in s if ord(c) > 127}
    floats = []
    all_floats([case["schema"], case["defs"]], floats)
    ftab = []
    for x in floats:
        if x == x and x not in (float("inf"), float("-inf")):
            e = q_of(x) + [repr(x)]
            if e not in ftab:
                ftab.append(e)
    out = {"suite": "schemacode", "name": case["name"], "schema": wire_schema(case["schema"]),
           "defs": [[n, wire_schema(d)] for n, d in case["defs"]],
           "defDescs": [d.get("description") for _, d in case["defs"]],
           "desc": case["schema"].get("description"), "nonprint": nonprint,
           "api": case.get("api", "struct"), "floats": ftab,
           "idstart": sorted(ord(c) for c in high if c.isidentifier()),
           "idcont": sorted(ord(c) for c in high if ("a" + c).isidentifier()),
           "mutants": mutants}
    if impl.get("code") is not None:
        out["code"] = impl["code"]
    fdocs = (impl.get("docs") or {}).get("field_docs") or []
    if fdocs:
        out["fieldDocs"] = [[n, dump.dump_value(x)] for n, x, _, _ in fdocs]
        props = case["schema"].get("properties", {})
        table = []
        for n, x, _, _ in fdocs:
            pat = props.get(n, {}).get("pattern")
            if pat is not None and isinstance(x, str):
                try:
                    with warnings.catch_warnings():
                        warnings.simplefilter("ignore")
                        e = [pat, x, re.compile(pat).match(x) is not None, re.search(pat, x) is not None]
                except re.error:
                    continue
                if e not in table:
                    table.append(e)
        out["reTable"] = table
    return out


# ------------------------------------------------------------------ real code

def strip_decl(d):
    """dump normalisation for generated classes: inline class names and float-ness flags erased"""
    if isinstance(d, list):
        return [strip_decl(x) for x in d]
    if not isinstance(d, dict):
        return d
    out = {k: strip_decl(v) for k, v in d.items() if k not in ("minFloat", "maxFloat", "accepts")}
    if out.get("k") == "struct" and out.get("inline"):
        out["name"] = "StructureReference"
    return out


def norm_decl(d):
    return dump.normalize_decl(strip_decl(d))


def err_name(e):
    return type(e).__name__


N_MUTANTS = 4


def run_impl(case):
    from typedpy import (schema_to_struct_code, schema_definitions_to_code, write_code_from_schema,
                         structure_to_schema)
    name = case["name"]
    schema = copy.deepcopy(case["schema"])
    defs = {n: copy.deepcopy(d) for n, d in case["defs"]}
    snap_schema, snap_defs = copy.deepcopy(schema), copy.deepcopy(defs)
    res = {}
    try:
        if case.get("api") == "write":
            os.makedirs(WORK, exist_ok=True)
            path = os.path.join(WORK, f"gen_{os.getpid()}_{name}.py")
            try:
                write_code_from_schema(schema, defs, path, name)
                with open(path, encoding="utf-8", newline="") as f:
                    code = f.read()
            finally:
                if os.path.exists(path):
                    os.remove(path)
        else:
            dcode = schema_definitions_to_code(defs)
            scode = schema_to_struct_code(name, schema, defs)
            code = "from typedpy import *\n\n\n" + (dcode + "\n\n\n" if defs else "") + scode + "\n"
    except Exception as e:
        res.update({"phase": "gen", "err": err_name(e), "msg": str(e)[:200]})
        code = None
    res["schema_after"] = schema
    res["defs_after"] = [[n, d] for n, d in defs.items()]
    res["mutated"] = schema != snap_schema or defs != snap_defs
    # the generator on the canonical form of the schema: the text the model prints
    try:
        cschema = canon_schema(case["schema"], top=True)
        cdefs = {n: canon_schema(d, top=True) for n, d in case["defs"]}
        res["canon_same"] = (cschema == case["schema"] and all(cdefs[n] == d for n, d in case["defs"]))
        res["code_canon"] = assemble(case.get("api"), schema_definitions_to_code(cdefs),
                                     schema_to_struct_code(name, cschema, cdefs), bool(cdefs))
    except Exception as e:
        res["canon_err"] = f"{err_name(e)}: {e}"[:200]
    if code is None:
        return res
    res["code"] = code
    import random as _random
    mrng = _random.Random(case.get("docseed", 0) * 7919 + 13)
    res["mutants"] = mutants_of(code, mrng, N_MUTANTS)
    res["mutant_ok"] = [compiles(m) for m in res["mutants"]]
    try:
        with warnings.catch_warnings():
            warnings.simplefilter("ignore")
            obj = compile(code, f"<generated {name}>", "exec")
    except (SyntaxError, ValueError) as e:
        res.update({"phase": "compile", "err": err_name(e), "msg": str(e)[:200]})
        return res
    g = {}
    try:
        exec(obj, g)
        cls = g[name]
    except Exception as e:
        res.update({"phase": "exec", "err": err_name(e), "msg": str(e)[:200]})
        return res
    res["phase"] = "ok"
    try:
        res["decl"] = dump.dump_class(cls)
        res["defDecls"] = [[n, dump.dump_class(g[n])] for n in defs]
    except Exception as e:
        res["dump_err"] = f"{err_name(e)}: {e}"[:300]
    res["doc"] = cls.__doc__
    try:
        back, back_defs = structure_to_schema(cls, {})
        res["back"] = json.loads(json.dumps(back))
        res["backDefs"] = json.loads(json.dumps(back_defs))
    except Exception as e:
        res["back_err"] = err_name(e)
        res["back_msg"] = str(e)[:200]
    # exactness: generated class vs independent draft-4 validator on boundary documents
    try:
        from . import schemadocs
        res["docs"] = schemadocs.run_docs(case, cls, g)
    except Exception as e:
        res["docs_err"] = f"{err_name(e)}: {e}"[:300]
    return res


# ------------------------------------------------------------------ judging

def expected_back(schema):
    """what the round trip must return for the schema handed to `schema_to_struct_code`"""
    if schema.get("type", "object") == "object" and "properties" in schema:
        return schema
    inner = {k: v for k, v in schema.items() if k != "description"}
    return {"type": "object", "properties": {"wrapped": inner}, "required": ["wrapped"], "additionalProperties": True}


def reachable_defs(schema, defs):
    seen = []

    def walk(x):
        if isinstance(x, dict):
            r = x.get("$ref")
            if isinstance(r, str):
                n = r[len("#/definitions/"):]
                if n not in seen and n in defs:
                    seen.append(n)
                    walk(defs[n])
            for v in x.values():
                walk(v)
        elif isinstance(x, list):
            for v in x:
                walk(v)
    walk(schema)
    return seen


def site_key(site, desc=None):
    if site == "description" and desc is not None and "\x00" in desc:
        return "unescaped:description-nul"
    return {"pattern": "unescaped:pattern", "default": "unescaped:default", "description": "unescaped:description",
            "enum": "unescaped:enum", "required": "unescaped:required", "default-repr": "unescaped:default-repr"}[site]


_GEN_MOVED = None


def generator_moved():
    """did the source of the schema -> code generator move from the pinned tree (extract/srcpins.py)?  On the pinned
    tree the model's text must equal the real text character by character (anything else is a model error); where the
    generator was rewritten, a different spelling of the same module is not an alarm by itself: the case is then decided
    by the recogniser on the REAL text vs CPython, the dumped classes, the docstring and the round trip."""
    global _GEN_MOVED
    if _GEN_MOVED is None:
        try:
            from extract import srcpins
            ch = srcpins.changed(os.environ.get("VERIF_REPO", "/repo"))
            _GEN_MOVED = any(k.startswith("typedpy/json_schema/json_schema_mapping.py::") for k in ch)
        except Exception:
            _GEN_MOVED = False
    return _GEN_MOVED


def first_diff(a, b):
    k = 0
    while k < min(len(a), len(b)) and a[k] == b[k]:
        k += 1
    return f"{a[max(0, k - 40):k + 60]!r} model {b[max(0, k - 40):k + 60]!r} (at {k})"


def judge(case, impl, model):
    """returns (disagreement or None, [(key, what)])"""
    fails = []
    msgs = []
    schema, defs = case["schema"], dict((n, d) for n, d in case["defs"])
    phase_i, phase_m = impl.get("phase"), model["phase"]
    unfaithful = model["unfaithful"]

    # -- the emitted literals are the ones the model says are emitted
    if impl.get("code") is not None:
        for s in model["sites"]:
            if s["source"] not in impl["code"]:
                msgs.append(f"literal for {s['site']} not found in the generated code: {s['source']!r}")
                break

        # every $ref is emitted as the class name the model derives from it
        top_map = schema.get("type", "object") == "object" and "properties" not in schema and not any(
            k in schema for k in ("allOf", "anyOf", "oneOf", "not", "enum", "$ref"))
        if not top_map:
            import collections
            for n, k in collections.Counter(model.get("refs", [])).items():
                want_n = k + (1 if n in defs else 0)          # k references + the class statement itself
                got_n = len(re.findall(r"(?<![\w])" + re.escape(n) + r"(?![\w])", impl["code"]))
                if got_n < want_n:
                    msgs.append(f"class name for $ref '#/definitions/{n}' occurs {got_n} times in the generated code, "
                                f"model expects {want_n}")
                    break

    # -- canon_schema (Python) is the mirror of Schema.ofJson / Schema.toJson (Lean): same canonical schema
    if model.get("canon") is not None:
        try:
            mine = norm_schema(canon_schema(schema))
            theirs = norm_schema(unwire_schema(model["canon"]))
            if strip_nonpositional_addl(mine) != strip_nonpositional_addl(theirs):
                msgs.append("canonical form of the schema: Python mirror " + json.dumps(mine, ensure_ascii=False)[:300]
                            + " Lean AST " + json.dumps(theirs, ensure_ascii=False)[:300])
            for (n, d), (n2, d2) in zip(case["defs"], model.get("canonDefs", [])):
                a, b = norm_schema(canon_schema(d)), norm_schema(unwire_schema(d2))
                if n != n2 or strip_nonpositional_addl(a) != strip_nonpositional_addl(b):
                    msgs.append(f"canonical form of definition {n}: Python mirror " + json.dumps(a, ensure_ascii=False)[:300]
                                + " Lean AST " + json.dumps(b, ensure_ascii=False)[:300])
                    break
        except Exception as e:      # a schema outside the AST is reported by the driver already
            msgs.append(f"canonical form comparison failed: {type(e).__name__}: {e}"[:200])

    # -- the emitted TEXT: the model prints what the real generator prints for the canonical schema
    if model.get("oracleOk") is False:
        msgs.append("repr(float) oracle answer is not a decimal literal of the recogniser's subset")
    if "canon_err" in impl and phase_m != "gen":
        msgs.append("generator failed on the canonical schema: " + impl["canon_err"])
    if model.get("text") is not None and "code_canon" in impl:
        if model["text"] != impl["code_canon"]:
            if not generator_moved():
                msgs.append("emitted text differs from the model: real " + first_diff(impl["code_canon"], model["text"]))
        elif impl.get("canon_same") and impl.get("code") is not None and impl["code"] != model["text"]:
            if not generator_moved():
                msgs.append("emitted text (through the API under test) differs from the model: real "
                            + first_diff(impl["code"], model["text"]))
    # -- the compiled model agrees with the kernel-checked theorem emitted_module_accepted_partial
    if (model.get("srcOk") and model.get("oracleOk") and model.get("nestOk")
            and model.get("text") is not None and (model.get("recog") != "accept" or not model.get("clean"))):
        msgs.append("side conditions of emitted_module_accepted_partial hold but the recogniser answers "
                    + str(model.get("recog")) + " for the model's text")
    # -- the structural recogniser (Sem/PyGram.lean) against CPython's compile
    if impl.get("code") is not None and model.get("recogReal") is not None:
        cp = impl.get("phase") != "compile"
        v = model["recogReal"]
        if (v == "accept" and not cp) or (v == "reject" and cp):
            msgs.append(f"recogniser says {v} for the generated source, CPython compile {'succeeds' if cp else 'fails'}: "
                        + repr(impl["code"])[:300])
    for m, ok, v in zip(impl.get("mutants", []), impl.get("mutant_ok", []), model.get("mutantVerdicts", [])):
        if ok is not None and ((v == "accept" and not ok) or (v == "reject" and ok)):
            msgs.append(f"recogniser says {v} for a mutated source, CPython compile {'succeeds' if ok else 'fails'}: "
                        + repr(m)[:400])
            break

    # -- the Lean exactness models (Spec/CodeExact.lean: Deser + validate on the generated declaration, jsV on the source
    #    schema) against the real Deserializer and jsonschema on this case's scalar properties
    fdocs = (impl.get("docs") or {}).get("field_docs") or []
    for (n, x, got, want), mv in zip(fdocs, model.get("fieldVerdicts", [])):
        if mv is None or model.get("nameIssue"):
            continue
        if mv[0] != got:
            msgs.append(f"exactness model: generated field {n!r} on value {x!r}: real class {'accepts' if got else 'rejects'}, "
                        f"Lean Deser+validate model {'accepts' if mv[0] else 'rejects'}")
            break
        if mv[1] != want:
            msgs.append(f"exactness model: schema of {n!r} on value {x!r}: jsonschema {'admits' if want else 'rejects'}, "
                        f"Lean validator model {'admits' if mv[1] else 'rejects'}")
            break

    # -- caller's schema must not be modified
    if impl.get("mutated"):
        fails.append(("mutates-input:required", "schema_to_struct_code modified the caller's schema: required "
                      + json.dumps(schema.get("required")) + " -> " + json.dumps(impl["schema_after"].get("required"))))
    if phase_i != "gen":
        after = impl["schema_after"].get("required") if isinstance(impl["schema_after"], dict) else None
        want = model.get("reqAfter")
        if "properties" in schema and schema.get("type", "object") == "object" and after != want:
            msgs.append(f"post-state of the caller's required list: real {after}, model {want}")

    # -- phases
    if phase_i != phase_m:
        attributed = False
        if phase_m == "compile" and phase_i in ("exec", "ok") and unfaithful:
            attributed = True    # the broken literal happens to parse as something else
        if phase_m == "ok" and phase_i == "exec" and unfaithful and impl.get("err") in ("error", "PatternError"):
            attributed = True    # the pattern the literal denotes is not a valid regex any more
        if phase_m == "ok" and phase_i == "exec" and unfaithful and impl.get("err") in ("ValueError", "TypeError"):
            attributed = True    # the default the literal denotes is no longer valid for its field
        if model.get("nameIssue") and phase_i in ("compile", "exec") and phase_m != "gen" and (
                model.get("recog") == "unknown" or (phase_i == "exec" and impl.get("err") == "NameError")):
            # a name that is not a Python name: outside the recogniser's subset (no prediction), or it parses as something
            # else / is name-mangled inside the class body (`__x`) and is undefined when the module runs
            attributed = True
        if model.get("nameIssue") and phase_i == "ok" and phase_m in ("compile", "exec"):
            # a name that is not a Python name changed what the text means ("#c" comments out the line that held the
            # forward / cyclic reference): keyed below as roundtrip:name-not-identifier
            attributed = True
        if not attributed:
            msgs.append(f"phase differs: real {phase_i} ({impl.get('err')}: {impl.get('msg')}), model {phase_m}")
    if phase_i == "gen":
        keys = model["crashes"] or ["crash:unexpected"]
        fails.append((keys[0], f"code generation raises {impl.get('err')}: {impl.get('msg')}"))
        return ("; ".join(msgs) or None), fails
    if phase_i in ("compile", "exec"):
        if unfaithful:
            key = site_key(unfaithful[0], schema.get("description"))
        elif model.get("nameIssue") and not (phase_i == "exec" and impl.get("err") != "NameError"):
            key = f"{phase_i}:name-not-identifier"
        elif not model["refsOrdered"]:
            key = "exec:cyclic-ref"
        else:
            key = f"{phase_i}:unexpected"
        fails.append((key, f"generated source does not {'compile' if phase_i == 'compile' else 'execute'}: "
                      f"{impl.get('err')}: {impl.get('msg')}"))
        return ("; ".join(msgs) or None), fails

    # -- real phase ok
    if model.get("nameIssue"):
        # the source happens to compile and run although a property / definition name is not a Python name ("#c" makes the
        # field line a comment, "x.y" an attribute annotation, ...): the class cannot be the schema's
        fails.append(("roundtrip:name-not-identifier", "a property / definition name that is not a Python identifier is pasted "
                      "into the source as is; the module runs but the class is not the schema's: " + (impl.get("code") or "")[:300]))
        return ("; ".join(msgs) or None), fails
    if unfaithful:
        fails.append((site_key(unfaithful[0], schema.get("description")),
                      "the emitted literal does not denote the schema's string: "
                      + json.dumps([s for s in model["sites"] if not s["faithful"]][:2], ensure_ascii=False)[:300]))
    if "dump_err" in impl:
        msgs.append("dump of the generated class failed: " + impl["dump_err"])
    elif phase_m == "ok" and "decl" in model:
        a, b = norm_decl(impl["decl"]), norm_decl(model["decl"])
        if a != b:
            msgs.append("generated class differs from the model: real " + json.dumps(a, ensure_ascii=False)[:500]
                        + " model " + json.dumps(b, ensure_ascii=False)[:500])
        da = {n: norm_decl(d) for n, d in impl["defDecls"]}
        db = {n: norm_decl(d) for n, d in model["defDecls"]}
        if da != db:
            msgs.append("generated definition classes differ from the model")
        if model.get("doc") != impl.get("doc"):
            msgs.append(f"docstring differs: real {impl.get('doc')!r} model {model.get('doc')!r}")
    # docstring oracle
    desc = schema.get("description")
    if desc is not None and impl.get("doc") != f"\n    {desc}\n    " and not any(k.startswith("unescaped:description") for k, _ in fails):
        fails.append((site_key("description", desc), f"docstring {impl.get('doc')!r} is not the description {desc!r}"))

    # -- round trip
    issues = [i for i in model["issues"] if i != "top-level-wrapped"]
    for _, di in model["defIssues"]:
        issues += [i for i in di if i != "top-level-wrapped"]
    want = norm_schema(expected_back(schema))
    want_defs = {n: norm_schema(expected_back(defs[n])) for n in reachable_defs(schema, defs)}
    if "back_err" in impl:
        got = {"raises": impl["back_err"]}
        got_defs = None
    else:
        got = norm_schema(impl["back"])
        got_defs = {n: norm_schema(d) for n, d in impl["backDefs"].items()}
    if phase_m == "ok" and "back" in model and not unfaithful:
        mback = norm_schema(unwire_schema(model["back"]))
        # definitions the real mapping visits = those reachable from what the class still refers to
        reach_m = reachable_defs(unwire_schema(model["back"]), defs)
        mdefs = {n: norm_schema(unwire_schema(d)) for n, d in model.get("defBacks", []) if n in reach_m}
        if "unsupported" in json.dumps(mback) or "unsupported" in json.dumps(mdefs):
            if "back_err" not in impl:
                msgs.append("model: structure_to_schema raises, real returns " + json.dumps(got)[:300])
        elif strip_nonpositional_addl(got) != strip_nonpositional_addl(mback):
            msgs.append("structure_to_schema(generated class): real " + json.dumps(got, ensure_ascii=False)[:500]
                        + " model " + json.dumps(mback, ensure_ascii=False)[:500])
        elif strip_nonpositional_addl(got_defs) != strip_nonpositional_addl(mdefs):
            msgs.append("structure_to_schema(generated class) definitions: real " + json.dumps(got_defs, ensure_ascii=False)[:500]
                        + " model " + json.dumps(mdefs, ensure_ascii=False)[:500])
    if not unfaithful and (got != want or (got_defs is not None and got_defs != want_defs)):
        key = "roundtrip:" + (issues[0] if issues else "in-fragment")
        fails.append((key, "schema -> code -> schema is not the identity: got " + json.dumps(got, ensure_ascii=False)[:400]
                      + " defs " + json.dumps(got_defs, ensure_ascii=False)[:200]
                      + " want " + json.dumps(want, ensure_ascii=False)[:400]))
    elif issues and not unfaithful and "docs" not in impl:
        pass

    # -- exactness on documents
    if model.get("inFragment") and not issues and not unfaithful:
        for d in impl.get("docs", {}).get("mismatches", []):
            fails.append((d["key"], d["what"]))
    if "docs_err" in impl:
        msgs.append("document oracle failed: " + impl["docs_err"])
    return ("; ".join(msgs) or None), fails


def tags(case, impl, model):
    out = ["phase:" + str(impl.get("phase")), "api:" + case.get("api", "?")]
    if case.get("stream"):
        out.append("stream:" + case["stream"])
    heads = {("prefix-letter" if n[0][0] in PREFIX_LETTERS else "lower" if n[0][0].islower() else "upper")
             for n in case["defs"]}
    for h in sorted(heads):
        out.append("defname-head:" + h)
    s = json.dumps(case["schema"]) + json.dumps(case["defs"])
    for kw in ("pattern", "enum", "default", "description", "$ref", "allOf", "anyOf", "oneOf", "not", "items",
               "additionalItems", "uniqueItems", "minItems", "multiplesOf", "exclusiveMaximum"):
        if f'"{kw}"' in s:
            out.append("kw:" + kw)
    if model and "out" in model:
        o = model["out"]
        out.append("fragment:" + ("in" if o.get("inFragment") else "out"))
        out.append("recog-model:" + str(o.get("recog")))
        if o.get("text") is not None and "code_canon" in impl:
            out.append("text:" + ("equal" if o["text"] == impl["code_canon"] else "differs"))
        out.append("recog-real:" + str(o.get("recogReal")))
        for v, ok in zip(o.get("mutantVerdicts", []), impl.get("mutant_ok", [])):
            out.append(f"mutant:{v}/cpython-{'ok' if ok else 'fails'}")
        if o.get("nameIssue"):
            out.append("name-not-identifier")
        fv = [v for v in o.get("fieldVerdicts", []) if v is not None]
        out.append("exactness-model-values:%d" % min(40, 10 * (len(fv) // 10)))
        out.append("theorem-side-conditions:" + ("hold" if o.get("srcOk") and o.get("oracleOk") and o.get("nestOk")
                                                   else "excluded"))
        for u in sorted(set(o.get("unfaithful", []))):
            out.append("unfaithful:" + u)
        out.append("hostile-sites:%d" % min(3, len([x for x in o.get("sites", []) if re.search(r"['\"\\\n]", x["source"][1:-1])])))
    if "docs" in impl:
        out.append("docs:%d" % min(50, 10 * (impl["docs"].get("n", 0) // 10)))
    return out


def nontrivial(case):
    s = json.dumps(case["schema"])
    return len(s) > 120 or any(k in s for k in ("pattern", "enum", "default", "$ref", "description"))


def describe(case, impl, model):
    return {"schema": case["schema"], "defs": case["defs"], "api": case.get("api"),
            "code": (impl.get("code") or "")[:600], "phase": impl.get("phase"),
            "back": impl.get("back"), "model_phase": (model or {}).get("phase"),
            "docs": {k: v for k, v in impl.get("docs", {}).items() if k != "mismatches"}}
