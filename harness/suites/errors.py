"""
Suite `errors` (C18): flat classes (fields are scalars or collections of scalars), argument sets with
a chosen subset of fields made invalid in several ways, run through the real constructor and the
real `Deserializer` under both settings of `Structure.set_fail_fast`, and through the Lean model
(`Sem/Errors.lean`: sites / message heads / the three regexes / the helper's control flow).

Here message TEXT is compared: the model's class prefix, path and shape against `str(exception)`,
and the model's parse of that text against `standard_readable_error_for_typedpy_exception`.
"""
import collections
import json
import re

from typedpy import Structure, Deserializer, deserialize_structure
from typedpy.errors import standard_readable_error_for_typedpy_exception, ErrorInfo

from .. import dump, gen
from . import construct as C

FLAT_SCALARS = ["integer", "number", "float", "string", "boolean", "enumLit", "enumCls"]
FLAT_KINDS = FLAT_SCALARS + ["seqAny", "seqOf", "seqPos", "setAny", "setOf", "tupleOf", "tuplePos", "mapAny", "mapOf"]
NESTED_KINDS = FLAT_KINDS + ["struct", "inline"]
# value payloads aimed at the regexes: `;` ([^;]*), newline (.), `: `, quotes, the literal `; Got `,
# a trailing newline ($), non-ASCII, texts that are themselves JSON
PAYLOADS = ["a;b", "a\nb", "x: y", "it's", 'say "hi"', "p; Got q", "tail\n", "é;", "Got ;", "[1]", "5", "\n",
            "[\"z\"]", "a\r\nb", "; Got "]


# ------------------------------------------------------------------ generation

def scalar_payload(rng, fd):
    return rng.choice(PAYLOADS)


def invalid_value(rng, vg, fd, valid):
    """a value intended to be invalid for fd, made invalid in one of several ways"""
    k = fd["k"]
    way = rng.choice(["confusion", "boundary", "corrupt", "payload", "payload", "elem-bound"])
    if way == "elem-bound":
        # an element / key / value just outside a bound of its item declaration (ints and floats)
        its = [d for d in item_decls(fd) if out_of_bound(vg, d)]
        if its and isinstance(valid, dict):
            it = rng.choice(its)
            bad = rng.choice(out_of_bound(vg, it))[1]
            for tag in ("l", "t", "q", "s", "fs"):
                if tag in valid:
                    xs = list(valid[tag])
                    if k in ("seqPos", "tuplePos"):
                        idx = [i for i, d in enumerate(fd["items"]) if d is it]
                        if idx and idx[0] < len(xs):
                            xs[idx[0]] = bad
                        else:
                            xs.append(bad)
                    elif xs:
                        xs[rng.randrange(len(xs))] = bad
                    else:
                        xs = [bad]
                    return "elem-bound", {tag: xs}
            if "m" in valid:
                kvs = [list(kv) for kv in valid["m"]] or [["k1", 1]]
                i = rng.randrange(len(kvs))
                kvs[i][0 if it is fd.get("key") else 1] = bad
                return "elem-bound", {"m": kvs}
        way = "boundary"
    if way == "boundary":
        b = vg.boundary(fd)
        if b:
            return "boundary", rng.choice(b)
        way = "confusion"
    if way == "corrupt" and valid is not gen.NOVALUE and isinstance(valid, dict):
        return "corrupt", vg.corrupt(valid)
    if way == "payload":
        p = rng.choice(PAYLOADS)
        if k == "string":
            # a string value carrying the payload, long enough to break a maxLength / pattern
            return "payload", p * rng.choice([1, 1, 3])
        if isinstance(valid, dict):
            for tag in ("l", "t", "q", "s", "fs"):
                if tag in valid and valid[tag]:
                    xs = list(valid[tag])
                    # sometimes an ill-typed element that is also unhashable (list / dict)
                    xs[rng.randrange(len(xs))] = p if rng.random() < 0.75 else rng.choice([{"l": [1]}, {"m": []}, {"l": []}])
                    return "payload-elem", {tag: xs}
            if "m" in valid and valid["m"]:
                kvs = [list(kv) for kv in valid["m"]]
                i = rng.randrange(len(kvs))
                kvs[i][rng.randrange(2)] = p
                return "payload-entry", {"m": kvs}
        return "payload", p
    return "confusion", rng.choice(vg.confusion())


def subsets(rng, names, tier):
    n = len(names)
    if n <= 3:
        out = [[names[i] for i in range(n) if m >> i & 1] for m in range(1, 2 ** n)]
    else:
        out = [[x] for x in names] + [list(names)]
        for _ in range(6 if tier == "quick" else 12):
            out.append(sorted(rng.sample(names, rng.randint(2, n - 1))))
    return out


def gen_flat(rng, tier, n_classes):
    cases = []
    for ci in range(n_classes):
        dg = gen.DeclGen(rng, max_depth=1, allow=FLAT_KINDS, p_constraint=0.45)
        vg = gen.ValGen(rng)
        cls = dg.class_decl(0, n_fields=rng.randint(1, 5))
        cls["name"] = f"E{ci}"
        base = {}
        for name, fd in cls["fields"]:
            v = vg.valid(fd)
            if v is gen.NOVALUE:
                cls["required"] = [r for r in cls["required"] if r != name]
            else:
                base[name] = v
        names = [n for n, _ in cls["fields"] if n in base]
        if not names:
            continue
        decl_of = dict((n, fd) for n, fd in cls["fields"])
        variants = 1 if tier == "quick" else 2
        for sub in subsets(rng, names, tier):
            for _ in range(variants):
                kw = dict(base)
                ways = []
                for nm in sub:
                    way, v = invalid_value(rng, vg, decl_of[nm], base[nm])
                    kw[nm] = v
                    ways.append(way)
                # optional valid fields are sometimes left out
                kwl = [[k, v] for k, v in kw.items() if k in sub or k in cls["required"] or rng.random() < 0.7]
                rng.shuffle(kwl)
                entry = rng.choice(["Deserializer", "deserialize_structure"])
                # sometimes the class has been used before (a successful construction leaves names in
                # the inner Field instances), and equal inner declarations are one shared instance
                pre = [{"op": "construct", "kw": [[k, v] for k, v in base.items()]}] if rng.random() < 0.3 else []
                share = [names] if rng.random() < 0.3 else []
                for mode in ("construct", "deser"):
                    for ff in (True, False):
                        cases.append({"suite": "errors", "cls": cls, "kw": kwl, "mode": mode, "ff": ff, "entry": entry,
                                      "pre": pre, "share": share,
                                      "sub": sub, "ways": ways + (["history"] if pre else []),
                                      "re": gen.re_table(cls, kwl, [[k, v] for k, v in base.items()])})
    return cases


def item_decls(fd):
    """the item / key / value declarations of a flat collection declaration"""
    out = []
    if isinstance(fd.get("item"), dict):
        out.append(fd["item"])
    out += [x for x in fd.get("items", []) if isinstance(x, dict)]
    out += [fd[k] for k in ("key", "val") if isinstance(fd.get(k), dict)]
    return out


def out_of_bound(vg, fd):
    """boundary neighbours of fd's bounds that (by the steering predicate) violate them: numbers in
    int AND float spelling, strings just beyond a length bound"""
    k = fd["k"]
    out = []
    if k in ("integer", "number", "float"):
        for x in vg.num_candidates(fd):
            if not vg.guess_num_ok(fd, x):
                if x.denominator == 1:
                    out.append(("int", int(x)))
                if k != "integer" and float(x) == x:
                    out.append(("float", gen.fl(x)))
    elif k == "string":
        for sv in vg.boundary(fd):
            if isinstance(sv, str) and not vg.guess_str_ok(fd, sv):
                out.append(("str", sv))
    return out


def put_in_container(rng, vg, cont, item, bad):
    """a value for container declaration `cont` (items = item) holding `bad` among valid elements"""
    ok = vg.valid(item)
    pads = [] if ok is gen.NOVALUE else [ok]
    k = cont["k"]
    if k == "seqOf":
        xs = pads + [bad]
        rng.shuffle(xs)
        return {"q" if cont.get("seq") == "deque" else "l": xs}
    if k == "setOf":
        return {"s": gen.dedup_wire(pads + [bad])}
    if k == "tupleOf":
        return {"t": pads + [bad]}
    if k == "tuplePos":
        return {"t": ["ab", bad]}
    if k == "seqPos":
        return {"l": [bad, 1]}
    if k == "mapOf":
        return {"m": [["k1", bad]]}
    return bad


def gen_directed(rng, tier):
    """directed stream: every bounded scalar kind (numbers in int and float spelling, strings), bare and
    as the element of every collection kind, violated alone and together with a second / third
    invalid field, through the constructor and both deserialization entry points, fail-fast on/off.
    Region: which checks run in which phase of deserialization, per field kind and value spelling."""
    cases = []
    vg = gen.ValGen(rng)
    reps = 1 if tier == "quick" else 4
    ci = 0
    for _ in range(reps):
        for kind in ("float", "float", "number", "integer", "string"):
            dg = gen.DeclGen(rng, max_depth=1, p_constraint=0.8)
            item = dg.scalar(kind)
            bads = out_of_bound(vg, item)
            if not bads:
                continue
            conts = [None, {"k": "seqOf"}, {"k": "seqOf", "seq": "deque"}, {"k": "setOf"}, {"k": "tupleOf"},
                     {"k": "tuplePos"}, {"k": "seqPos"}, {"k": "mapOf"}]
            for cont in conts:
                if cont is None:
                    fd = item
                elif cont["k"] in ("seqOf", "setOf", "tupleOf"):
                    fd = dict(cont, item=item)
                elif cont["k"] == "tuplePos":
                    fd = dict(cont, items=[{"k": "string"}, item])
                elif cont["k"] == "seqPos":
                    fd = dict(cont, items=[item, {"k": "integer"}])
                else:
                    fd = dict(cont, key={"k": "string"}, val=item)
                if cont is not None and cont["k"] == "setOf" and kind == "string" and False:
                    continue
                ci += 1
                cls = {"k": "struct", "name": f"D{ci}", "required": sorted(rng.sample(["x", "n"], rng.randint(0, 2))),
                       "addl": rng.random() < 0.5,
                       "fields": [["x", fd], ["n", {"k": "integer"}], ["t", {"k": "string", "maxLength": 3}]]}
                # one representative per spelling, chosen by the rng
                by_sp = {}
                for sp, b in bads:
                    by_sp.setdefault(sp, []).append(b)
                for sp, pool in sorted(by_sp.items()):
                    bad = put_in_container(rng, vg, cont or {"k": "bare"}, item, rng.choice(pool))
                    for others in ([], [["n", "x"]], [["n", rng.choice([None, "q", {"l": []}])], ["t", "toolong"]], [["n", 3], ["t", "ok"]]):
                        kwl = [["x", bad]] + others
                        for r in cls["required"]:
                            if r not in [k for k, _ in kwl]:
                                kwl.append([r, 1])
                        sub = ["x"] + [k for k, v in others if not (k == "n" and v == 3) and not (k == "t" and v == "ok")]
                        for mode, entry in (("construct", None), ("deser", "Deserializer"), ("deser", "deserialize_structure")):
                            for ff in (True, False):
                                cases.append({"suite": "errors", "cls": cls, "kw": kwl, "mode": mode, "ff": ff, "entry": entry,
                                              "sub": sub, "ways": ["directed:" + sp + ":" + (cont["k"] if cont else "bare")],
                                              "re": gen.re_table(cls, kwl)})
    return cases


def corrupt_doc(rng, vg, w, depth=0):
    """single-point corruption somewhere inside a (nested) wire value"""
    if isinstance(w, dict):
        if "o" in w and w["o"][1] and rng.random() < 0.85:
            kw = [list(kv) for kv in w["o"][1]]
            i = rng.randrange(len(kw))
            kw[i][1] = corrupt_doc(rng, vg, kw[i][1], depth + 1)
            return {"o": [w["o"][0], kw]}
        for tag in ("l", "t", "q"):
            if tag in w and w[tag] and rng.random() < 0.8:
                xs = list(w[tag])
                i = rng.randrange(len(xs))
                xs[i] = corrupt_doc(rng, vg, xs[i], depth + 1)
                return {tag: xs}
        if "m" in w and w["m"] and rng.random() < 0.8:
            kvs = [list(kv) for kv in w["m"]]
            i = rng.randrange(len(kvs))
            kvs[i][1] = corrupt_doc(rng, vg, kvs[i][1], depth + 1)
            return {"m": kvs}
    r = rng.random()
    if r < 0.4:
        return rng.choice(PAYLOADS)
    return rng.choice([None, 0, -3, "", "a", {"l": []}, {"l": [1, 2]}, {"m": []}, {"m": [["a", 1]]}, True,
                       gen.fl(5) if False else 7])


def gen_nested(rng, tier, n_classes):
    """nested structures: only 'the helpers return without raising' and the parse correspondence"""
    cases = []
    for ci in range(n_classes):
        dg = gen.DeclGen(rng, max_depth=rng.choice([2, 3]), allow=NESTED_KINDS, p_constraint=0.4)
        vg = gen.ValGen(rng)
        cls = dg.class_decl(0, n_fields=rng.randint(1, 3))
        cls["name"] = f"N{ci}"
        C.fix_accepts(cls)
        if '"struct"' not in json.dumps(cls["fields"]):
            continue
        for _ in range(4):
            kw = vg.valid_kw(cls)
            if kw is gen.NOVALUE or not kw:
                continue
            kw = [[k, v] for k, v in kw if not k.startswith("extra_")]
            for _ in range(3):
                bad = [list(kv) for kv in kw]
                for _ in range(rng.choice([1, 1, 2])):
                    if not bad:
                        break
                    i = rng.randrange(len(bad))
                    bad[i][1] = corrupt_doc(rng, vg, bad[i][1])
                for ff in (True, False):
                    cases.append({"suite": "errors", "cls": cls, "kw": bad, "mode": "nested", "ff": ff,
                                  "sub": [], "ways": ["nested"], "re": gen.re_table(cls, bad)})
    return cases


def fixed_cases():
    """hand-written cases that pin every known finding and observation"""
    out = []

    def flat(name, fields, kw, required=None):
        cls = {"k": "struct", "name": name, "required": sorted(required or []), "addl": True,
               "fields": [[n, d] for n, d in fields]}
        for mode in ("construct", "deser"):
            for ff in (True, False):
                out.append({"suite": "errors", "cls": cls, "kw": kw, "mode": mode, "ff": ff, "sub": [k for k, _ in kw],
                            "ways": ["fixed"], "re": gen.re_table(cls, kw)})

    flat("Foo", [["i", {"k": "integer"}]], [["i", "a\nb"]])
    flat("Foo", [["s", {"k": "string", "pattern": "^a\nb"}]], [["s", "x"]])
    flat("Foo", [["s", {"k": "string", "maxLength": 2}]], [["s", "a\nbc"]])
    flat("Foo", [["s", {"k": "string", "maxLength": 2}]], [["s", "a;bc"]])
    flat("Foo", [["p", {"k": "number", "sign": "pos"}]], [["p", "a"]])
    flat("Foo", [["b", {"k": "boolean"}]], [["b", {"l": [1]}]])
    flat("Foo", [["e", {"k": "enumCls", "cls": "Color", "names": ["RED", "GREEN", "BLUE"]}]], [["e", {"l": [1]}]])
    flat("Foo", [["e", {"k": "enumCls", "cls": "Color", "names": ["RED", "GREEN", "BLUE"]}]], [["e", "PINK"]])
    flat("Foo", [["é", {"k": "integer"}]], [["é", "x"]])
    flat("Foo", [["x\u0301", {"k": "integer"}]], [["x\u0301", "a"]])   # identifier with a combining mark
    flat("Foo", [["\u0928\u093e\u092e", {"k": "integer"}]], [["\u0928\u093e\u092e", "a"]])   # Hindi 'name': U+093E is a vowel sign (Mc)
    flat("Foo", [["\u0e0a\u0e37\u0e48\u0e2d", {"k": "string", "maxLength": 1}]], [["\u0e0a\u0e37\u0e48\u0e2d", "ab"]])   # Thai 'name'
    flat("Foo", [["i", {"k": "integer", "min": [3, 1]}]], [["i", 0]])
    flat("Foo", [["ap", {"k": "seqPos", "items": [{"k": "integer"}, {"k": "string"}]}]], [["ap", {"l": [1]}]])
    flat("Foo", [["t", {"k": "tuplePos", "items": [{"k": "integer"}, {"k": "string"}]}]], [["t", {"t": [1]}]])
    flat("Foo", [["m", {"k": "mapOf", "key": {"k": "string"}, "val": {"k": "integer"}}]], [["m", {"m": [["a", "x"]]}]])
    flat("Foo", [["a", {"k": "seqOf", "item": {"k": "integer"}}]], [["a", {"l": [1, "x"]}]])
    flat("Foo", [["st", {"k": "setOf", "item": {"k": "integer"}}]], [["st", {"s": ["x"]}]])
    flat("Foo", [["i", {"k": "integer", "min": [3, 1]}], ["s", {"k": "string", "maxLength": 2}],
                 ["a", {"k": "seqOf", "item": {"k": "integer"}}]],
         [["i", 1], ["s", "abc"], ["a", {"l": [1, 2, "x"]}]], required=["i"])
    return out


def coll_of(kind, item):
    if kind == "mapVal":
        return {"k": "mapOf", "key": {"k": "string"}, "val": item}
    if kind == "mapKey":
        return {"k": "mapOf", "key": item, "val": {"k": "integer"}}
    if kind == "deque":
        return {"k": "seqOf", "seq": "deque", "item": item}
    return {"k": kind, "item": item}


def coll_value(kind, elems):
    if kind == "mapVal":
        return {"m": [[f"k{i}", x] for i, x in enumerate(elems)]}
    if kind == "mapKey":
        return {"m": [[x, i] for i, x in enumerate(elems)]}
    return {{"seqOf": "l", "deque": "q", "setOf": "s", "tupleOf": "t"}[kind]: list(elems)}


def gen_shared(rng, tier):
    """directed stream: ONE item Field instance shared by two or three collection fields (a module-level
    `Pct = Integer(maximum=100)` used in several declarations, typedpy's own EmailAddress in `to` and `cc`),
    with and without an earlier successful construction / deserialization in the same process, then a bad
    element (out of bounds, ill-typed, unhashable) in only one of the fields, or in two.
    Region: the scratch `_name` of shared / previously used inner Field instances and what error paths are
    built from it."""
    cases = []
    vg = gen.ValGen(rng)
    kinds = ["seqOf", "deque", "setOf", "tupleOf", "mapVal", "mapKey"]
    reps = 2 if tier == "quick" else 10
    ci = 0
    for _ in range(reps):
        for ik in ("integer", "float", "string", "enumCls", "boolean", "number"):
            dg = gen.DeclGen(rng, max_depth=1, p_constraint=0.7)
            item = dg.scalar(ik)
            goods = [g for g in (vg.valid(item) for _ in range(6)) if g is not gen.NOVALUE]
            goods = gen.dedup_wire(goods)
            if not goods:
                continue
            hashable_goods = [g for g in goods if not isinstance(g, dict) or "f" in g or "e" in g]
            bads = [b for _, b in out_of_bound(vg, item)][:3] + [rng.choice(PAYLOADS), None, {"l": [1]}, {"m": []}]
            ci += 1
            n = rng.choice([2, 2, 3])
            names = rng.sample(["to", "cc", "a", "b2", "m_1"], n)
            fkinds = [rng.choice(kinds) for _ in names]
            if ik in ("float", "boolean") :
                fkinds = [k if k != "mapKey" else "mapVal" for k in fkinds]
            cls = {"k": "struct", "name": f"S{ci}", "required": [], "addl": rng.random() < 0.5,
                   "fields": [[nm, coll_of(k, item)] for nm, k in zip(names, fkinds)] + [["z", {"k": "integer"}]]}
            valid_kw = [[nm, coll_value(k, goods[:2] if k not in ("mapKey", "setOf") else hashable_goods[:2])]
                        for nm, k in zip(names, fkinds)]
            histories = [[], [{"op": "construct", "kw": valid_kw}],
                         [{"op": "construct", "kw": list(reversed(valid_kw))}],
                         [{"op": "deser", "kw": valid_kw}, {"op": "construct", "kw": valid_kw[:1]}]]
            for pre in histories:
                for share in ([names], []):
                    for target in range(len(names)):
                        bad = rng.choice(bads)
                        k = fkinds[target]
                        if k == "mapKey" and (bad is None or isinstance(bad, dict)):
                            bad = rng.choice(PAYLOADS)
                        kwl = [list(x) for x in valid_kw]
                        kwl[target][1] = coll_value(k, [bad] + goods[:1]) if rng.random() < 0.5 else coll_value(k, goods[:1] + [bad])
                        sub = [names[target]]
                        if rng.random() < 0.3:
                            kwl.append(["z", "x"])
                            sub.append("z")
                        if rng.random() < 0.3:
                            kwl = [x for x in kwl if x[0] == names[target] or rng.random() < 0.6]
                        for mode, entry in (("deser", "Deserializer"), ("deser", "deserialize_structure"), ("construct", None)):
                            for ff in (True, False):
                                cases.append({"suite": "errors", "cls": cls, "kw": kwl, "mode": mode, "ff": ff, "entry": entry,
                                              "share": share, "pre": pre, "sub": sub,
                                              "ways": ["shared:" + ("1" if share else "0") + ":pre" + str(len(pre)) + ":" + k],
                                              "re": gen.re_table(cls, kwl, valid_kw)})
    return cases


MAPPED_NAMES = ["first_tags", "top_score", "my_level", "key_map", "opt_val", "old_ids"]
MAPPER_MODES = ["class-ser", "class-deser", "lower", "camel", "override", "camelflag", "none"]


def other_settings(rng, mode, names, keymap, valid_kw):
    """histories for a judged deserialization: the same class object deserialized earlier (valid document)
    under the OTHER setting of each flag — camel_case_convert, mapper override, keep_undefined, fail-fast"""
    cam = sorted((n, camel(n)) for n in names)
    ovr = sorted((n, "prev_" + n) for n in names)
    base_map = sorted(keymap.items()) if mode not in ("override", "camelflag", "none") else []
    pres = [[]]
    if mode == "camelflag":
        pres.append([{"op": "deser", "kw": valid_kw, "setting": {"camel": False, "map": []}}])
        pres.append([{"op": "deser", "kw": valid_kw, "setting": {"override": True, "map": ovr}}])
    elif mode == "override":
        pres.append([{"op": "deser", "kw": valid_kw, "setting": {"override": False, "map": []}}])
        pres.append([{"op": "deser", "kw": valid_kw, "setting": {"camel": True, "map": cam}}])
    elif mode == "none":
        pres.append([{"op": "deser", "kw": valid_kw, "setting": {"camel": True, "map": cam}}])
        pres.append([{"op": "deser", "kw": valid_kw, "setting": {"override": True, "map": ovr}}])
    # flags that do not change the keys: the other fail-fast mode, the other keep_undefined
    pres.append([{"op": "deser", "kw": valid_kw,
                  "setting": {"map": base_map, "camel": mode == "camelflag", "override": mode == "override",
                              "ff": rng.random() < 0.5, "keep_undefined": rng.choice([True, False])}}])
    if mode in ("override", "camelflag"):
        pres[-1][0]["setting"]["map"] = sorted(keymap.items())
    return pres


def gen_mapped(rng, tier):
    """directed stream: key-renaming mappers (class-level dict `_serialization_mapper` / `_deserialization_mapper`,
    TO_LOWERCASE, TO_CAMELCASE, `Deserializer(mapper=…)` / `deserialize_structure(mapper=…)`, camel_case_convert) on
    classes whose fields are collections, Enum, scalars (flat, modelled) or AnyOf / nested structures (oracle only);
    two-word snake_case field names, so that every document key differs from every field name; the document is
    written under the document keys; invalid: one or two fields.
    Region: which NAME the error path is built from when field name and document key differ."""
    cases = []
    reps = 3 if tier == "quick" else 14
    ci = 0
    for _ in range(reps):
        for mode in MAPPER_MODES:
            for nested in (False, True):
                ci += 1
                kinds = NESTED_KINDS + ["anyOf"] if nested else FLAT_KINDS
                dg = gen.DeclGen(rng, max_depth=2 if nested else 1, allow=kinds, p_constraint=0.45)
                vg = gen.ValGen(rng)
                n = rng.randint(2, 4)
                names = rng.sample(MAPPED_NAMES, n)
                cls = dg.class_decl(0, n_fields=n)
                cls["fields"] = [[nm, fd] for nm, (_, fd) in zip(names, cls["fields"])]
                if not nested:
                    # make sure collections / Enum dominate (scalars use their own _name anyway)
                    for i in range(len(cls["fields"])):
                        if rng.random() < 0.6:
                            dg2 = gen.DeclGen(rng, max_depth=1, p_constraint=0.45,
                                              allow=["seqOf", "setOf", "tupleOf", "mapOf", "seqPos", "tuplePos", "enumCls", "enumLit",
                                                     "seqAny", "mapAny", "setAny"] + FLAT_SCALARS)
                            cls["fields"][i][1] = dg2.decl(0)
                cls["name"] = f"M{ci}"
                cls["required"] = sorted(nm for nm in names if rng.random() < 0.4)
                cls["addl"] = True
                cls.pop("ignoreNone", None)
                C.fix_accepts(cls)
                base = {}
                for nm, fd in cls["fields"]:
                    v = vg.valid(fd)
                    if v is gen.NOVALUE:
                        cls["required"] = [r for r in cls["required"] if r != nm]
                    else:
                        base[nm] = v
                if not base:
                    continue
                keymap = mapper_keys(mode, names, rng)
                mp = {"mode": mode, "map": sorted(keymap.items())}
                valid_kw = [[k, v] for k, v in base.items()]
                decl_of = dict((nm, fd) for nm, fd in cls["fields"])
                good = list(base)
                for sub in [[x] for x in good] + ([rng.sample(good, 2)] if len(good) > 1 else []):
                    kw = dict(base)
                    ways = []
                    for nm in sub:
                        if nested:
                            kw[nm] = corrupt_doc(rng, vg, base[nm])
                            ways.append("mapped-nested")
                        else:
                            way, v = invalid_value(rng, vg, decl_of[nm], base[nm])
                            kw[nm] = v
                            ways.append(way)
                    kwl = [[k, v] for k, v in kw.items()]
                    pres = other_settings(rng, mode, names, keymap, valid_kw)
                    for pi, pre in enumerate(pres):
                        if pi and nested and rng.random() < 0.5:
                            continue
                        entry = rng.choice(["Deserializer", "deserialize_structure"]) if pi else None
                        for entry in ([entry] if entry else ["Deserializer", "deserialize_structure"]):
                            for ff in (True, False):
                                cases.append({"suite": "errors", "cls": cls, "kw": kwl, "mode": "nested" if nested else "deser",
                                              "ff": ff, "entry": entry, "mapper": mp, "valid_kw": valid_kw, "sub": sub, "pre": pre,
                                              "ways": ways + ["mapper:" + mode] + (["flag-history"] if pre else []),
                                              "re": gen.re_table(cls, kwl, valid_kw)})
    return cases


DEEP_KINDS = FLAT_KINDS + ["struct", "inline"]
WRAPPER_KINDS = ["anyOf", "oneOf", "allOf", "notF"]
HASHABLE_BAD = [None, 0, -3, "", "a", True, 7]


def container_depth(d):
    """nesting depth of collection declarations (a scalar / class reference is 0)"""
    subs = ([d["item"]] if isinstance(d.get("item"), dict) else []) + list(d.get("items", [])) + \
           [d[k] for k in ("key", "val") if isinstance(d.get(k), dict)]
    if d["k"] in COLLECTION_KINDS:
        return 1 + max([container_depth(x) for x in subs] or [0])
    return 0


def inline_under_map(d, under=False):
    """an inline StructureReference occurs (at any depth) inside a collection.  An inline structure is deserialized
    with the mapper handed down to it: the aggregated (identity) mapper reaches it as a direct field (and through
    Array[inline]), where a null field counts as an ABSENT key; deserialize_map passes no mapper on and deeper
    collections have no `_mapper` entry, and there a null field is deserialized as a VALUE.  The `deser` model of
    Sem/Deser.lean (C05) treats null as absent everywhere, so inline structures inside collections are a
    different region - kept out of this stream (class references compute their own mapper: uniform)"""
    if d["k"] == "struct":
        if d.get("inline") and under:
            return True
        return any(inline_under_map(f, under) for _, f in d["fields"])
    subs = ([d["item"]] if isinstance(d.get("item"), dict) else []) + [x for x in d.get("items", []) if isinstance(x, dict)] + \
           [d[k] for k in ("key", "val") if isinstance(d.get(k), dict)]
    return any(inline_under_map(x, True) for x in subs)


def corrupt_along(rng, vg, d, w, mode, hashable=False, depth=0):
    """walk the value `w` along its declaration `d` down to ONE position and make it invalid there:
    a boundary neighbour of the declaration at that position, a payload text, another type.  In
    `construct` mode a class-reference position is replaced as a whole (its instance is built - and
    validated - before the outer constructor runs); in `deser` mode the walk continues inside it.
    Returns the new wire value."""
    k = d["k"]

    def leaf():
        r = rng.random()
        b = vg.boundary(d) if k not in ("struct",) else []
        if b and r < 0.45:
            return rng.choice(b)
        if r < 0.7:
            return rng.choice(PAYLOADS)
        pool = list(HASHABLE_BAD) + ([] if hashable else [{"l": []}, {"l": [1, 2]}, {"m": []}, {"m": [["a", 1]]}])
        return rng.choice(pool)

    if not isinstance(w, dict) or depth > 6 or rng.random() < 0.12:
        return leaf()
    if k in ("seqOf", "tupleOf", "setOf"):
        tag = next((t for t in ("l", "q", "t", "s", "fs") if t in w), None)
        if tag is None:
            return leaf()
        xs = list(w[tag])
        if not xs:
            x0 = vg.valid(d["item"])
            if x0 is gen.NOVALUE:
                return leaf()
            xs = [x0]
        i = rng.randrange(len(xs))
        xs[i] = corrupt_along(rng, vg, d["item"], xs[i], mode, hashable or k == "setOf", depth + 1)
        return {tag: xs}
    if k in ("seqPos", "tuplePos"):
        tag = next((t for t in ("l", "q", "t") if t in w), None)
        if tag is None or not w[tag]:
            return leaf()
        xs = list(w[tag])
        i = rng.randrange(min(len(xs), len(d["items"])))
        xs[i] = corrupt_along(rng, vg, d["items"][i], xs[i], mode, hashable, depth + 1)
        return {tag: xs}
    if k == "mapOf" and "m" in w:
        kvs = [list(kv) for kv in w["m"]]
        if not kvs:
            k0, v0 = vg.valid(d["key"]), vg.valid(d["val"])
            if k0 is gen.NOVALUE or v0 is gen.NOVALUE:
                return leaf()
            kvs = [[k0, v0]]
        i = rng.randrange(len(kvs))
        if rng.random() < 0.3:
            kvs[i][0] = corrupt_along(rng, vg, d["key"], kvs[i][0], mode, True, depth + 1)
        else:
            kvs[i][1] = corrupt_along(rng, vg, d["val"], kvs[i][1], mode, hashable, depth + 1)
        return {"m": kvs}
    if k == "struct" and d.get("inline") and "m" in w and w["m"]:
        # an inline StructureReference takes a dict in the constructor too
        kw = [list(kv) for kv in w["m"]]
        fields = dict((n, f) for n, f in d["fields"])
        idx = [i for i, kv in enumerate(kw) if kv[0] in fields]
        if idx:
            i = rng.choice(idx)
            kw[i][1] = corrupt_along(rng, vg, fields[kw[i][0]], kw[i][1], mode, hashable, depth + 1)
            return {"m": kw}
    if k == "struct" and "o" in w and mode != "construct" and w["o"][1]:
        kw = [list(kv) for kv in w["o"][1]]
        fields = dict((n, f) for n, f in d["fields"])
        idx = [i for i, kv in enumerate(kw) if kv[0] in fields]
        if idx:
            i = rng.choice(idx)
            kw[i][1] = corrupt_along(rng, vg, fields[kw[i][0]], kw[i][1], mode, hashable, depth + 1)
            return {"o": [w["o"][0], kw]}
    return leaf()


def gen_deep(rng, tier, n_classes):
    """directed stream for the path model: classes whose fields are collections nested 2..3 levels deep
    (Array / Deque / Tuple / Set / Map, homogeneous and positional, in every combination the type-directed
    generator produces) over scalars and class references; a valid argument set, then ONE position at a
    random depth of one or two fields made invalid (boundary neighbour of the declaration AT that position,
    payload text, other type, wrong container); through the constructor, fail-fast on/off.
    Region: the suffix chain `_<i>` / `_key` / `_value` per nesting level that names the rejecting position."""
    cases = []
    made = 0
    tries = 0
    while made < n_classes and tries < n_classes * 30:
        tries += 1
        dg = gen.DeclGen(rng, max_depth=3, allow=DEEP_KINDS, p_constraint=0.45)
        vg = gen.ValGen(rng)
        fields = []
        for nm in rng.sample(["aa", "b_1", "deep", "m2", "tt"], rng.randint(1, 3)):
            r = rng.random()
            want_struct = r < 0.3
            want_coll_of_struct = 0.3 <= r < 0.45
            want_wrapper = 0.45 <= r < 0.6
            for _ in range(30):
                # a collection nested >= 2 levels, a (top-level) nested structure (class reference or inline), or a
                # collection of nested structures
                if want_struct:
                    fd = dg.class_decl(1, n_fields=rng.randint(1, 3), inline=rng.random() < 0.35)
                elif want_coll_of_struct:
                    fd = coll_of(rng.choice(["seqOf", "deque", "tupleOf", "mapVal"]),
                                 dg.class_decl(2, n_fields=rng.randint(1, 3), inline=rng.random() < 0.25))
                elif want_wrapper:
                    # AnyOf / OneOf / AllOf / NotField over scalars and collections, as a field or as the item of a collection
                    dgw = gen.DeclGen(rng, max_depth=2, allow=FLAT_KINDS + WRAPPER_KINDS, p_constraint=0.5)
                    fd = {"k": rng.choice(WRAPPER_KINDS), "fields": [dgw.decl(1) for _ in range(rng.randint(1, 3))]}
                    if rng.random() < 0.4:
                        fd = coll_of(rng.choice(["seqOf", "deque", "tupleOf", "mapVal"]), fd)
                else:
                    fd = dg.decl(0)
                if (want_struct or want_coll_of_struct or want_wrapper or container_depth(fd) >= 2) and not inline_under_map(fd):
                    fields.append([nm, fd])
                    break
        if not fields:
            continue
        cls = {"k": "struct", "name": f"P{made}", "required": sorted(n for n, _ in fields if rng.random() < 0.4),
               "addl": rng.random() < 0.5, "fields": fields}
        C.fix_accepts(cls)
        base = {}
        for nm, fd in fields:
            v = vg.valid(fd)
            if v is gen.NOVALUE:
                cls["required"] = [r for r in cls["required"] if r != nm]
            else:
                base[nm] = v
        if not base:
            continue
        made += 1
        names = list(base)
        decl_of = dict(fields)
        subs_ = [[x] for x in names] + ([rng.sample(names, 2)] if len(names) > 1 else [])
        for sub in subs_:
            for _ in range(2 if tier == "quick" else 4):
                for mode in ("construct", "deser"):
                    kw = dict(base)
                    for nm in sub:
                        kw[nm] = corrupt_along(rng, vg, decl_of[nm], base[nm], mode)
                    kwl = [[k, v] for k, v in kw.items()]
                    rng.shuffle(kwl)
                    entry = rng.choice(["Deserializer", "deserialize_structure"])
                    for ff in (True, False):
                        cases.append({"suite": "errors", "cls": cls, "kw": kwl, "mode": mode, "ff": ff,
                                      "entry": entry, "sub": sub, "ways": ["deep:" + mode],
                                      "re": gen.re_table(cls, kwl, [[k, v] for k, v in base.items()])})
    return cases


VIA_KINDS = ["plain", "partial", "allrequired", "extend", "omit", "pick", "omit-method", "pick-method", "subclass", "local"]
# class names a user may choose (type() accepts any string): word-only names keep the field; names with a
# character outside [\\w.] are the region of the open finding field-lost:non-word-name
ODD_CLASS_NAMES = ["Foo_1", "F9", "_Priv", "\u00dcn\u00ef", "Foo.Bar", "x\u0301Cls", "\u0928\u093e\u092e", "My Class", "a-b", "Gen[int]"]


def gen_names(rng, tier):
    """directed stream: the CLASS NAME is the first component of every message head.  Flat classes used
    directly and through every class-deriving construct of typedpy - Partial / AllFieldsRequired / Extend /
    Omit / Pick, without and with an explicit class name, a subclass of a derived class, a class whose
    __qualname__ differs from its __name__ (local class) - and classes created with unusual names (digits,
    underscores, dots, non-ASCII letters; a combining mark, a space, '-', '[': the finding's region);
    one or two fields invalid; constructor and both deserialization entry points, fail-fast on/off.
    Region: which names typedpy gives the classes it creates, and which names survive the [\\w.]+ group."""
    cases = []
    reps = 2 if tier == "quick" else 10
    ci = 0
    for _ in range(reps):
        for via in VIA_KINDS + ["name:" + n for n in ODD_CLASS_NAMES]:
            ci += 1
            dg = gen.DeclGen(rng, max_depth=1, allow=FLAT_KINDS, p_constraint=0.4)
            vg = gen.ValGen(rng)
            cls = dg.class_decl(0, n_fields=rng.randint(2, 4))
            cls["name"] = via[5:] if via.startswith("name:") else rng.choice(["Person", "Foo", "Order_2", "T"])
            cls.pop("ignoreNone", None)
            base = {}
            for name, fd in cls["fields"]:
                v = vg.valid(fd)
                if v is not gen.NOVALUE:
                    base[name] = v
            cls["fields"] = [[n, fd] for n, fd in cls["fields"] if n in base]
            cls["required"] = [r for r in cls["required"] if r in base]
            if not base:
                continue
            names = list(base)
            kind = "plain" if via.startswith("name:") else via
            v = {"kind": kind, "name": rng.choice([None, None, "Renamed", "Bar_9"]) if kind in ("partial", "allrequired", "extend", "omit", "pick", "omit-method", "pick-method") else None}
            if kind.split("-")[0] in ("omit", "pick") and len(names) > 1:
                v["keys"] = sorted(rng.sample(names, 1))
            elif kind.split("-")[0] in ("omit", "pick"):
                continue
            kept = [n for n in names if (not kind.startswith("omit") or n not in v["keys"]) and (not kind.startswith("pick") or n in v["keys"])]
            decl_of = dict((n, fd) for n, fd in cls["fields"])
            for sub in [[x] for x in kept[:2]] + ([kept[:2]] if len(kept) > 1 else []):
                kw = {n: base[n] for n in kept}
                ways = []
                for nm in sub:
                    way, bad = invalid_value(rng, vg, decl_of[nm], base[nm])
                    kw[nm] = bad
                    ways.append(way)
                kwl = [[k, x] for k, x in kw.items()]
                for mode, entry in (("construct", None), ("deser", "Deserializer"), ("deser", "deserialize_structure")):
                    for ff in (True, False):
                        cases.append({"suite": "errors", "cls": cls, "kw": kwl, "mode": mode, "ff": ff, "entry": entry,
                                      "via": v, "sub": sub, "ways": ways + ["via:" + via.split(":")[0] + ("+name" if v["name"] else "")],
                                      "re": gen.re_table(cls, kwl, [[k, x] for k, x in base.items()])})
    return cases


def derive_class(cls, via):
    """the class a user obtains from `cls` through one of typedpy's class-deriving constructs"""
    from typedpy import Partial, AllFieldsRequired, Extend, Omit, Pick
    kind, name, keys = via["kind"], via.get("name"), via.get("keys") or []
    if kind == "partial":
        return Partial[cls, name] if name else Partial[cls]
    if kind == "allrequired":
        return AllFieldsRequired[cls, name] if name else AllFieldsRequired[cls]
    if kind == "extend":
        return Extend[cls, name] if name else Extend[cls]
    if kind == "omit":
        return Omit[cls, keys, name] if name else Omit[cls, keys]
    if kind == "pick":
        return Pick[cls, keys, name] if name else Pick[cls, keys]
    if kind == "omit-method":     # the classmethods name the class themselves
        return cls.omit(*keys, class_name=name) if name else cls.omit(*keys)
    if kind == "pick-method":
        return cls.pick(*keys, class_name=name) if name else cls.pick(*keys)
    if kind == "subclass":
        return type(cls.__name__ + "Sub", (Partial[cls],), {})
    if kind == "local":
        cls.__qualname__ = "make_model.<locals>." + cls.__name__
        return cls
    return cls


def gen_cases(rng, tier):
    n = 160 if tier == "quick" else 1400
    # the deep stream draws from its own generator seeded from the case stream's rng state AFTER the
    # older streams, so that their cases stay what they were
    out = fixed_cases() + gen_directed(rng, tier) + gen_shared(rng, tier) + gen_mapped(rng, tier) + gen_flat(rng, tier, n) + gen_nested(rng, tier, 60 if tier == "quick" else 500)
    return out + gen_deep(rng, tier, 50 if tier == "quick" else 500) + gen_names(rng, tier)


# ------------------------------------------------------------------ documents and lifting

def to_doc(w, ctx):
    """wire value -> the Python document handed to Deserializer (containers as list / dict, enum
    members by name, nested instances as dicts)"""
    if w is None or isinstance(w, (bool, int, str)):
        return w
    for tag in ("l", "t", "q"):
        if tag in w:
            return [to_doc(x, ctx) for x in w[tag]]
    for tag in ("s", "fs"):
        if tag in w:
            xs = [to_doc(x, ctx) for x in w[tag]]
            try:
                return list(dict.fromkeys(xs))   # a set has no ==-duplicates (1.0 == True)
            except TypeError:
                return xs
    if "m" in w:
        out = {}
        for k, v in w["m"]:
            kk = to_doc(k, ctx)
            try:
                hash(kk)
            except TypeError:
                kk = repr(kk)
            out[kk] = to_doc(v, ctx)
        return out
    if "e" in w:
        return w["e"][1]
    if "o" in w:
        return {k: to_doc(v, ctx) for k, v in w["o"][1]}
    return dump.load_value(w, ctx)


def lift(fd, v):
    """the constructor argument a document value stands for (flat fields only): list -> the
    field's container type; everything else unchanged"""
    k = fd["k"]
    if isinstance(v, list):
        try:
            if k in ("seqAny", "seqOf", "seqPos"):
                return collections.deque(v) if fd.get("seq") == "deque" else v
            if k in ("tupleOf", "tuplePos"):
                return tuple(v)
            if k in ("setAny", "setOf"):
                return set(v)
        except TypeError:
            return v
    return v


# ------------------------------------------------------------------ real code

def info_to_json(x):
    if isinstance(x, ErrorInfo):
        d = {"field": getattr(x, "field", None), "value": getattr(x, "value", None)}
        p = x.problem
        if isinstance(p, str):
            d["problem"] = p
        else:
            d["subs"] = [info_to_json(y) for y in p]
        return d
    return {"unexpected": repr(x)[:200]}


def inner_field_objs(f):
    items = getattr(f, "items", None)
    if items is None:
        return []
    return list(items) if isinstance(items, (list, tuple)) else [items]


def scratch_name(x):
    n = getattr(x, "_name", None)
    return n if isinstance(n, str) else None


def share_inner_fields(cls, groups, ctx):
    """make the fields of every group use ONE Field instance for their equal inner declarations, as
    with a module-level `Pct = Integer(maximum=100)` used in `a: Array[Pct]` and `m: Map[String, Pct]`"""
    for g in groups:
        canon = {}
        for n in g:
            f = getattr(cls, n)
            items = getattr(f, "items", None)
            if items is None:
                continue
            objs = inner_field_objs(f)
            repl = []
            for pos, x in enumerate(objs):
                # Map keys are shared with Map keys only: one instance as key AND value of the same Map
                # is a different region (typedpy then stores the value under the key's name too)
                role = "key" if type(f).__name__ == "Map" and pos == 0 else "elem"
                key = role + json.dumps(dump.dump_field(x, ctx), sort_keys=True)
                repl.append(canon.setdefault(key, x))
            if isinstance(items, (list, tuple)):
                for i, x in enumerate(repl):
                    items[i] = x
            else:
                f.items = repl[0]


def run_history(cls, pre, ctx):
    """earlier uses of the class in the same process (fail-fast on), before the observed call"""
    out = []
    for op in pre:
        try:
            if op["op"] == "construct":
                cls(**{k: dump.load_value(v, ctx) for k, v in op["kw"]})
            elif op.get("setting") is not None:
                # an earlier deserialization of the SAME class object under another setting of the flags
                st = op["setting"]
                keymap = dict(st.get("map") or [])
                kwargs = {}
                if st.get("camel"):
                    kwargs["camel_case_convert"] = True
                if st.get("override"):
                    kwargs["mapper"] = keymap
                doc = {keymap.get(k, k): to_doc(v, ctx) for k, v in op["kw"]}
                Structure.set_fail_fast(bool(st.get("ff", True)))
                try:
                    if st.get("keep_undefined") is None:
                        Deserializer(cls, **kwargs).deserialize(doc)
                    else:
                        Deserializer(cls, **kwargs).deserialize(doc, keep_undefined=st["keep_undefined"])
                finally:
                    Structure.set_fail_fast(True)
            else:
                Deserializer(cls).deserialize({k: to_doc(v, ctx) for k, v in op["kw"]})
            out.append(op["op"] + ":ok")
        except Exception as e:  # noqa
            out.append(op["op"] + ":" + type(e).__name__)
    return out


def camel(name):
    parts = name.split("_")
    return parts[0] + "".join(x.title() for x in parts[1:])


def mapper_keys(mode, names, rng):
    """field -> document key for a key-renaming mapper of the given kind (computed here, not by typedpy)"""
    if mode in ("lower",):
        return {n: n.upper() for n in names}
    if mode in ("camel", "camelflag"):
        return {n: camel(n) for n in names}
    if mode == "none":
        return {}
    tmpl = rng.choice(["doc_{}", "{}Key", "the{}", "x{}_in"])
    return {n: tmpl.format(n) for n in names if rng.random() < 0.85}


def apply_mapper(cls, mp):
    """the class as a user would declare it with the mapper (a subclass of the same name carrying the
    mapper attribute), or the arguments that pass the mapper to the deserializer"""
    from typedpy import mappers
    mode, keymap = mp["mode"], dict(mp["map"])
    if mode == "class-ser":
        return type(cls.__name__, (cls,), {"_serialization_mapper": keymap}), {}
    if mode == "class-deser":
        return type(cls.__name__, (cls,), {"_deserialization_mapper": keymap}), {}
    if mode == "lower":
        return type(cls.__name__, (cls,), {"_serialization_mapper": mappers.TO_LOWERCASE}), {}
    if mode == "camel":
        return type(cls.__name__, (cls,), {"_serialization_mapper": mappers.TO_CAMELCASE}), {}
    if mode == "override":
        return cls, {"mapper": keymap}
    if mode == "camelflag":
        return cls, {"camel_case_convert": True}
    if mode == "none":
        return cls, {}
    raise ValueError(mode)


def mapper_sanity(cls, mp, deser_kwargs, case, ctx):
    """the mapper is in effect: the case's VALID document, written under the document keys,
    deserializes; returns a reason if not (the case is then skipped)"""
    valid = case.get("valid_kw")
    if not valid:
        return None
    keymap = dict(mp["map"])
    try:
        doc = {keymap.get(k, k): to_doc(v, ctx) for k, v in valid}
        Deserializer(cls, **deser_kwargs).deserialize(doc)
        return None
    except Exception as e:  # noqa
        return f"valid document rejected under mapper {mp['mode']}: {type(e).__name__}: {str(e)[:120]}"


def run_impl(case):
    ctx = C.make_ctx()
    decl = case["cls"]
    try:
        cls = dump.build_class(decl, ctx)
    except Exception as e:
        return {"unbuildable": f"class: {type(e).__name__}: {e}"}
    back = dump.normalize_decl(dump.dump_class(cls, ctx))
    want = dump.normalize_decl(decl)
    if back != want:
        return {"abstraction_mismatch": {"dumped": back, "declared": want}}
    if case.get("via"):
        try:
            cls = derive_class(cls, case["via"])
        except Exception as e:
            return {"unbuildable": f"derive: {type(e).__name__}: {e}"}
    cls_actual = C.fix_accepts(dump.dump_class(cls, ctx))
    # the same class with every (nested) class's fields in DEFINITION order: the order deserialization
    # visits them in, at every level (which nested failure comes first decides the exception class)
    cls_def = C.fix_accepts(dump.dump_class(cls, ctx, order="definition")) if case["mode"] == "deser" else None
    mode = case["mode"]
    decl_of = dict((n, fd) for n, fd in decl["fields"])
    share_inner_fields(cls, case.get("share", []), ctx)
    mp = case.get("mapper")
    deser_kwargs = {}
    if mp:
        cls, deser_kwargs = apply_mapper(cls, mp)
    history = run_history(cls, case.get("pre", []), ctx)
    try:
        if mode == "construct":
            kw = {k: dump.load_value(v, ctx) for k, v in case["kw"]}
            lifted = kw
        else:
            kw = {k: to_doc(v, ctx) for k, v in case["kw"]}
            # a null document value is not passed on at all (the field counts as not supplied)
            lifted = {k: lift(decl_of[k], v) for k, v in kw.items() if v is not None} if mode == "deser" else {}
    except Exception as e:
        return {"unbuildable": f"value: {type(e).__name__}: {e}"}
    res = {"cls_actual": cls_actual, "cls_name_real": cls.__name__,
           "kw_actual": [[k, C.rename_inline(dump.dump_value(v, ctx), ctx)] for k, v in lifted.items()]}
    if history:
        res["history"] = history
    if mode == "deser":
        res["cls_def"] = cls_def
        res["doc_actual"] = [[k, dump.dump_value(v, ctx)] for k, v in kw.items()]
        # the order construct_fields_map visits the fields, and the scratch `_name` every inner Field
        # instance carries right now (left there by earlier constructions; inputs of the Lean model)
        res["order"] = list(cls.get_all_fields_by_name())
        res["scratch"] = [[n, [scratch_name(x) for x in inner_field_objs(getattr(cls, n))]]
                          for n in res["order"] if inner_field_objs(getattr(cls, n))]
    # the document as handed to the real code: every field under its mapped (document) key
    keymap = dict(mp["map"]) if mp else {}
    real_doc = {keymap.get(k, k): v for k, v in kw.items()} if mode != "construct" else None
    if mp and mode != "construct":
        res["mapper"] = [[k, v] for k, v in keymap.items()]
        res["raw_doc_actual"] = [[keymap.get(k, k), dump.dump_value(v, ctx)] for k, v in kw.items()]
        # on a separately built twin class, so that the check itself is not part of the judged
        # class object's history
        ctx2 = C.make_ctx()
        twin, twin_kwargs = apply_mapper(dump.build_class(decl, ctx2), mp)
        ok = mapper_sanity(twin, mp, twin_kwargs, case, ctx2)
        if ok is not None:
            return {"unbuildable": "mapper: " + ok}
    ff = bool(case["ff"])
    Structure.set_fail_fast(ff)
    try:
        try:
            if mode == "construct":
                cls(**kw)
            elif case.get("entry") == "deserialize_structure":
                deserialize_structure(cls, real_doc, **deser_kwargs)
            else:
                Deserializer(cls, **deser_kwargs).deserialize(real_doc)
            res["raised"] = None
        except Exception as e:  # noqa
            res["raised"] = C.err_name(e)
            res["msg"] = str(e)
            try:
                out = standard_readable_error_for_typedpy_exception(e)
                if isinstance(out, list):
                    res["helper"] = {"many": [info_to_json(x) for x in out]}
                else:
                    res["helper"] = {"single": info_to_json(out)}
            except Exception as ex:  # noqa
                res["helper"] = {"raises": type(ex).__name__, "text": str(ex)[:200]}
        res["ff_after"] = Structure.failing_fast()
    finally:
        Structure.set_fail_fast(True)
    if mode == "deser":
        # phase one on the real code, one field at a time: which supplied fields does
        # deserialize_single_field reject (compared with the Lean model `phaseOneInvalid`)
        from typedpy.serialization.serialization import deserialize_single_field
        ign = bool(decl.get("ignoreNone"))
        p1 = []
        # as construct_fields_map calls it: with the field's part of the aggregated (identity) mapper, under which
        # a null inside a nested / inline structure counts as an absent key
        try:
            from typedpy.serialization.mappers import aggregate_deserialization_mappers
            agg = aggregate_deserialization_mappers(cls, deser_kwargs.get("mapper"), bool(deser_kwargs.get("camel_case_convert"))) or {}
        except Exception:  # noqa
            agg = {}
        for k, v in kw.items():
            if k not in decl_of or v is None:   # null document values are dropped by Deserializer
                continue
            try:
                sub = agg.get(f"{k}._mapper") if isinstance(agg, dict) else None
                deserialize_single_field(getattr(cls, k), v, k, ignore_none=ign, mapper=sub)
            except (TypeError, ValueError):
                p1.append(k)
            except Exception:  # noqa
                pass
        res["phase1_rejects"] = p1
    if mode == "deser" and res.get("raised") is not None:
        # reference for the `unnamed-inner-field` finding only: the exact texts the inner fields'
        # own `_validate` produces for the supplied elements / keys / values (their scratch `_name`
        # is still unset when the first phase failed)
        inner = []
        for k, v in kw.items():
            f = getattr(cls, k, None) if k in decl_of else None
            items = getattr(f, "items", None)
            if items is None:
                continue
            fields_ = items if isinstance(items, (list, tuple)) else [items]
            if isinstance(v, dict):
                elems = list(v.keys()) + list(v.values())
            elif isinstance(v, (list, tuple, set)):
                elems = list(v)
            else:
                continue
            for fld in fields_:
                for x in elems:
                    try:
                        if hasattr(fld, "deserialize") and fld.__class__.__name__ == "Enum":
                            fld.deserialize(x)
                        else:
                            fld._validate(x)
                    except (TypeError, ValueError) as e:
                        inner.append(str(e))
                    except Exception:  # noqa
                        pass
        res["inner_texts"] = sorted(set(inner))
    return res


def all_texts(msg, depth=0):
    """the message and every string reachable by decoding it as JSON (collect-all lists, nested)"""
    out = [msg]
    if depth < 4:
        try:
            j = json.loads(msg)
        except Exception:
            return out
        if isinstance(j, (list, dict)):
            for x in j:
                if isinstance(x, str):
                    out += all_texts(x, depth + 1)
        elif isinstance(j, str):
            out.append(j)
    return out


def line(case, impl):
    l = {"suite": "errors", "cls": impl.get("cls_actual", case["cls"]), "kw": impl.get("kw_actual", []),
         "ff": bool(case["ff"]), "mode": case["mode"], "re": case.get("re", [])}
    if case.get("via"):
        # a derived class: its NAME is the model's (Lean `derivedName`), not read off the real class
        v = case["via"]
        l["via"] = v["kind"].split("-")[0]
        l["baseName"] = case["cls"]["name"] + ("Sub" if v["kind"] == "subclass" else "")
        if v["kind"] == "subclass":
            l["via"] = "plain"
        if v.get("name"):
            l["viaName"] = v["name"]
    if impl.get("doc_actual") is not None:
        l["doc"] = impl["doc_actual"]
        if impl.get("mapper"):
            l["doc"] = impl["raw_doc_actual"]
            l["mapper"] = impl["mapper"]
        l["order"] = impl.get("order", [])
        if impl.get("cls_def") is not None:
            l["clsDef"] = impl["cls_def"]
        l["scratch"] = impl.get("scratch", [])
        # keep_undefined as deserialize_structure_internal receives it (Deserializer.deserialize passes
        # None on for a class that allows additional properties)
        l["keepUndefined"] = bool(case.get("entry") == "deserialize_structure" or not case["cls"].get("addl", True))
    if impl.get("msg") is not None:
        l["msg"] = impl["msg"]
        # oracle answers for `\w`: the non-ASCII characters of the message that str.isalnum() accepts
        l["alnum"] = "".join(sorted({ch for t in all_texts(impl["msg"]) for ch in t if ord(ch) > 127 and ch.isalnum()}))
    return l


# ------------------------------------------------------------------ comparison helpers

def infos_of(h):
    if h is None or "raises" in h:
        return None
    return [h["single"]] if "single" in h else h["many"]


def info_eq(m, r):
    """model Info vs real ErrorInfo; returns difference text or None"""
    if m.get("field") != r.get("field"):
        return f"field: model {m.get('field')!r} real {r.get('field')!r}"
    if m.get("value") != r.get("value"):
        return f"value: model {m.get('value')!r} real {r.get('value')!r}"
    if "subs" in m or "subs" in r:
        if "subs" not in m or "subs" not in r:
            return f"problem nesting differs: model {json.dumps(m)[:200]} real {json.dumps(r)[:200]}"
        if len(m["subs"]) != len(r["subs"]):
            return "nested problem lists differ in length"
        for a, b in zip(m["subs"], r["subs"]):
            d = info_eq(a, b)
            if d:
                return "nested: " + d
        return None
    if m.get("problem") != r.get("problem"):
        return f"problem: model {m.get('problem')!r} real {r.get('problem')!r}"
    return None


def readable_correspondence(impl, model):
    if impl.get("raised") is None:
        return None
    mr, rr = model.get("readable"), impl.get("helper")
    if mr is None or rr is None:
        return "helper result missing"
    if ("raises" in mr) != ("raises" in rr):
        return f"helper raising differs: model {json.dumps(mr)[:200]} real {json.dumps(rr)[:200]}"
    if "raises" in mr:
        return None
    if ("single" in mr) != ("single" in rr):
        return "helper result kind (single / list) differs"
    a, b = infos_of(mr), infos_of(rr)
    if len(a) != len(b):
        return f"helper result length differs: model {len(a)} real {len(b)}"
    for x, y in zip(a, b):
        d = info_eq(x, y)
        if d:
            return "helper: " + d + " for message " + repr(impl.get("msg"))[:300]
    return None


def deser_correspondence(case, impl, model):
    """phase-one model vs the real deserialize_single_field, field by field"""
    if "phase1_rejects" not in impl or "phase1" not in model:
        return None
    if model.get("p1VsDeser") is False:
        return (f"the two Lean models of deserialization's first phase disagree (Sem/Errors p1Rejects vs Sem/Deser deser) "
                f"for document {json.dumps(impl.get('doc_actual'), ensure_ascii=False)[:300]}")
    m, r = sorted(model["phase1"]), sorted(impl["phase1_rejects"])
    if m != r:
        return (f"phase one of deserialization: model rejects {m}, real deserialize_single_field rejects {r} "
                f"for document {json.dumps(impl.get('doc_actual'), ensure_ascii=False)[:300]}")
    if m and impl.get("raised") is None:
        return f"phase one rejects {m} but deserialization raised nothing"
    sites = model.get("p1sites", [])
    raised = impl.get("raised")
    if not m:
        # nothing rejected in phase one: the constructor runs on the lifted arguments
        return construct_correspondence(case, impl, model)
    if case["ff"]:
        if raised != sites[0]["cls"]:
            return f"phase one, fail-fast: model raises {sites[0]['cls']} for field {sites[0]['top']}, real {raised}: {impl.get('msg')!r}"
    else:
        if raised != "InvalidStructureErr":
            return f"phase one, collect-all: real raised {raised}, not InvalidStructureErr: {impl.get('msg')!r}"
        try:
            lst = json.loads(impl["msg"])
        except Exception:
            lst = None
        if not isinstance(lst, list) or len(lst) != len(sites):
            return f"phase one, collect-all: model has {len(sites)} messages ({[x['top'] for x in sites]}), real {impl['msg']!r}"
    for x in sites:
        if not x["headOk"]:
            return (f"phase one: message for field {x['top']} ({x['kind']} site) does not begin with the model's head "
                    f"{x['head']!r}: {impl.get('msg')!r}; scratch={impl.get('scratch')}")
    return None


def construct_correspondence(case, impl, model):
    """construction model (kind, class, heads, shapes) vs the real exception"""
    kind = model["kind"]
    raised = impl.get("raised")
    if kind == "bind":
        return None if raised == "TypeError" else f"model: bind TypeError, real: {raised}"
    if kind == "nothing":
        return None if raised is None else f"model accepts, real raises {raised}: {impl.get('msg')!r}"
    if raised is None:
        return f"model raises ({kind}, invalid={model['invalid']}), real code accepts"
    sites = model["sites"]
    if kind == "single":
        if raised != sites[0]["cls"]:
            return f"exception class: model {sites[0]['cls']} real {raised}: {impl.get('msg')!r}"
    else:
        if raised != "InvalidStructureErr":
            return f"collect-all: real raised {raised}, not InvalidStructureErr: {impl.get('msg')!r}"
        try:
            lst = json.loads(impl["msg"])
        except Exception:
            return f"collect-all message is not JSON: {impl['msg']!r}"
        if not isinstance(lst, list) or len(lst) != len(sites):
            return f"collect-all: {len(sites)} model messages, real {impl['msg']!r}"
    if model["nTexts"] != len(sites):
        return f"model sites {len(sites)} vs decoded texts {model['nTexts']}"
    for s, c in zip(sites, model["cmp"]):
        if not c["headOk"]:
            return f"message does not begin with the model's head {s['head']!r}: {impl.get('msg')!r}"
        if not c["shapeOk"]:
            return f"message shape differs from the model's {s['shape']}: {impl.get('msg')!r}"
        if not c.get("problemOk", True):
            return (f"the message body violates the side condition of the render -> parse theorems (a non-empty problem where "
                    f"the {s['shape']} shape puts it, not starting with 'G' / ';'): {impl.get('msg')!r}")
    return None


# ------------------------------------------------------------------ property oracle on the real code

def names_field(path, cls_name, name):
    """does the path text name the top-level field (optional class prefix, optional element suffix)"""
    return re.fullmatch(r"(?:" + re.escape(cls_name) + r"\.)?" + re.escape(name) + r"(?:_\d+|_key|_value)*", path or "") is not None


def path_of_text(t, cls_name=None):
    """the leading `<path>: ` of a message; a known class prefix is taken literally (a class name may
    contain any character, e.g. a space)"""
    if cls_name and t.startswith(cls_name + "."):
        m = re.match(r"([^:\s]+): ", t[len(cls_name) + 1:])
        return cls_name + "." + m.group(1) if m else None
    m = re.match(r"([^:\s]+): ", t)
    return m.group(1) if m else None


COLLECTION_KINDS = ("seqAny", "seqOf", "seqPos", "setAny", "setOf", "tupleOf", "tuplePos", "mapAny", "mapOf")


def classify_no_path(text, raised, mode, ff, invalid_kinds, supplied_kinds, inner_texts=()):
    """stable phenomenon key (phenomenon:site) for a message that does not begin with a field path"""
    t = text
    if mode == "deser" and (raised == "IndexError" and "index out of range" in t) and \
            any(k in ("seqPos", "tuplePos", "tupleOf") for k in supplied_kinds):
        return "no-path:index-error:deser-positional"
    if t.startswith("unhashable type") and mode == "deser" and \
            any(k in ("setAny", "setOf", "mapAny", "mapOf") for k in supplied_kinds):
        return "no-path:unhashable:deser-set"
    if t.startswith("Invalid value:") and mode == "deser" and "enumCls" in invalid_kinds:
        return "no-path:enum-invalid-value:deser"
    if t.startswith("[") and mode == "deser" and ff:
        return "field-lost:json-list-under-fail-fast:deser-falsy"
    if mode == "deser" and any(k in COLLECTION_KINDS for k in invalid_kinds) and t in inner_texts and (
            t.startswith("None: ") or t.startswith("Expected ") or t.startswith("Got ") or t.startswith("Does not match")):
        return "no-path:unnamed-inner-field:deser-collection"
    return "no-path:other"


# the field group of errors.py since /repo 18c6055 (written here from its documentation, not imported)
FIELD_GROUP = r"(?:[\w.]|[^\x00-\x7f\s])"


def classify_lost(text, path, declared=""):
    if path is not None and re.fullmatch(FIELD_GROUP + "+", path) is None:
        # a name with a character that is neither str.isalnum() nor `_` (e.g. a combining mark): the open
        # finding covers names the USER chose (class, explicit derived-class name, fields); a non-word character
        # that none of them contains was put there by typedpy (the name it gave a class it created)
        if any(re.fullmatch(FIELD_GROUP, ch) is None and ch not in declared for ch in path):
            return "field-lost:non-word-name:generated-class-name"
        return "field-lost:non-word-name"
    if "\n" in text:
        return "field-lost:newline"
    return "field-lost:other"


def in_domain(mode, model):
    """the statement's domain: flat classes; for the constructor also the path model's extended domain
    (collections nested to any depth over scalars and class references)"""
    return bool(model.get("flat") or (mode in ("construct", "deser") and model.get("path")))


def oracle(case, impl, model):
    """the property statement executed on what the real code did; returns [(key, what)]"""
    fails = []
    mode, ff = case["mode"], bool(case["ff"])
    raised, msg, helper = impl.get("raised"), impl.get("msg"), impl.get("helper")
    if impl.get("ff_after") is not None and impl["ff_after"] != ff:
        fails.append(("fail-fast-switch-changed", "Structure.failing_fast() changed during the run"))
    where = f"{mode} ff={ff} kw={json.dumps(case['kw'], ensure_ascii=False)[:200]}"
    if case.get("pre"):
        where += f" after {json.dumps(case['pre'], ensure_ascii=False)[:160]}"
    if case.get("mapper"):
        where += f" mapper={case['mapper']['mode']}"
    if raised is None:
        # an invalid input must be rejected (modelled, flat cases; the invalid set comes from Lean `validate`)
        if mode in ("construct", "deser") and in_domain(mode, model) and model.get("invalid") and "raised" in impl \
                and model.get("kind") != "bind":
            fails.append(("invalid-input-accepted",
                          f"supplied fields {model['invalid']} are invalid but nothing was raised [{where}]"))
        return fails
    # (1) the helpers never raise (all modes, nested included)
    if helper is not None and "raises" in helper:
        fails.append((f"helper-raises:{helper['raises']}",
                      f"standard_readable_error_for_typedpy_exception raised {helper['raises']} ({helper.get('text')}) for {msg!r} [{where}]"))
        return fails
    if case.get("mapper") and raised is not None and msg:
        # whatever the field kind (AnyOf and nested structures included): the leading path must never be
        # a DOCUMENT key of the mapper that names no field
        fields_ = [n for n, _ in case["cls"]["fields"]]
        dockeys = [dk for f, dk in case["mapper"]["map"] if dk not in fields_]
        try:
            ts = json.loads(msg) if not ff else [msg]
            ts = ts if isinstance(ts, list) and all(isinstance(x, str) for x in ts) else [msg]
        except Exception:
            ts = [msg]
        for t in ts:
            bare = re.sub(r"^" + re.escape(case["cls"]["name"]) + r"\.", "", t)
            p = path_of_text(bare)
            if p and any(p == dk or p.startswith(dk + "_") for dk in dockeys) and \
                    not any(names_field(p, case["cls"]["name"], f) for f in fields_):
                fails.append(("wrong-field:document-key",
                              f"the message path is the document key, not the field (mapper {case['mapper']}): {t!r} [{where}]"))
                break
    if mode == "nested" or not in_domain(mode, model):
        return fails
    invalid = model["invalid"]
    if not invalid:
        return fails
    # the class name the message heads carry: the declared one; for a class typedpy derived, the real one (whether it
    # stays in [\\w.]+ is the model's prediction, Lean derivedName; a non-word character no declared name has is typedpy's)
    cls_name = (impl.get("cls_name_real") if case.get("via") else None) or case["cls"]["name"]
    invalid_kinds = set()
    supplied = [k for k, _ in case["kw"]]
    supplied_kinds = set(fd["k"] for n, fd in case["cls"]["fields"] if n in supplied)
    for n, fd in case["cls"]["fields"]:
        if n in invalid:
            invalid_kinds.add(fd["k"])
            if fd["k"] == "number" and fd.get("sign", "any") != "any":
                invalid_kinds.add("number-sign")
            for sub in ([fd.get("item")] + list(fd.get("items", [])) + [fd.get("key"), fd.get("val")]):
                if isinstance(sub, dict):
                    invalid_kinds.add(sub["k"])
                    if sub["k"] == "number" and sub.get("sign", "any") != "any":
                        invalid_kinds.add("number-sign")
    if re.match(re.escape(cls_name) + r": (missing a required argument|got an unexpected keyword|too many positional|multiple values)", msg or ""):
        # Signature.bind failure (e.g. a null document value dropped for a required field): the
        # rejection is about the argument list, not about an invalid supplied field
        return fails
    # the message texts: one (fail-fast) or the decoded JSON list (collect-all)
    if ff:
        texts = [msg]
    else:
        try:
            texts = json.loads(msg)
            if not isinstance(texts, list) or not all(isinstance(x, str) for x in texts):
                texts = [msg]
        except Exception:
            texts = [msg]
    infos = infos_of(helper)
    named = set()
    lost_keys = []
    # the model's rejection site behind each message: for deserialization's first phase the Lean
    # model says, per field, whether the text is guaranteed to carry the field's own path (`named`),
    # an inner Field instance's scratch name (`inner`, Map entries) or nothing (`foreign`, set(values));
    # the open findings are accepted ONLY at the sites where the model places them
    p1 = model.get("p1sites", []) if mode == "deser" else []
    aligned = p1 if (p1 and len(p1) == len(texts)) else None
    if mode == "construct" or (mode == "deser" and not model.get("phase1")):
        cs = model.get("sites", [])
        if len(cs) == len(texts):
            aligned = [{"top": x["top"], "kind": "named", "path": x.get("path")} for x in cs]

    def own(idx):
        return [aligned[idx]["top"]] if aligned else invalid

    def site_key(idx, t, what):
        bare = re.sub(r"^" + re.escape(cls_name) + r"\.", "", t)
        if aligned is None:
            return "no-path:other"
        kind = aligned[idx]["kind"]
        if kind == "foreign":
            return "no-path:unhashable:deser-set"
        if kind == "nested":
            # a dict document of a top-level class-reference field: the nested structure's error is
            # passed through without the outer field's name
            return "no-path:nested-structure:deser-classref"
        if kind == "inner":
            p = path_of_text(bare)
            if p is None or p == "None":
                return "no-path:unnamed-inner-field:deser-collection"
            return "wrong-field:stale-inner-name:deser-map"
        # a `named` site (or the constructor): nothing excuses a missing / foreign / other field's path
        p = path_of_text(bare)
        fields_ = [n for n, _ in case["cls"]["fields"]]
        if what == "no-path:other" and p is not None and any(names_field(p, cls_name, n) for n in fields_):
            return "wrong-field:other"
        return what

    # (2) every message begins with a path naming ITS invalid supplied field
    for idx, t in enumerate(texts):
        p = path_of_text(t, cls_name)
        hit = [n for n in own(idx) if n in invalid and p is not None and names_field(p, cls_name, n)]
        if not hit:
            lost_keys.append((site_key(idx, t, "no-path:other"),
                              f"message does not begin with a path naming its invalid field {own(idx) if aligned else invalid} (invalid={invalid}): {t!r} [{where}]"))
        elif aligned and aligned[idx].get("path") is not None:
            # the constructor's message names the POSITION: the top-level field followed by one suffix per
            # nesting level down to the first rejected element (computed by Lean `locate` from `validate`)
            bare = re.sub(r"^" + re.escape(cls_name) + r"\.", "", p)
            if bare != aligned[idx]["path"]:
                fails.append(("wrong-position:suffix-chain",
                              f"the path {p!r} names field {hit[0]} but not the rejected position {aligned[idx]['path']!r}: {t!r} [{where}]"))
        elif aligned and aligned[idx].get("kind") == "named" and aligned[idx].get("head") and model.get("deep") \
                and not t.startswith(aligned[idx]["head"]):
            # deserialization at depth: the text must begin with the path of the first rejected element
            # (Lean `dHead`: one `_<i>` per homogeneous level, `<name>_<i>: ` per positional level)
            fails.append(("wrong-position:deser-head",
                          f"the message names field {hit[0]} but does not begin with the rejected position {aligned[idx]['head']!r}: {t!r} [{where}]"))
    # (3) every ErrorInfo carries such a field and a non-empty problem
    for idx, i in enumerate(infos):
        hit = [n for n in (own(idx) if idx < len(texts) else invalid) if n in invalid and names_field(i.get("field"), cls_name, n)]
        t = texts[idx] if idx < len(texts) else msg
        if hit:
            named.update(hit)
            prob = i.get("problem") if "subs" not in i else i["subs"]
            if not prob:
                fails.append(("empty-problem", f"ErrorInfo.problem is empty for {t!r} [{where}]"))
        else:
            p = path_of_text(t, cls_name)
            if p is not None and any(names_field(p, cls_name, n) for n in (own(idx) if idx < len(texts) else invalid)):
                declared = case["cls"]["name"] + "".join(n for n, _ in case["cls"]["fields"]) + ((case.get("via") or {}).get("name") or "")
                lost_keys.append((classify_lost(t, p, declared),
                                  f"ErrorInfo.field={i.get('field')!r} does not name the invalid field although the message does: {t!r} [{where}]"))
            # else: already reported under (2)
    seen = set()
    for k, w in lost_keys:
        if k not in seen:
            seen.add(k)
            fails.append((k, w))
    # (4) collect-all: reported set == invalid set; fail-fast: the reported one is a member
    if not lost_keys:
        if ff:
            if len(named) < 1:
                fails.append(("fail-fast:not-a-member", f"reported field is not one of the invalid fields {invalid}: {msg!r} [{where}]"))
        else:
            missing = [n for n in invalid if n not in named]
            if missing and mode == "construct":
                fails.append(("collect-all:missing-field", f"invalid fields {missing} are not reported: {msg!r} [{where}]"))
            elif missing:
                # deserialization collects in two phases (construct_fields_map, then the constructor):
                # fields that only the constructor rejects are not reported when another field
                # already failed in the first phase.  Fields the first phase itself rejects (probe on
                # the real deserialize_single_field) must all be there.
                p1 = model.get("phase1", [])   # the Lean model of phase one, not the code under test
                first = [n for n in missing if n in p1]
                if first:
                    fails.append(("collect-all:missing-field:deser-phase-one",
                                  f"invalid fields {first}, which deserialization's own first phase must reject, are not reported: {msg!r} [{where}]"))
                else:
                    fails.append(("collect-all:missing-field:deser-two-phase",
                                  f"invalid fields {missing} are not reported by deserialization: {msg!r} [{where}]"))
            if len(infos) != len(set(named)) and mode == "construct":
                fails.append(("collect-all:duplicate-or-extra", f"{len(infos)} entries for invalid fields {invalid}: {msg!r} [{where}]"))
    return fails


def tags(case, impl, model):
    out = [f"mode:{case['mode']}", f"ff:{case['ff']}"]
    for w in case.get("ways", []):
        out.append("way:" + w)
    out.append(f"invalid-subset-size:{len(case.get('sub', []))}")
    if "raised" in impl:
        out.append("impl:" + str(impl["raised"]))
    else:
        out.append("impl:skipped")
    if model and "out" in model:
        for s in model["out"].get("sites", []):
            out.append("site-shape:" + s["shape"])
        # only where the compared texts ARE constructor messages (not phase-one texts of deserialization)
        if case["mode"] == "construct" or (case["mode"] == "deser" and not model["out"].get("phase1")):
            for s, c in zip(model["out"].get("sites", []), model["out"].get("cmp", [])):
                out.append("problem-template:" + ("typedpy" if c.get("templateOk") else
                                                  ("embedded-message(inline structure)" if s.get("shape") == "plain" else "other")))
    return out


def nontrivial(case):
    return True


def describe(case, impl, model):
    return {"cls": case["cls"], "kw": case["kw"], "mode": case["mode"], "ff": case["ff"],
            "impl": {k: impl.get(k) for k in ("raised", "msg", "helper")},
            "model": {k: (model or {}).get(k) for k in ("invalid", "kind", "sites", "readable")}}
