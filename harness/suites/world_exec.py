"""
Real-code executor of the `world` suite (C15) and its fork server.

A *job* is `{"types": [...], "ops": [...], "fp": [class ids]}`: run the operations against the real
typedpy in THIS process, then compute the behaviour fingerprint of the listed classes.

Server mode (`python -m harness.suites.world_exec`): import typedpy once into a pristine interpreter,
then for every job line on stdin `os.fork()` a child that runs the job and reports one JSON line.
Every job therefore starts from the state of a fresh interpreter that has only imported typedpy;
this is what "defined and used alone in a fresh interpreter" means operationally.
"""
import datetime
import decimal
import enum
import inspect
import json
import os
import sys


# ------------------------------------------------------------------ primitive field vocabulary
# tag -> (constructor(default?) , valid value, second valid value, invalid value, default value or None)

def _prims():
    from typedpy import (Integer, String, Boolean, Float, Array, Enum, Map, Set, AnyOf, StructureReference,
                         Tuple, Number, Field)

    from typedpy.extfields import (DateString, TimeString, DateField, TimeField, DateTime, IPV4, HostName,
                                   JSONString)
    from typedpy import DecimalNumber

    class PyEnum(enum.Enum):
        A = 1
        B = 2

    def factory0() -> Field:
        return Array[String](minItems=1)

    def factory1() -> Field:
        return Integer(minimum=1)

    def dflt(cls, kw, d):
        def make(with_default):
            k = dict(kw)
            if with_default:
                k["default"] = d
            return cls(**k)
        return make

    P = {
        0: (dflt(Integer, {}, 7), 3, -4, "x", 7),
        1: (dflt(Integer, {"minimum": 0, "maximum": 10}, 2), 5, 10, 11, 2),
        2: (dflt(String, {}, "d"), "s", "", 5, "d"),
        3: (dflt(String, {"maxLength": 3}, "z"), "abc", "a", "abcd", "z"),
        4: (dflt(Boolean, {}, True), True, False, 5, True),
        5: (dflt(Float, {}, 2.5), 1.5, 2, "x", 2.5),
        6: (lambda d: Array[Integer], [1, 2], [], [1, "a"], None),
        7: (lambda d: Array(items=String(minLength=1), minItems=1), ["a"], ["b", "c"], [], None),
        8: (dflt(Enum, {"values": ["x", "y"]}, "y"), "x", "y", "q", "y"),
        9: (lambda d: Map[String, Integer], {"k": 1}, {}, {"k": "v"}, None),
        10: (lambda d: Set[Integer], {1, 2}, set(), {"a"}, None),
        11: (lambda d: AnyOf[Integer, String], 1, "s", 1.5, None),
        12: (lambda d: StructureReference(x=Integer(), _additionalProperties=False), {"x": 1}, {"x": 2}, {"x": "a"}, None),
        13: (lambda d: Enum[PyEnum], PyEnum.A, PyEnum.B, "zzz", None),
        14: (lambda d: factory0, ["a"], ["a", "b"], [], None),
        15: (lambda d: factory1, 1, 9, 0, None),
        16: (lambda d: Tuple[Integer, String], (1, "a"), (2, ""), (1, 2), None),
        17: (dflt(Number, {"multiplesOf": 2}, 4), 6, 0, 3, 4),
        # ext fields, with and without defaults
        18: (dflt(DateString, {}, "2021-02-03"), "2020-01-05", "1999-12-31", "x", "2021-02-03"),
        19: (dflt(TimeString, {}, "01:02:03"), "10:20:30", "23:59:59", "x", "01:02:03"),
        20: (dflt(DateField, {}, datetime.date(2021, 2, 3)), datetime.date(2020, 1, 5), "2019-03-04", "x",
             datetime.date(2021, 2, 3)),
        21: (dflt(TimeField, {}, datetime.time(4, 5, 6)), datetime.time(1, 2, 3), datetime.time(0, 0, 1), "x",
             datetime.time(4, 5, 6)),
        22: (lambda d: DateTime(), datetime.datetime(2020, 1, 5, 1, 2, 3), datetime.datetime(2001, 2, 3, 4, 5, 6), "x", None),
        23: (dflt(IPV4, {}, "9.9.9.9"), "1.2.3.4", "10.0.0.1", "1.2.3", "9.9.9.9"),
        24: (dflt(HostName, {}, "h.org"), "example.com", "a.b.c", "-x-", "h.org"),
        25: (lambda d: DecimalNumber(), decimal.Decimal("1.5"), decimal.Decimal("-2"), "x", None),
        26: (lambda d: JSONString(), '{"a": 1}', "[]", "{", None),
        # AnyOf whose options OVERLAP and normalise differently: the first valid value is accepted by both options
        # (the first one converts it), the second only by the later option
        27: (lambda d: AnyOf[DateField, String], "2020-01-31", "some day", 5, None),
        28: (lambda d: AnyOf[Integer, Float], 3, 2.5, "x", None),
        29: (lambda d: AnyOf[Enum[PyEnum], String], "A", "zz", 5, None),
    }
    return P, PyEnum


INLINES = {12: 1}
N_PRIMS = 30
DEFAULTABLE = [0, 1, 2, 3, 4, 5, 8, 17, 18, 19, 20, 21, 23, 24]
INTERNAL = ("_instantiated", "_none_fields", "_trust_supplied_values", "_skip_validation")


_MSG_SUBS = None


def canon_msg(e):
    """text of an exception, without what differs between two processes by construction (addresses, the number in
    the name of an inline class, the pid in the name of the scratch module)"""
    global _MSG_SUBS
    import re
    if _MSG_SUBS is None:
        _MSG_SUBS = [(re.compile(r"0x[0-9a-fA-F]+"), "0x"), (re.compile(r"StructureReference_\d+"), "StructureReference_N"),
                     (re.compile(r"verif_scoped_\d+"), "verif_scoped"), (re.compile(r"verif_world_\w+"), "verif_world"),
                     # the repr of a class lists its __dict__: the generated serializer and its flags are tracked as
                     # STATE (ownSerialize / created), they are not part of an error text's content
                     (re.compile(r"(serialize|_created_fast_serializer|_failed_serializer_creation) = "
                                 r"(<function \S+ at 0x>|True|False), "), ""),
                     (re.compile(r",? ?(serialize|_created_fast_serializer|_failed_serializer_creation) = "
                                 r"(<function \S+ at 0x>|True|False)"), ""),
                     (re.compile(r"Properties: ?>"), "Properties:>")]
    s = str(e)
    for rx, rep in _MSG_SUBS:
        s = rx.sub(rep, s)
    return s[:240]


def err_name(e):
    from typedpy.commons import InvalidStructureErr
    if isinstance(e, InvalidStructureErr):
        return "InvalidStructureErr"
    for c in (TypeError, ValueError):
        if isinstance(e, c):
            return c.__name__
    return type(e).__name__


# source text of the primitive kinds usable in classes written to a module file: (expression, default literal)
PRIM_SRC = {
    0: ("Integer()", "7"), 1: ("Integer(minimum=0, maximum=10)", "2"), 2: ("String()", "'d'"),
    3: ("String(maxLength=3)", "'z'"), 4: ("Boolean()", "True"), 5: ("Float()", "2.5"), 6: ("Array[Integer]", None),
    8: ("Enum(values=['x', 'y'])", "'y'"), 9: ("Map[String, Integer]", None), 10: ("Set[Integer]", None),
    17: ("Number(multiplesOf=2)", "4"), 18: ("DateString()", "'2021-02-03'"), 19: ("TimeString()", "'01:02:03'"),
    23: ("IPV4()", "'9.9.9.9'"), 24: ("HostName()", "'h.org'"),
}


def class_source(c, src, names, quoted, indent):
    """the class statement of `src` (annotation style); `names[cid]` = class name as written"""
    p = src.get("parent")
    bases = names[p["c"]] if p else ("Structure, FastSerializable" if src.get("fast") else "Structure")
    lines = [f"class {src['name']}({bases}):"]
    body = []
    for f in src["fields"]:
        k = f["kind"]
        if "prim" in k:
            ann, dflt = PRIM_SRC[k["prim"]]
            body.append(f"{f['name']}: {ann}" + (f" = {dflt}" if f.get("default") else ""))
        else:
            ann = names[k["ref"]]
            if k.get("arr"):
                ann = f"Array[{ann}]"
            body.append(f"{f['name']}: " + (repr(ann) if quoted else ann))
    mapper = {f["name"]: f["key"] for f in src["fields"] if f.get("key") and f["key"] != f["name"]}
    if mapper:
        body.append(f"_serialization_mapper = {mapper!r}")
    if src.get("addProps") is not None:
        body.append(f"_additionalProperties = {src['addProps']!r}")
    if src.get("ignoreNone"):
        body.append("_ignore_none = True")
    if not body:
        body.append("pass")
    return [indent + lines[0]] + [indent + "    " + b for b in body]


def module_source(ops, mode):
    """one module for the whole job: a module-level class is created by `define_<c>()` (with a `global`
    declaration, so that it is bound in the module namespace when that op runs); the classes of a function
    scope are created one per `next()` of the generator function `scope_<s>()`, whose frame — with the
    classes defined so far as its locals — persists between the ops"""
    quoted = mode == "quoted"
    out = (["from __future__ import annotations"] if mode == "future" else []) + [
        "from typedpy import *", "from typedpy.extfields import *",
        "from typedpy.serialization.fast_serialization import FastSerializable", ""]
    names = {op["c"]: op["src"]["name"] for op in ops if op["op"] == "define"}
    scopes = {}
    for op in ops:
        if op["op"] != "define":
            continue
        c, src = op["c"], op["src"]
        if src.get("scope", "module") == "module":
            out += [f"def define_{c}():", f"    global {src['name']}"] + class_source(c, src, names, quoted, "    ") + \
                   [f"    return {src['name']}", ""]
        else:
            scopes.setdefault(src["scope"], []).append((c, src))
    for s, items in sorted(scopes.items()):
        out.append(f"def scope_{s}():")
        for c, src in items:
            out += class_source(c, src, names, quoted, "    ") + [f"    yield {src['name']}"]
        out.append("")
    return "\n".join(out) + "\n"


class Env:
    def __init__(self, types):
        self.module = None
        self.gens = {}
        self.tmpdir = None
        self.P, self.PyEnum = _prims()
        self.types = {}
        for t in types:
            cls = type(t["name"], (), {"__init__": lambda self: None})
            cls._verif_id = t["id"]
            self.types[t["id"]] = cls
        self.classes = {}      # cid -> class
        self.srcs = {}         # cid -> src
        self.defflags = {}

    # ---------------------------------------------------------------- flat field info (from the sources)
    def flat_fields(self, c):
        src = self.srcs[c]
        own = list(src["fields"])
        p = src.get("parent")
        if not p:
            return own
        base = self.flat_fields(p["c"])
        ownn = {f["name"] for f in own}
        if p["kind"] == "inherit":
            base = [f for f in base if f["name"] not in ownn]
        elif p["kind"] == "omit":
            base = [f for f in base if f["name"] not in p["names"]]
        elif p["kind"] == "pick":
            base = [f for f in base if f["name"] in p["names"]]
        return base + own      # partial / allreq / extend keep every field

    # ---------------------------------------------------------------- canonical dumps
    def canon(self, v, depth=0):
        from typedpy import Structure
        if depth > 6:
            return "<deep>"
        if v is None or isinstance(v, (bool, int, str)):
            return v
        if isinstance(v, float):
            return {"f": v.hex()}
        if isinstance(v, enum.Enum):
            return {"e": v.name}
        if isinstance(v, (datetime.date, datetime.time, datetime.datetime)):
            return {"dt": v.isoformat()}
        if isinstance(v, decimal.Decimal):
            return {"dec": str(v)}
        if isinstance(v, Structure):
            return {"o": sorted([k, self.canon(x, depth + 1)] for k, x in v.__dict__.items() if k not in INTERNAL)}
        if hasattr(type(v), "_verif_id"):
            return {"inst": type(v)._verif_id}
        if isinstance(v, (list, tuple)) or type(v).__name__ in ("_ListStruct", "deque", "_DequeStruct"):
            return {"l": [self.canon(x, depth + 1) for x in v]}
        if isinstance(v, (set, frozenset)):
            return {"s": sorted((self.canon(x, depth + 1) for x in v), key=lambda z: json.dumps(z, sort_keys=True))}
        if isinstance(v, dict):
            return {"m": sorted(([self.canon(k, depth + 1), self.canon(x, depth + 1)] for k, x in v.items()),
                                key=lambda z: json.dumps(z, sort_keys=True))}
        return {"x": type(v).__name__}

    def canon_json(self, v):
        """serialized documents / schemas: erase inline class names, keep structure"""
        s = json.dumps(v, sort_keys=True, default=lambda o: {"x": type(o).__name__, "v": str(o)})
        import re
        return re.sub(r"StructureReference_\d+", "StructureReference_N", s)

    # ---------------------------------------------------------------- definition
    def build_field(self, f):
        from typedpy import Array, Field
        k = f["kind"]
        if "prim" in k:
            return self.P[k["prim"]][0](bool(f.get("default")))
        if "wrap" in k:
            U = self.types[k["wrap"]]
            return Array[U] if k.get("arr") else Field[U]
        if "ref" in k:
            C = self.classes[k["ref"]]
            return Array[C] if k.get("arr") else C
        if "refs" in k:      # positional Array of several Structure item types
            return Array(items=[self.classes[c] for c in k["refs"]])
        raise ValueError(k)

    def load_module(self, ops, mode):
        import importlib
        import tempfile
        self.tmpdir = tempfile.mkdtemp(prefix="verif_world_")
        name = "verif_scoped_%d" % os.getpid()
        with open(os.path.join(self.tmpdir, name + ".py"), "w", encoding="utf-8") as f:
            f.write(module_source(ops, mode))
        sys.path.insert(0, self.tmpdir)
        self.module = importlib.import_module(name)

    def cleanup(self):
        if self.tmpdir:
            import shutil
            shutil.rmtree(self.tmpdir, ignore_errors=True)

    def define_scoped(self, c, src):
        for f in src["fields"]:
            if "ref" in f["kind"] and f["kind"]["ref"] not in self.classes:
                raise NameError("class %d is not defined" % f["kind"]["ref"])
        if src.get("parent") and src["parent"]["c"] not in self.classes:
            raise NameError("class %d is not defined" % src["parent"]["c"])
        if src.get("scope", "module") == "module":
            cls = getattr(self.module, "define_%d" % c)()
        else:
            s = src["scope"]
            if s not in self.gens:
                self.gens[s] = getattr(self.module, "scope_%d" % s)()
            cls = next(self.gens[s])
        self.classes[c] = cls
        self.srcs[c] = src
        return cls

    def define(self, c, src):
        if self.module is not None:
            return self.define_scoped(c, src)
        from typedpy import Structure, Partial
        from typedpy.serialization.fast_serialization import FastSerializable
        p = src.get("parent")
        for f in src["fields"]:
            if "ref" in f["kind"] and f["kind"]["ref"] not in self.classes:
                raise NameError("class %d is not defined" % f["kind"]["ref"])   # not a program: skipped whole
            if "refs" in f["kind"] and any(r not in self.classes for r in f["kind"]["refs"]):
                raise NameError("a class of %r is not defined" % (f["kind"]["refs"],))
        if p is not None and p["c"] not in self.classes:
            raise NameError("class %d is not defined" % p["c"])
        body = {}
        for f in src["fields"]:
            body[f["name"]] = self.build_field(f)
        mapper = {f["name"]: f["key"] for f in src["fields"] if f.get("key") and f["key"] != f["name"]}
        for f in src["fields"]:
            if f.get("submap"):       # owner-side key names for the nested class: "<field>._mapper": {...}
                mapper[f["name"] + "._mapper"] = dict(f["submap"])
        if mapper:
            body["_serialization_mapper"] = mapper
        if src.get("addProps") is not None:
            body["_additionalProperties"] = src["addProps"]
        if src.get("ignoreNone"):
            body["_ignore_none"] = True
        opt = [f["name"] for f in src["fields"] if f.get("opt")]
        if opt:
            body["_optional"] = opt
        if p is None:
            bases = (Structure, FastSerializable) if src.get("fast") else (Structure,)
            cls = type(src["name"], bases, body)
        else:
            P = self.classes[p["c"]]
            if p["kind"] == "inherit":
                cls = type(src["name"], (P,), body)
            elif p["kind"] == "omit":
                cls = P.omit(*p["names"], class_name=src["name"])
            elif p["kind"] == "pick":
                cls = P.pick(*p["names"], class_name=src["name"])
            elif p["kind"] == "partial":
                cls = Partial[P, src["name"]]
            elif p["kind"] == "allreq":
                from typedpy import AllFieldsRequired
                cls = AllFieldsRequired[P, src["name"]]
            elif p["kind"] == "extend":
                from typedpy import Extend
                cls = Extend[P, src["name"]]
            else:
                raise ValueError(p["kind"])
        self.classes[c] = cls
        self.srcs[c] = src
        return cls

    def wrap_targets(self, c):
        """for every implicit-wrapper field of class c: id of the user class its wrapper checks"""
        cls = self.classes[c]
        out = {}
        fbn = cls.get_all_fields_by_name()
        for f in self.flat_fields(c):
            if "wrap" in f["kind"]:
                fld = fbn.get(f["name"])
                if fld is None:
                    continue
                inner = fld.items if f["kind"].get("arr") else fld
                ty = getattr(inner, "_ty", None)
                out[f["name"]] = getattr(ty, "_verif_id", -1)
        return out

    # ---------------------------------------------------------------- values
    def valid_value(self, f, which=0, depth=0):
        k = f["kind"]
        if "prim" in k:
            v = self.P[k["prim"]][1 + (which % 2)]
        elif "wrap" in k:
            v = self.types[k["wrap"]]()
        elif "refs" in k:
            return [self.instance(c, depth + 1) for c in k["refs"]]
        else:
            v = self.instance(k["ref"], depth + 1)
        if k.get("arr"):
            return [v]
        return v

    def valid_kwargs(self, c, which=0, depth=0):
        return {f["name"]: self.valid_value(f, which, depth) for f in self.flat_fields(c)}

    def required_kwargs(self, c):
        """the minimal instance: only the fields that are neither optional nor defaulted, and every
        Array-of-classes field empty"""
        return {f["name"]: ([] if f["kind"].get("arr") and "ref" in f["kind"] else self.valid_value(f))
                for f in self.flat_fields(c) if not f.get("opt") and not f.get("default")}

    def op_instance(self, c, op):
        if op.get("probe") == "required":
            return self.classes[c](**self.required_kwargs(c))
        if op.get("probe") == "valid1":      # the SECOND valid value of every field (nested instances: the first)
            return self.classes[c](**self.valid_kwargs(c, 1))
        return self.instance(c)

    def instance(self, c, depth=0):
        if depth > 4:
            raise ValueError("too deep")
        return self.classes[c](**self.valid_kwargs(c, 0, depth))

    def alt_values(self, f):
        k = f["kind"]
        alts = [None]
        if "prim" in k:
            alts += [self.P[k["prim"]][3], self.P[k["prim"]][2], object]
        elif "wrap" in k:
            alts += [U() for _, U in sorted(self.types.items())] + [3]
        elif "refs" in k:
            try:
                insts = [self.instance(c, 1) for c in k["refs"]]
                alts += [insts[:1], list(reversed(insts)), insts + insts[:1], 3]
            except Exception:
                alts += [[], 3]
        else:
            alts += [{"zz": 1}, 3]
        if k.get("arr"):
            alts = [a if a is None else [a] for a in alts] + [[], 3]
        return alts

    def probes(self, c):
        fields = self.flat_fields(c)
        out = []
        try:
            base = self.valid_kwargs(c)
            out.append(("valid0", base))
            out.append(("valid1", self.valid_kwargs(c, 1)))
            if any(f.get("opt") or (f["kind"].get("arr") and "ref" in f["kind"]) for f in fields):
                out.append(("required-only", self.required_kwargs(c)))
        except Exception as e:      # a referenced class cannot be instantiated: the minimal instance is still probed
            out = [("novalid:" + err_name(e), None)]
            try:
                out.append(("required-only", self.required_kwargs(c)))
            except Exception as e2:
                out.append(("norequired:" + err_name(e2), None))
            out.append(("empty", {}))
            return out
        for f in fields:
            n = f["name"]
            out.append(("missing:" + n, {k: v for k, v in base.items() if k != n}))
            for i, a in enumerate(self.alt_values(f)):
                kw = dict(self.valid_kwargs(c))
                kw[n] = a
                out.append((f"alt{i}:{n}", kw))
        out.append(("extra", dict(base, zz_extra=1)))
        out.append(("empty", {}))
        return out[:60]

    # ---------------------------------------------------------------- operations
    def use(self, op):
        from typedpy import Deserializer, serialize, create_serializer
        from typedpy.json_schema import structure_to_schema
        c = op["c"]
        cls = self.classes.get(c)
        if cls is None:
            return {"done": False}
        kind = op["op"]
        res = {"done": True}
        try:
            if kind == "construct":
                cls(**({} if op.get("probe") == "empty" else self.required_kwargs(c)
                       if op.get("probe") == "required" else self.valid_kwargs(c, 1 if op.get("probe") == "valid1" else 0)))
            elif kind == "serialize":
                x = self.op_instance(c, op)
                doc = serialize(x, camel_case_convert=bool(op.get("camel")))
                from typedpy.structures import TypedPyDefaults
                if isinstance(doc, dict) and not TypedPyDefaults.compact_serialization_default:
                    res["keys"] = sorted(doc)
                if self.is_fast(c):
                    res["doc"] = self.doc_shape(c, x, x.serialize())
            elif kind == "deserialize":
                camel = bool(op.get("camel"))
                Deserializer(cls, camel_case_convert=camel).deserialize(
                    serialize(self.op_instance(c, op), camel_case_convert=camel))
            elif kind == "trusted":
                Deserializer(cls).deserialize(serialize(self.op_instance(c, op)), direct_trusted_mapping=True)
            elif kind == "toSchema":
                before = sorted(cls._required)
                try:
                    sch = structure_to_schema(cls, {})[0]
                    if isinstance(sch, dict) and sch.get("type") == "object" and "required" in sch:
                        res["schemaRequired"] = sorted(sch["required"])
                finally:
                    res["required"] = sorted(cls._required)
                    res["wrote"] = res["required"] != before
            elif kind == "schemaCode":
                self.schema_code(cls)
            elif kind == "createSerializer":
                flags = {k: bool(v) for k, v in (op.get("flags") or {}).items()}
                create_serializer(cls, **flags)
        except Exception as e:
            res["err"] = err_name(e)
        return res

    def doc_shape(self, c, x, doc):
        """shape of the document of an instance of class c: keys and nesting along the class-reference fields,
        every other value erased"""
        if not isinstance(doc, dict):
            return None if doc is None else "v"
        nested = []
        for f in self.flat_fields(c):
            k = f["kind"]
            if "ref" in k:
                v = getattr(x, f["name"], None)
                if v is None:
                    continue
                cls = self.classes[k["ref"]]
                if k.get("arr"):
                    nested.append((k["ref"], list(v), [cls.serialize(i) for i in v]))
                else:
                    nested.append((k["ref"], v, cls.serialize(v)))
        out = {}
        for key, val in doc.items():
            hit = next((n for n in nested if val is not None and n[2] == val), None)
            if hit is None:
                out[key] = None if val is None else "v"
            elif isinstance(hit[1], list):
                out[key] = [self.doc_shape(hit[0], i, d) for i, d in zip(hit[1], val)]
            else:
                out[key] = self.doc_shape(hit[0], hit[1], val)
        return out

    def set_default(self, flag, value):
        from typedpy import Structure
        if flag == "addProps":
            Structure.set_additional_properties_default(value)
        elif flag == "compact":
            Structure.set_compact_serialization_default(value)
        elif flag == "failFast":
            Structure.set_fail_fast(value)
        else:
            raise ValueError(flag)

    def run_ops(self, ops):
        steps = []
        for op in ops:
            if op["op"] == "define":
                try:
                    self.define(op["c"], op["src"])
                    steps.append({"done": True, "wraps": self.wrap_targets(op["c"])})
                except Exception as e:
                    steps.append({"done": False, "err": err_name(e), "msg": str(e)[:200]})
            elif op["op"] == "setDefault":
                self.set_default(op["flag"], op["value"])
                steps.append({"done": True})
            else:
                steps.append(self.use(op))
            steps[-1]["sers"] = sorted(c for c, k in self.classes.items() if "serialize" in k.__dict__)
        return steps

    # ---------------------------------------------------------------- state snapshot / fingerprint
    def state(self, c):
        from typedpy.serialization.mappers import aggregated_mapper_by_class
        cls = self.classes[c]
        sig = inspect.signature(cls)
        return {
            "required": sorted(cls._required),
            "sigRequired": sorted(n for n, p in sig.parameters.items()
                                  if p.default is inspect.Parameter.empty and p.kind != p.VAR_KEYWORD),
            "kwargs": any(p.kind == p.VAR_KEYWORD for p in sig.parameters.values()),
            "ownSerialize": "serialize" in cls.__dict__,
            "created": bool(cls.__dict__.get("_created_fast_serializer", False)),
            "mapperCached": any(k[0] is cls for k in aggregated_mapper_by_class),
            "wraps": self.wrap_targets(c),
            "fields": [f for f in cls.get_all_fields_by_name()],
        }

    def world_state(self):
        from typedpy import Structure, StructureReference
        from typedpy.structures import TypedPyDefaults
        return {"counter": StructureReference.counter,
                "flags": {"addProps": TypedPyDefaults.additional_properties_default,
                          "compact": TypedPyDefaults.compact_serialization_default,
                          "failFast": Structure.failing_fast()}}

    def fingerprint(self, c):
        """behaviour of class c on a value stream fixed by its declaration"""
        from typedpy import Deserializer, serialize, Serializer
        from typedpy.json_schema import structure_to_schema
        cls = self.classes[c]
        src = self.srcs[c]
        fp = {"required": sorted(cls._required), "wraps": self.wrap_targets(c)}
        accept = []
        instances = []
        for name, kw in self.probes(c):
            if kw is None:
                accept.append([name, "skip"])
                continue
            try:
                x = cls(**kw)
                accept.append([name, {"ok": self.canon(x)}])
                if len(instances) < 3:
                    instances.append(x)
            except Exception as e:
                accept.append([name, err_name(e), canon_msg(e)])
        fp["accept"] = accept
        try:
            fp["signature"] = canon_msg(inspect.signature(cls))
        except Exception as e:
            fp["signature"] = {"err": err_name(e)}

        def attempt(f):
            try:
                return {"ok": f()}
            except Exception as e:
                return {"err": err_name(e), "msg": canon_msg(e)}
        ser = []
        for x in instances:
            r = {}
            r["ser"] = attempt(lambda: self.canon_json(serialize(x)))
            r["compact"] = attempt(lambda: self.canon_json(serialize(x, compact=True)))
            r["camel"] = attempt(lambda: self.canon_json(serialize(x, camel_case_convert=True)))
            r["camelRound"] = attempt(lambda: self.canon(Deserializer(cls, camel_case_convert=True).deserialize(
                serialize(x, camel_case_convert=True))))
            r["serAgain"] = attempt(lambda: self.canon_json(serialize(x)))
            r["Serializer"] = attempt(lambda: self.canon_json(Serializer(x).serialize()))
            if src.get("fast") or self.is_fast(c):
                r["method"] = attempt(lambda: self.canon_json(x.serialize()))
            doc = None
            try:
                doc = serialize(x)
            except Exception:
                pass
            if doc is not None:
                r["deser"] = attempt(lambda: self.canon(Deserializer(cls).deserialize(doc)))
                r["trusted"] = attempt(lambda: self._trusted(cls, doc))
                if isinstance(doc, dict):
                    for k in sorted(doc)[:3]:
                        d2 = {a: b for a, b in doc.items() if a != k}
                        r["deser-" + k] = attempt(lambda: self.canon(Deserializer(cls).deserialize(d2)))
                    r["deser+"] = attempt(lambda: self.canon(Deserializer(cls).deserialize(dict(doc, zz_extra=1))))
            ser.append(r)
        fp["serde"] = ser
        # attribute-level behaviour that reads `_required` / the global defaults at use time
        attr = []
        if instances:
            for f in self.flat_fields(c):
                n = f["name"]
                x = attempt(lambda: cls(**self.valid_kwargs(c)))
                if "ok" not in x:
                    break
                x = x["ok"]

                def set_none():
                    setattr(x, n, None)
                    return self.canon(x)

                def delete():
                    y = cls(**self.valid_kwargs(c))
                    del y[n]
                    return self.canon(y)
                attr.append([n, attempt(set_none), attempt(delete)])

            def set_extra():
                y = cls(**self.valid_kwargs(c))
                y.zz_new = 1
                return self.canon(y)
            attr.append(["+zz_new", attempt(set_extra)])
        fp["attr"] = attr
        return fp

    def fingerprint_schema(self, c, fp):
        """second phase (after phase one of ALL classes): structure_to_schema writes `_required`"""
        from typedpy.json_schema import structure_to_schema
        cls = self.classes[c]
        try:
            fp["schema"] = {"ok": self.canon_json(structure_to_schema(cls, {})[0])}
        except Exception as e:
            fp["schema"] = {"err": err_name(e)}
        fp["requiredAfterSchema"] = sorted(cls._required)
        fp["schemaCode"] = self.schema_code(cls)
        fp["stub"] = self.stub_text(c)

    def shared_export(self, c, shared):
        """structure_to_schema(cls, shared) with a caller-owned accumulator that already holds the definitions other
        classes exported: the schema and, transitively, the definitions its $refs point at in the accumulator"""
        from typedpy.json_schema import structure_to_schema
        try:
            schema, _ = structure_to_schema(self.classes[c], shared)
            seen, todo = {}, [schema]
            while todo:
                node = todo.pop()
                if isinstance(node, dict):
                    ref = node.get("$ref")
                    if isinstance(ref, str) and ref.startswith("#/definitions/"):
                        name = ref[len("#/definitions/"):]
                        if name not in seen:
                            seen[name] = json.loads(json.dumps(shared.get(name), default=str))
                            todo.append(seen[name])
                    todo.extend(node.values())
                elif isinstance(node, list):
                    todo.extend(node)
            return {"ok": self.canon_json({"schema": schema, "defs": seen})}
        except Exception as e:
            return {"err": err_name(e), "msg": canon_msg(e)}

    def stub_text(self, c):
        """the .pyi text typedpy generates for the class, among the classes its definition depends on (the generated
        `serialize` method of a FastSerializable class is not part of the class's definition: its line is dropped)"""
        from typedpy.stubs.type_helpers import get_stubs_of_structures
        from typedpy.structures import TypedPyDefaults
        try:
            need, stack = [], [c]
            while stack:
                d = stack.pop()
                if d in need or d not in self.srcs:
                    continue
                need.append(d)
                p = self.srcs[d].get("parent")
                if p:
                    stack.append(p["c"])
                for f in self.srcs[d]["fields"]:
                    if "ref" in f["kind"]:
                        stack.append(f["kind"]["ref"])
                    stack.extend(f["kind"].get("refs", []))
            attrs = {}
            for d in sorted(need, reverse=True):
                attrs[self.classes[d].__name__] = self.classes[d]
            cls = self.classes[c]
            attrs[cls.__name__] = cls
            # the generated serializer is state, not definition: it is taken off the class while the stub is made
            saved = {k: cls.__dict__[k] for k in ("serialize", "_created_fast_serializer") if k in cls.__dict__}
            for k in saved:
                delattr(cls, k)
            try:
                lines = get_stubs_of_structures({cls.__name__: cls}, attrs, set(),
                                                TypedPyDefaults.additional_properties_default)
            finally:
                for k, v in saved.items():
                    setattr(cls, k, v)
            return {"ok": [canon_msg(l) for l in lines if l.strip()]}
        except Exception as e:
            return {"err": err_name(e), "msg": canon_msg(e)}

    @staticmethod
    def schema_code(cls):
        """schema -> code of the class's own schema (from_json_schema of every field kind)"""
        from typedpy.json_schema import structure_to_schema, schema_to_struct_code
        try:
            schema, defs = structure_to_schema(cls, {})
            if not (isinstance(schema, dict) and schema.get("type") == "object"):
                return {"skip": "not an object schema"}
            return {"ok": schema_to_struct_code("Generated", schema, defs)}
        except Exception as e:
            return {"err": err_name(e)}

    def is_fast(self, c):
        from typedpy.serialization.fast_serialization import FastSerializable
        return issubclass(self.classes[c], FastSerializable)

    def _trusted(self, cls, doc):
        from typedpy import Deserializer
        x = Deserializer(cls).deserialize(doc, direct_trusted_mapping=True)
        return {"trusted": bool(x.__dict__.get("_trust_supplied_values", False)), "v": self.canon(x)}


def run_job(job):
    env = Env(job.get("types", []))
    try:
        if job.get("scoped"):
            env.load_module(job["ops"], job["scoped"].get("mode", "future"))
        return _run_job(env, job)
    finally:
        env.cleanup()


def _run_job(env, job):
    out = {"steps": env.run_ops(job["ops"])}
    out["world"] = env.world_state()
    out["state"] = {str(c): env.state(c) for c in sorted(env.classes)}
    out["fp"] = {}
    for c in job.get("fp", []):
        if c in env.classes:
            out["fp"][str(c)] = env.fingerprint(c)
    for c in job.get("fp", []):
        if c in env.classes:
            env.fingerprint_schema(c, out["fp"][str(c)])
    # third phase: schema export of the classes, in order, into ONE definitions accumulator (the usual way of exporting
    # several classes to one schema file): what a class's $refs resolve to right after its own export
    shared = {}
    for c in job.get("fp", []):
        if c in env.classes:
            out["fp"][str(c)]["sharedExport"] = env.shared_export(c, shared)
    return out


def prim_table():
    """introspected properties of the primitive vocabulary: can `create_serializer` handle a class whose
    only field has this tag; does `_structure_simplicity_level` accept it (run in a pristine child)"""
    from typedpy import Structure
    from typedpy.serialization.fast_serialization import FastSerializable, create_serializer
    from typedpy.serialization import serialization as S
    env = Env([])
    table = {}
    for tag in range(N_PRIMS):
        row = {"inlines": INLINES.get(tag, 0), "defaultable": tag in DEFAULTABLE}
        try:
            cls = type("T", (Structure, FastSerializable), {"a": env.P[tag][0](False)})
            create_serializer(cls)
            row["fastOk"] = True
        except Exception:
            row["fastOk"] = False
        try:
            cls = type("T", (Structure,), {"a": env.P[tag][0](False)})
            row["trustedOk"] = bool(S._structure_simplicity_level(cls))
        except Exception:
            row["trustedOk"] = False
        row["schemaOk"] = _schema_ok(lambda: env.P[tag][0](False))
        table[str(tag)] = row

    class U:
        pass
    plain = type("PlainRef", (Structure,), {"a": env.P[0][0](False)})
    from typedpy import Array, Field
    plain2 = type("PlainRef2", (Structure,), {"a": env.P[2][0](False)})
    for name, mk in (("wrap", lambda: Field[U]), ("wrapArr", lambda: Array[U]),
                     ("ref", lambda: plain), ("refArr", lambda: Array[plain]),
                     ("refs", lambda: Array(items=[plain, plain2]))):
        row = {"inlines": 0, "defaultable": False}
        try:
            cls = type("T", (Structure, FastSerializable), {"a": mk()})
            create_serializer(cls)
            row["fastOk"] = True
        except Exception:
            row["fastOk"] = False
        row["trustedOk"] = False
        if name.startswith("wrap"):
            try:
                cls = type("T", (Structure,), {"a": mk()})
                row["trustedOk"] = bool(S._structure_simplicity_level(cls))
            except Exception:
                row["trustedOk"] = False
        row["schemaOk"] = _schema_ok(mk)
        table[name] = row
    return table


def _schema_ok(mk):
    from typedpy import Structure, Integer
    from typedpy.json_schema import structure_to_schema
    try:
        cls = type("T", (Structure,), {"a": mk(), "b": Integer()})
        structure_to_schema(cls, {})
        return True
    except Exception:
        return False


def serve():
    import logging
    logging.disable(logging.CRITICAL)      # typedpy's stub generator logs the exceptions it re-raises
    import typedpy  # noqa: F401  (the pristine state every job starts from)
    import typedpy.json_schema  # noqa: F401
    out = sys.stdout
    for line in sys.stdin:
        line = line.strip()
        if not line:
            continue
        job = json.loads(line)
        r, w = os.pipe()
        pid = os.fork()
        if pid == 0:
            os.close(r)
            try:
                if job.get("job") == "prims":
                    res = {"prims": prim_table()}
                else:
                    res = run_job(job)
            except BaseException as e:   # report, never hang the parent
                import traceback
                res = {"harness_exc": f"{type(e).__name__}: {e}", "tb": traceback.format_exc()[-1500:]}
            data = json.dumps(res, default=str).encode()
            with os.fdopen(w, "wb") as f:
                f.write(data)
            os._exit(0)
        os.close(w)
        with os.fdopen(r, "rb") as f:
            data = f.read()
        os.waitpid(pid, 0)
        out.write((data.decode() if data else json.dumps({"harness_exc": "child died"})) + "\n")
        out.flush()


if __name__ == "__main__":
    serve()
