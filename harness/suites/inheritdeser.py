"""
Oracle-only cases for C06 over INHERITANCE (the Lean declarations are flat): class hierarchies - chains,
several unrelated bases, diamonds - in which a field may be re-declared (with another type or other
constraints) at any class of the hierarchy.  For the most derived class and JSON-native documents (where the
documented JSON form of the keyword arguments is the document itself) the Deserializer must behave as the
constructor: accept exactly when it accepts, with an equal instance.
"""
import random

from typedpy import Structure, Integer, String, Boolean, Array, Number, Deserializer

FIELD_POOL = [
    ("int", lambda: Integer()), ("int>=0", lambda: Integer(minimum=0)), ("int<=3", lambda: Integer(maximum=3)),
    ("str", lambda: String()), ("str>=2", lambda: String(minLength=2)), ("str<=1", lambda: String(maxLength=1)),
    ("bool", lambda: Boolean()), ("num", lambda: Number()), ("ints", lambda: Array[Integer]), ("strs", lambda: Array[String]),
]
VALUES = [0, 5, -3, 100, "abc", "x", "", True, [1, 2], ["a"], 2.5, [], "ab"]
NAMES = ["id", "name", "tag", "size"]
SHAPES = ["chain2", "chain3", "two-bases", "diamond", "diamond-deep"]


def gen_cases(rng, n):
    out = []
    for ci in range(n):
        shape = SHAPES[ci % len(SHAPES)]
        n_cls = {"chain2": 2, "chain3": 3, "two-bases": 3, "diamond": 4, "diamond-deep": 5}[shape]
        names = rng.sample(NAMES, rng.randint(2, 3))
        # per class: which names it declares (index into FIELD_POOL); the root declares all of them
        decls = []
        for k in range(n_cls):
            d = {}
            for nm in names:
                if k == 0 or rng.random() < 0.35:
                    d[nm] = rng.randrange(len(FIELD_POOL))
            decls.append(d)
        docs = []
        for _ in range(10):
            docs.append({nm: rng.randrange(len(VALUES)) for nm in names if rng.random() < 0.9})
        out.append({"suite": "inheritdeser", "shape": shape, "decls": decls, "docs": docs,
                    "required": [nm for nm in names if rng.random() < 0.5], "addl": rng.random() < 0.5})
    return out


def directed_cases():
    """every diamond position x (override kind) for one overridden field: the override sits in the root, the first
    base, the second base, or the most derived class"""
    out = []
    for where in range(4):
        for a, b in ((0, 3), (3, 0), (1, 2), (4, 5), (0, 7), (8, 9)):
            decls = [{"id": a, "name": 3}, {}, {}, {}]
            decls[where] = dict(decls[where], id=b)
            docs = [{"id": vi, "name": 4} for vi in range(len(VALUES))]
            out.append({"suite": "inheritdeser", "shape": "diamond", "decls": decls, "docs": docs, "required": ["id"], "addl": False})
    return out


def build(case):
    decls, shape = case["decls"], case["shape"]
    body = lambda k, extra=None: {**{nm: FIELD_POOL[fi][1]() for nm, fi in decls[k].items()}, **(extra or {})}
    root = type("R", (Structure,), body(0, {"_required": list(case["required"]), "_additional_properties": case["addl"]}))
    if shape == "chain2":
        return type("C", (root,), body(1))
    if shape == "chain3":
        mid = type("M", (root,), body(1))
        return type("C", (mid,), body(2))
    if shape == "two-bases":
        other = type("O", (Structure,), {**body(1), "_required": []})
        return type("C", (root, other), body(2))
    a = type("A", (root,), body(1))
    b = type("B", (root,), body(2))
    if shape == "diamond":
        return type("C", (a, b), body(3))
    c = type("C0", (a, b), body(3))
    return type("C", (c,), body(4))


def _outcome(f):
    try:
        return {"ok": f()}
    except Exception as e:
        return {"err": type(e).__name__, "msg": str(e)[:160]}


def run_impl(case):
    try:
        cls = build(case)
    except Exception as e:
        return {"skip": f"class: {type(e).__name__}: {e}"[:200]}
    steps = []
    for doc in case["docs"]:
        kw = {nm: VALUES[vi] for nm, vi in doc.items()}
        c = _outcome(lambda: cls(**{k: (list(v) if isinstance(v, list) else v) for k, v in kw.items()}))
        d = _outcome(lambda: Deserializer(cls).deserialize({k: (list(v) if isinstance(v, list) else v) for k, v in kw.items()}, keep_undefined=False))
        st = {"doc": repr(kw)[:160], "ctor": c.get("err", "ok"), "deser": d.get("err", "ok")}
        if "ok" in c and "ok" in d:
            st["equal"] = bool(c["ok"] == d["ok"]) and str(c["ok"]) == str(d["ok"])
            st["ctor_str"], st["deser_str"] = str(c["ok"])[:160], str(d["ok"])[:160]
        else:
            st["msg"] = (d.get("msg") or c.get("msg") or "")[:160]
        steps.append(st)
    return {"steps": steps, "mro": [k.__name__ for k in cls.__mro__[:-2]]}


def judge(case, impl):
    if "skip" in impl:
        return []
    fails = []
    for st in impl.get("steps", []):
        c, d = st["ctor"], st["deser"]
        if c == "ok" and d != "ok":
            fails.append((f"rejects-image:inherit:{case['shape']}", f"the constructor accepts {st['doc']} but the Deserializer raises {d}: {st['msg']}"))
        elif c != "ok" and d == "ok":
            fails.append((f"accepts-non-image:inherit:{case['shape']}", f"the constructor rejects {st['doc']} ({c}) but the Deserializer accepts it"))
        elif c == "ok" and not st.get("equal"):
            fails.append((f"differs-from-constructor:inherit:{case['shape']}", f"{st['doc']}: Deserializer gives {st['deser_str']}, the constructor {st['ctor_str']}"))
        if d not in ("ok", "TypeError", "ValueError"):
            fails.append((f"error-class:inherit:{d}", f"Deserializer raised {d} for {st['doc']}: {st.get('msg')}"))
    return fails
