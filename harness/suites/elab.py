"""
Suite `elab` (C13): one case = one class body (1-3 fields, each an abstract *meaning* tree) written in
several *spellings* (variants): annotation vs assignment, field class vs instance, builtin / typing /
PEP-585 / PEP-604 vs typedpy fields at every node, `= v` vs `default=v`, `Optional[T]` vs
`AnyOf[T, None]` + `_optional`, with and without `from __future__ import annotations`.

Every variant is rendered to class SOURCE TEXT, executed in a fresh module registered in
`sys.modules`, dumped (`dump_class`) and run on one shared stream of keyword arguments (real
constructor + `Serializer`).  The Lean driver runs `Sem/Elaborate.elabClass` (correspondence) and
`Spec/Meaning.fieldMeaning` (documented meaning) on the same variants.
"""
import importlib.util
import itertools
import json
import os
import sys
import types
import typing

from .. import dump, gen
from .construct import make_ctx, err_name, fix_accepts

SCALARS = ["int", "str", "float", "bool", "any"]
COLLS = ["list", "set", "frozenset", "deque"]
SC_BUILTIN = {"int": "int", "str": "str", "float": "float", "bool": "bool", "any": "Any"}
SC_CLS = {"int": "Integer", "str": "String", "float": "Float", "bool": "Boolean", "any": "Anything"}
SC_DECL = {"int": {"k": "integer"}, "str": {"k": "string"}, "float": {"k": "float"}, "bool": {"k": "boolean"},
           "any": {"k": "anything"}}
# `tuple` has parametrised forms only (bare `tuple` / `Tuple` raise TypeError: Tuple requires items)
CO_BUILTIN = {"list": "list", "set": "set", "frozenset": "frozenset", "deque": "deque", "tuple": "tuple"}
CO_TYPING = {"list": "List", "set": "typing.Set", "frozenset": "FrozenSet", "deque": "typing.Deque",
             "tuple": "typing.Tuple"}
CO_CLS = {"list": "Array", "set": "Set", "frozenset": "ImmutableSet", "deque": "Deque", "tuple": "Tuple"}

STRUCTS_MODULE = "_verif_c13_structs"
STRUCTS_SRC = """from typedpy import Structure


class Owner(Structure):
    name: str


class Point(Structure):
    x: int
    y: int = 0
"""
STRUCT_NAMES = ["Owner", "Point"]
_STRUCT_DECLS = {}


def structs_module():
    """the Structure classes that spellings may name: ONE helper module, registered in sys.modules and imported by every
    variant's prelude, so that all variants of a case (and the shared value stream) talk about the same classes"""
    mod = sys.modules.get(STRUCTS_MODULE)
    if mod is None:
        mod = types.ModuleType(STRUCTS_MODULE)
        mod.__file__ = STRUCTS_MODULE + ".py"
        sys.modules[STRUCTS_MODULE] = mod
        exec(compile(STRUCTS_SRC, STRUCTS_MODULE + ".py", "exec"), mod.__dict__)  # pylint: disable=exec-used
    return mod


def struct_decl(name):
    """wire declaration of a pool class, dumped from the real class"""
    if name not in _STRUCT_DECLS:
        mod = structs_module()
        ctx = dump.Ctx()
        for n in STRUCT_NAMES:
            ctx.classes[n] = getattr(mod, n)
        d = fix_accepts(dump.dump_class(getattr(mod, name), ctx))
        _STRUCT_DECLS[name] = json.loads(json.dumps(d))
    return json.loads(json.dumps(_STRUCT_DECLS[name]))


PRELUDE = """import typing
from collections import deque
from typing import Optional, Union, List, Dict, FrozenSet, Any
from _verif_c13_structs import Owner, Point
from typedpy import (Structure, Integer, String, Float, Boolean, Anything, Number, Enum, Array, Set, ImmutableSet,
                     Deque, Tuple, Map, AnyOf, PositiveInt, NegativeInt, NonPositiveInt, NonNegativeInt, PositiveFloat,
                     NegativeFloat, NonPositiveFloat, NonNegativeFloat, Positive, Negative, NonPositive, NonNegative)
import itertools as _it


def _ctr(start):        # default factories: stateful, so that "evaluated per instance" is observable
    c = _it.count(start)
    return lambda: next(c)


def _fctr(start):
    c = _it.count(start)
    return lambda: next(c) + 0.5


def _sctr(start):
    c = _it.count(start)
    return lambda: f"s{next(c)}"


def _lctr(start):
    c = _it.count(start)
    return lambda: [next(c)]


def _tctr(start):
    c = _it.count(start)
    return lambda: (next(c),)


def _setctr(start):
    c = _it.count(start)
    return lambda: {next(c)}


def _dctr(start):
    c = _it.count(start)
    return lambda: {"k": next(c)}


def _octr(start):       # products are INSTANCES of a Structure class: Owner(name="n<k>")
    c = _it.count(start)
    return lambda: Owner(name=f"n{next(c)}")


def _olctr(start):
    c = _it.count(start)
    return lambda: [Owner(name=f"n{next(c)}")]
"""



# ------------------------------------------------------------------ meanings

def meaning_decl(m):
    """documented meaning of a meaning tree as a wire declaration (mirrors Spec/Meaning.denote)"""
    t = m["m"]
    if t == "scalar":
        return dict(SC_DECL[m["k"]])
    if t == "lit":
        return m["d"]
    if t == "bare":
        return _coll_decl(m["c"], None)
    if t == "coll":
        return _coll_decl(m["c"], meaning_decl(m["x"]))
    if t == "bareDict":
        return {"k": "mapAny"}
    if t == "dict":
        return {"k": "mapOf", "key": meaning_decl(m["x"]), "val": meaning_decl(m["y"])}
    if t == "opt":
        return {"k": "anyOf", "fields": [meaning_decl(m["x"]), {"k": "noneF"}]}
    if t == "alt":
        return {"k": "anyOf", "fields": [meaning_decl(m["x"]), meaning_decl(m["y"])]}
    if t == "altlit":      # documented: `X | 529` - the literal is one more alternative (an Enum of that value)
        return {"k": "anyOf", "fields": [meaning_decl(m["x"]), {"k": "enumLit", "values": [m["v"]]}]}
    if t == "struct":      # a Structure class used as a field type: a reference to that class
        return struct_decl(m["c"])
    if t == "tup":         # documented: Tuple[X, Y] = a tuple of exactly that shape
        return {"k": "tuplePos", "items": [meaning_decl(m["x"]), meaning_decl(m["y"])]}
    raise ValueError(t)


def _coll_decl(c, item):
    if c == "tuple":     # documented: Tuple[X] = a tuple of any number of X
        return {"k": "tupleOf", "item": item}
    if c in ("list", "deque"):
        d = {"k": "seqAny" if item is None else "seqOf"}
        if c == "deque":
            d["seq"] = "deque"
    else:
        d = {"k": "setAny" if item is None else "setOf"}
        if c == "frozenset":
            d["imm"] = True
    if item is not None:
        d["item"] = item
    return d


def gen_lit(rng, dg):
    k = rng.choice(["integer", "integer", "string", "string", "float", "number", "enumLit"])
    for _ in range(10):
        d = dg.scalar(k)
        if k == "enumLit":
            d["values"] = [v for v in d["values"] if isinstance(v, (int, str)) and not isinstance(v, bool)] or [1, "a"]
        if len(d) > 1 or k == "number":
            return d
    if k in ("integer", "float", "number"):
        d["min"] = [1, 1]
    elif k == "string":
        d["maxLength"] = 3
    return d


def gen_hashable(rng, dg):
    r = rng.random()
    if r < 0.6:
        return {"m": "scalar", "k": rng.choice(["int", "str", "float", "bool"])}
    d = gen_lit(rng, dg)
    return {"m": "lit", "d": d}


def top_tag(m):
    return m["m"] + ":" + str(m.get("k") or m.get("c") or (m.get("d") or {}).get("k") or "")


def gen_meaning(rng, dg, depth, allow_opt=True):
    r = rng.random()
    if depth <= 0 or r < 0.3:
        q = rng.random()
        if q < 0.45:
            return {"m": "scalar", "k": rng.choice(SCALARS)}
        if q < 0.78:
            return {"m": "lit", "d": gen_lit(rng, dg)}
        if q < 0.87:
            return {"m": "struct", "c": rng.choice(STRUCT_NAMES)}
        if q < 0.96:
            return {"m": "bare", "c": rng.choice(COLLS)}
        return {"m": "bareDict"}
    if r < 0.5:
        c = rng.choice(["list", "list", "set", "frozenset", "deque", "tuple"])
        x = gen_hashable(rng, dg) if c in ("set", "frozenset") else gen_meaning(rng, dg, depth - 1)
        return {"m": "coll", "c": c, "x": x}
    if r < 0.56:
        return {"m": "tup", "x": gen_meaning(rng, dg, depth - 1), "y": gen_meaning(rng, dg, depth - 1)}
    if r < 0.6:        # `X | 529`, `X | "abc"`: a literal alternative
        x = gen_meaning(rng, dg, depth - 1, allow_opt=False)
        return {"m": "altlit", "x": x, "v": rng.choice([529, 0, -3, "abc", "", True, gen.fl(gen.Fraction(5, 2))])}
    if r < 0.72:
        return {"m": "dict", "x": gen_hashable(rng, dg), "y": gen_meaning(rng, dg, depth - 1)}
    if r < 0.86 and allow_opt:
        x = gen_meaning(rng, dg, depth - 1, allow_opt=False)
        if x["m"] in ("opt", "alt") and rng.random() < 0.8:
            x = {"m": "scalar", "k": rng.choice(SCALARS[:4])}
        return {"m": "opt", "x": x}
    if rng.random() < 0.06:   # the same alternative twice: typing collapses `Union[int, int]`
        x = {"m": "scalar", "k": rng.choice(SCALARS[:4])}
        return {"m": "alt", "x": x, "y": dict(x)}
    x = gen_meaning(rng, dg, depth - 1, allow_opt=False)
    y = gen_meaning(rng, dg, depth - 1, allow_opt=False)
    for _ in range(6):
        if top_tag(y) != top_tag(x):
            break
        y = gen_meaning(rng, dg, depth - 1, allow_opt=False)
    if top_tag(y) == top_tag(x):
        x, y = {"m": "scalar", "k": "int"}, {"m": "scalar", "k": "str"}
    if rng.random() < 0.75:   # mostly no directly nested alternatives (typing flattens them)
        if x["m"] in ("opt", "alt"):
            x = {"m": "scalar", "k": "float"} if top_tag(y) != "scalar:float" else {"m": "scalar", "k": "bool"}
        if y["m"] in ("opt", "alt"):
            y = {"m": "scalar", "k": "str"} if top_tag(x) != "scalar:str" else {"m": "scalar", "k": "int"}
    if allow_opt:    # a None alternative that is not the last one / nested: Union[A, None, B], A | None | B
        r2 = rng.random()
        if r2 < 0.12 and x["m"] not in ("opt", "alt"):
            x = {"m": "opt", "x": x}
        elif r2 < 0.2 and y["m"] not in ("opt", "alt"):
            y = {"m": "opt", "x": y}
    return {"m": "alt", "x": x, "y": y}


# ------------------------------------------------------------------ spellings

def is_field_expr(sp):
    s = sp["s"]
    if s in ("fcls", "finst", "lit", "bareCls", "bareInst", "sub", "call", "mapBare", "mapInst", "mapSub", "mapCall",
             "anyOf", "tupSub", "tupCall"):
        return True
    if s in ("pipe", "pipeLit"):
        return is_field_expr(sp["x"])
    return False


def is_field_or_struct(sp):
    """what `items=` and a plain assignment are documented to take: a Field (class or instance) or a Structure class"""
    return is_field_expr(sp) or sp["s"] == "scls"


def is_plain(sp):
    """evaluates to a builtin class / PEP-585 alias / PEP-604 union of such (supports type.__or__)"""
    return ev_kind(sp) == "plain"


def ev_kind(sp):
    """what kind of Python object the expression evaluates to, as far as the `|` operator cares:
    'none', 'field_cls', 'field_inst', 'plain' (builtin class, typing.Any, PEP-585 alias, types.UnionType),
    'typing' (typing alias / typing.Union)"""
    s = sp["s"]
    if s == "none":
        return "none"
    if s in ("fcls", "bareCls", "mapBare"):
        return "field_cls"
    if is_field_expr(sp):
        return "field_inst"
    if s in ("builtin", "bareBuiltin", "dictBare", "pep585", "dict585", "scls", "tup585"):
        return "plain"          # (a Structure class has no `|` of its own: type.__or__)
    if s in ("pipe", "union") and same_type_obj(sp["x"], sp["y"]):
        return ev_kind(sp["x"])          # `Union[bool, bool]` / `bool | bool` IS `bool`
    if s == "pipe":
        kx, ky = ev_kind(sp["x"]), ev_kind(sp["y"])
        return "typing" if "typing" in (kx, ky) else "plain"
    return "typing"


def pipe_ok(x, y):
    """Python and typedpy accept `x | y` (no TypeError from the operator itself)"""
    kx, ky = ev_kind(x), ev_kind(y)
    if kx in ("field_cls", "field_inst") or kx == "typing":
        return True
    if kx == "plain":
        return ky != "field_inst"
    if kx == "none":
        return ky in ("plain", "typing", "field_cls")
    return False


def typing_members(sp):
    """flattened members of the typing-level union the expression evaluates to (None: not such a union)"""
    s = sp["s"]
    if s == "optional":
        return _flat(sp["x"]) + ["none"]
    if s == "union" or (s == "pipe" and not is_field_expr(sp["x"])):
        return _flat(sp["x"]) + _flat(sp["y"])
    return None


def _flat(sp):
    if sp["s"] == "none":
        return ["none"]
    ms = typing_members(sp)
    return ms if ms is not None else [sp]


def auto_optional(mode, ty):
    """typedpy is documented to make the field optional by itself: an annotation that is a typing / PEP-604 union
    with a None member (in any position)"""
    if mode != "ann" or is_field_expr(ty):
        return False
    ms = typing_members(ty)
    return ms is not None and "none" in ms


def meaning_has_top_none(m):
    """None is one of the top-level alternatives of the meaning (possibly through nested alternatives)"""
    if m["m"] == "opt":
        return True
    if m["m"] == "alt":
        return meaning_has_top_none(m["x"]) or meaning_has_top_none(m["y"])
    return False


STYLES = ["native", "builtin", "typing", "call", "inst", "pep604"]


def spell(m, rng, style):
    """one spelling of meaning m; style fixes the form at every node ('mix' = random form per node)"""
    t = m["m"]
    st = style if style != "mix" else rng.choice(STYLES)
    if t == "scalar":
        form = {"native": "fcls", "builtin": "builtin", "typing": "builtin", "call": "finst", "inst": "finst",
                "pep604": "builtin"}[st]
        return {"s": form, "k": m["k"]}
    if t == "lit":
        return {"s": "lit", "d": m["d"], "len": 0}
    if t == "bare":
        form = {"native": "bareCls", "builtin": "bareBuiltin", "typing": "bareTyping", "call": "bareInst",
                "inst": "bareInst", "pep604": "bareBuiltin"}[st]
        return {"s": form, "c": m["c"]}
    if t == "bareDict":
        form = {"native": "mapBare", "builtin": "dictBare", "typing": "tDictBare", "call": "mapInst",
                "inst": "mapInst", "pep604": "dictBare"}[st]
        return {"s": form}
    if t == "struct":
        return {"s": "scls", "c": m["c"], "d": struct_decl(m["c"]), "len": len(m["c"])}
    if t == "coll":
        form = {"native": "sub", "builtin": "pep585", "typing": "typingG", "call": "call", "inst": "sub",
                "pep604": "pep585"}[st]
        x = spell(m["x"], rng, style)
        if form == "call" and not is_field_or_struct(x):
            x = spell(m["x"], rng, rng.choice(["native", "call", "inst"]))
            if not is_field_or_struct(x):
                form = "sub"
        return {"s": form, "c": m["c"], "x": x}
    if t == "dict":
        form = {"native": "mapSub", "builtin": "dict585", "typing": "dictTyping", "call": "mapCall", "inst": "mapSub",
                "pep604": "dict585"}[st]
        x, y = spell(m["x"], rng, style), spell(m["y"], rng, style)
        if form == "mapCall" and not (is_field_or_struct(x) and is_field_or_struct(y)):
            x = spell(m["x"], rng, rng.choice(["native", "call", "inst"]))
            y = spell(m["y"], rng, rng.choice(["native", "call", "inst"]))
            if not (is_field_or_struct(x) and is_field_or_struct(y)):
                form = "mapSub"
        return {"s": form, "x": x, "y": y}
    if t == "altlit":
        # the left operand must be a Field (class or instance) for `|` with a plain value to be defined
        x = spell(m["x"], rng, style)
        if not is_field_expr(x):
            x = spell(m["x"], rng, rng.choice(["native", "call", "inst"]))
        enum = {"s": "lit", "d": {"k": "enumLit", "values": [m["v"]]}, "len": 0}
        if is_field_expr(x) and st in ("inst", "pep604", "builtin", "typing"):
            return {"s": "pipeLit", "x": x, "v": m["v"], "len": len(py_literal(m["v"]))}
        return {"s": "anyOf", "x": x, "y": enum}
    if t == "tup":
        form = {"native": "tupSub", "builtin": "tup585", "typing": "tupTyping", "call": "tupCall", "inst": "tupSub",
                "pep604": "tup585"}[st]
        x, y = spell(m["x"], rng, style), spell(m["y"], rng, style)
        if form == "tupCall" and not (is_field_or_struct(x) and is_field_or_struct(y)):
            x = spell(m["x"], rng, rng.choice(["native", "call", "inst"]))
            y = spell(m["y"], rng, rng.choice(["native", "call", "inst"]))
            if not (is_field_or_struct(x) and is_field_or_struct(y)):
                form = "tupSub"
        return {"s": form, "x": x, "y": y}
    if t == "opt":
        x = spell(m["x"], rng, style)
        form = {"native": "anyOf", "builtin": "optional", "typing": "optional", "call": "anyOf", "inst": "pipe",
                "pep604": "pipe"}[st]
        if style == "typing" and rng.random() < 0.3:
            form = "union"
        none_first = st != "native" and rng.random() < 0.4     # Union[None, X] / None | X / AnyOf[None, X]
        if form == "optional":
            if not none_first:
                return {"s": "optional", "x": x}
            form = "union"
        if none_first:
            if form == "pipe" and not pipe_ok({"s": "none"}, x):
                form = "union"
            return {"s": form, "x": {"s": "none"}, "y": x}
        if form == "pipe" and not pipe_ok(x, {"s": "none"}):
            form = "union"
        return {"s": form, "x": x, "y": {"s": "none"}}
    if t == "alt":
        x, y = spell(m["x"], rng, style), spell(m["y"], rng, style)
        form = {"native": "anyOf", "builtin": "union", "typing": "union", "call": "anyOf", "inst": "pipe",
                "pep604": "pipe"}[st]
        if form == "pipe" and not pipe_ok(x, y):
            form = "union"
        return {"s": form, "x": x, "y": y}
    raise ValueError(t)


def py_literal(v):
    """source text of a scalar wire value"""
    if isinstance(v, dict) and "f" in v:
        return repr(float(gen.Fraction(v["f"][0], v["f"][1])))
    return repr(v)


def lit_source(d, default=None):
    """source text of a Field instance literal"""
    k = d["k"]
    args = []
    if k in ("integer", "number", "float"):
        name = dump.SIGN_CLASSES[(k, d.get("sign", "any"))].__name__
        if d.get("mult") is not None:
            args.append(f"multiplesOf={d['mult']}")
        for key, kw, fl in (("min", "minimum", "minFloat"), ("max", "maximum", "maxFloat")):
            if d.get(key) is not None:
                fr = gen.Fraction(d[key][0], d[key][1])
                val = repr(float(fr)) if (d.get(fl) or fr.denominator != 1) else repr(fr.numerator)
                args.append(f"{kw}={val}")
        if d.get("excl"):
            args.append("exclusiveMaximum=True")
    elif k == "string":
        name = "String"
        for key in ("minLength", "maxLength", "pattern"):
            if d.get(key) is not None:
                args.append(f"{key}={d[key]!r}")
    elif k == "enumLit":
        name = "Enum"
        args.append("values=[" + ", ".join(py_literal(v) for v in d["values"]) + "]")
    else:
        raise ValueError(f"lit_source: {k}")
    if default is not None:
        args.append("default=" + default)
    return f"{name}({', '.join(args)})"


def render(sp, default=None):
    """source text of a spelling, formatted the way `ast.unparse` does (that is what
    `from __future__ import annotations` stores); `default` = literal text for a `default=` keyword"""
    s = sp["s"]
    kw = "" if default is None else "default=" + default
    if s == "builtin":
        return SC_BUILTIN[sp["k"]]
    if s == "fcls":
        return SC_CLS[sp["k"]]
    if s == "finst":
        return f"{SC_CLS[sp['k']]}({kw})"
    if s == "lit":
        return lit_source(sp["d"], default)
    if s == "none":
        return "None"
    if s == "bareBuiltin":
        return CO_BUILTIN[sp["c"]]
    if s == "bareTyping":
        return CO_TYPING[sp["c"]]
    if s == "bareCls":
        return CO_CLS[sp["c"]]
    if s == "bareInst":
        return f"{CO_CLS[sp['c']]}({kw})"
    if s == "pep585":
        return f"{CO_BUILTIN[sp['c']]}[{render(sp['x'])}]"
    if s == "typingG":
        return f"{CO_TYPING[sp['c']]}[{render(sp['x'])}]"
    if s == "sub":
        return f"{CO_CLS[sp['c']]}[{render(sp['x'])}]"
    if s == "call":
        return f"{CO_CLS[sp['c']]}(items={render(sp['x'])}{', ' + kw if kw else ''})"
    if s == "dictBare":
        return "dict"
    if s == "tDictBare":
        return "Dict"
    if s == "mapBare":
        return "Map"
    if s == "mapInst":
        return f"Map({kw})"
    if s == "dict585":
        return f"dict[{render(sp['x'])}, {render(sp['y'])}]"
    if s == "dictTyping":
        return f"Dict[{render(sp['x'])}, {render(sp['y'])}]"
    if s == "mapSub":
        return f"Map[{render(sp['x'])}, {render(sp['y'])}]"
    if s == "mapCall":
        return f"Map(items=[{render(sp['x'])}, {render(sp['y'])}]{', ' + kw if kw else ''})"
    if s == "optional":
        return f"Optional[{render(sp['x'])}]"
    if s == "union":
        return f"Union[{render(sp['x'])}, {render(sp['y'])}]"
    if s == "anyOf":
        return f"AnyOf[{render(sp['x'])}, {render(sp['y'])}]"
    if s == "pipe":
        r = render(sp["y"])
        if sp["y"]["s"] in ("pipe", "pipeLit"):
            r = f"({r})"
        return f"{render(sp['x'])} | {r}"
    if s == "scls":
        return sp["c"]
    if s == "pipeLit":
        return f"{render(sp['x'])} | {py_literal(sp['v'])}"
    if s == "tup585":
        return f"tuple[{render(sp['x'])}, {render(sp['y'])}]"
    if s == "tupTyping":
        return f"typing.Tuple[{render(sp['x'])}, {render(sp['y'])}]"
    if s == "tupSub":
        return f"Tuple[{render(sp['x'])}, {render(sp['y'])}]"
    if s == "tupCall":
        return f"Tuple(items=[{render(sp['x'])}, {render(sp['y'])}]{', ' + kw if kw else ''})"
    raise ValueError(s)


def fill_lens(sp, default=None):
    """set the source length of every `lit` leaf (the top one includes a `default=` keyword)"""
    if sp["s"] == "lit":
        sp["len"] = len(lit_source(sp["d"], default))
    for k in ("x", "y"):
        if k in sp:
            fill_lens(sp[k])
    return sp


KW_ALLOWED = ("finst", "lit", "bareInst", "call", "mapCall", "mapInst", "tupCall")


def dflt_text(dflt):
    """source text of a default: a literal, or the expression creating a fresh factory"""
    return dflt["src"] if "src" in dflt else py_literal(dflt["v"])


def is_factory(dflt):
    return bool(dflt) and dflt["how"] in ("eqF", "kwF")


def field_source(f):
    dflt = f.get("dflt")
    kw = dflt_text(dflt) if dflt and dflt["how"] in ("kw", "kwF") else None
    text = render(f["ty"], kw)
    if f["mode"] == "ann":
        line = f"{f['name']}: {text!r}" if f.get("quoted") else f"{f['name']}: {text}"
        if dflt and dflt["how"] in ("eq", "eqF"):
            line += " = " + dflt_text(dflt)
        return line, text
    return f"{f['name']} = {text}", text


def factory_for(m, rng):
    """a stateful default factory whose products are all valid for meaning m: {'src', 'v' (first product)}"""
    start = 0 if rng.random() < 0.15 else rng.choice([1, 7, 100])
    t = m["x"] if m["m"] == "opt" else m
    if t["m"] == "alt":
        t = t["x"]
    if t["m"] == "scalar":
        k = t["k"]
        if k in ("int", "any"):
            return {"src": f"_ctr({start})", "v": start}
        if k == "float":
            return {"src": f"_fctr({start})", "v": {"f": [2 * start + 1, 2]}}
        if k == "str":
            return {"src": f"_sctr({start})", "v": f"s{start}"}
        return None
    owner = {"m": "struct", "c": "Owner"}
    if t == owner:
        return {"src": f"_octr({start})", "v": {"o": ["Owner", [["name", f"n{start}"]]]}}
    if t["m"] == "coll" and t["x"] == owner and t["c"] == "list":
        return {"src": f"_olctr({start})", "v": {"l": [{"o": ["Owner", [["name", f"n{start}"]]]}]}}
    int_elem = {"m": "scalar", "k": "int"}
    if t["m"] == "coll" and t["x"] == int_elem and t["c"] in ("list", "tuple", "set"):
        tag, fn = {"list": ("l", "_lctr"), "tuple": ("t", "_tctr"), "set": ("s", "_setctr")}[t["c"]]
        return {"src": f"{fn}({start})", "v": {tag: [start]}}
    if t["m"] == "bare" and t["c"] == "list":
        return {"src": f"_lctr({start})", "v": {"l": [start]}}
    if t["m"] == "dict" and t["x"] == {"m": "scalar", "k": "str"} and t["y"] == int_elem:
        return {"src": f"_dctr({start})", "v": {"m": [["k", start]]}}
    if t["m"] == "bareDict":
        return {"src": f"_dctr({start})", "v": {"m": [["k", start]]}}
    return None


def _indent(text, n):
    return "\n".join((" " * n + l) if l.strip() else l for l in text.split("\n"))


def variant_source(v):
    """source text of the module that declares class K.  Scope of the class statement relative to the names its
    annotations use (typedpy / typing imports, factory helpers): 'module' - all at module level; 'function' - names
    and class inside one function; 'nested' - the same, one function deeper; 'enclosing' - names are locals of the
    outer function, the class statement is in the inner one."""
    scope = v.get("scope", "module")
    body = ["class K(Structure):"]
    opt = [f["name"] for f in v["fields"] if f.get("inOptional")]
    for f in v["fields"]:
        body.append("    " + field_source(f)[0])
    if opt:
        body.append(f"    _optional = {opt!r}")
    if v.get("required") is not None:
        body.append(f"    _required = {list(v['required'])!r}")
    body = "\n".join(body)
    head = "from __future__ import annotations\n" if v["future"] else ""
    if scope == "module":
        return head + PRELUDE + "\n" + body + "\n"
    if scope == "function":
        return (head + "def build():\n" + _indent(PRELUDE, 4) + "\n" + _indent(body, 4)
                + "\n    return K\n\n\nK = build()\n")
    if scope == "nested":
        return (head + "def outer():\n    def build():\n" + _indent(PRELUDE, 8) + "\n" + _indent(body, 8)
                + "\n        return K\n    return build()\n\n\nK = outer()\n")
    if scope == "enclosing":
        return (head + "def outer():\n" + _indent(PRELUDE, 4) + "\n    def build():\n" + _indent(body, 8)
                + "\n        return K\n    return build()\n\n\nK = outer()\n")
    raise ValueError(scope)


# ------------------------------------------------------------------ features of a spelling (finding keys)

def _walk(sp):
    yield sp
    for k in ("x", "y"):
        if k in sp:
            yield from _walk(sp[k])


def same_type_obj(a, b):
    """the two expressions evaluate to `==` typing-level objects (what typing de-duplicates)"""
    if is_field_expr(a) and a["s"] not in ("fcls", "bareCls", "mapBare"):
        return False
    return json.dumps(a, sort_keys=True) == json.dumps(b, sort_keys=True)


def struct_first_pipe(sp):
    """`Owner | ...` between plain types: a types.UnionType whose first member is a Structure class"""
    return sp["s"] == "pipe" and (sp["x"]["s"] == "scls" or struct_first_pipe(sp["x"]))


def union_like(sp):
    return sp["s"] in ("optional", "union") or (sp["s"] == "pipe" and not is_field_expr(sp))


def features(v, f, ann_len):
    """known-divergence features of one field spelling, in priority order.  (The PEP-604 / `Field | None` /
    long-future-annotation features were removed when typedpy b6795f9 fixed those findings: a difference there
    is now attributed to 'plain', i.e. reported as a new violation.)"""
    out = []
    top = f["ty"]
    for n in _walk(top):
        plain_pipe = n["s"] == "pipe" and not is_field_expr(n["x"])
        if (n["s"] == "union" or plain_pipe) and same_type_obj(n["x"], n["y"]):
            out.append("typing-union-duplicate")     # `Union[int, int]` / `int | int` is just `int`
        if (n["s"] in ("optional", "union") or plain_pipe) and any(union_like(n[k]) for k in ("x", "y") if k in n):
            out.append("typing-union-flattened")
        # `Array[Owner | None]`, `AnyOf[Owner | int, X]`: a Structure-first PEP 604 union as argument of a typedpy field
        # (was the finding pep604-structure-first-nested, fixed in typedpy: no longer a known divergence)
        # `Tuple(items=Owner)` / `Tuple(items=[X, Owner])`: Tuple.__init__ converts Field classes only
        # (was the finding tuple-items-structure-class, fixed in typedpy: no longer a known divergence)
    d = f.get("dflt")
    if d and d["how"] == "kw" and d["v"] is not None and not _truthy(d["v"]):
        out.append("falsy-default-kw")       # (`default=None` is simply "no default": no divergence expected)
    if f.get("unresolved") and v.get("scope") == "enclosing":
        out.append("string-annotation-enclosing-scope")  # names of an enclosing function are not visible to eval
    res = []
    for x in out:
        if x not in res:
            res.append(x)
    return res


def documented(f):
    """the spelling only uses documented forms (otherwise it is corresponded but not claimed)"""
    if f["mode"] == "assign" and not is_field_or_struct(f["ty"]):
        return False
    for n in _walk(f["ty"]):
        if n["s"] == "call" and not is_field_or_struct(n["x"]):
            return False
        if n["s"] in ("mapCall", "tupCall") and not (is_field_or_struct(n["x"]) and is_field_or_struct(n["y"])):
            return False
        if n["s"] == "none":
            pass
    d = f.get("dflt")
    if d and d["how"] == "kw" and f["ty"]["s"] not in KW_ALLOWED:
        return False
    return True


def _truthy(w):
    if isinstance(w, dict) and "f" in w:
        return w["f"][0] != 0
    return bool(w)


# ------------------------------------------------------------------ case generation

def scalar_default(rng, vg, decl):
    """a default literal (wire value) for a scalar-valued declaration: mostly valid, sometimes a falsy or
    invalid one"""
    r = rng.random()
    if r < 0.7:
        v = vg.valid(decl)
        if v is gen.NOVALUE or v is None or isinstance(v, dict) and "f" not in v:
            return None
        if isinstance(v, dict) and float(gen.Fraction(*v["f"])) != gen.Fraction(*v["f"]):
            return None
        return v
    if r < 0.9:
        return rng.choice([0, "", False, gen.fl(0), 0, ""])
    return rng.choice([7, "zz", True, gen.fl(gen.Fraction(5, 2))])


def default_capable(m):
    return m["m"] in ("scalar", "lit") or (m["m"] == "opt" and m["x"]["m"] in ("scalar", "lit")) \
        or (m["m"] == "alt" and m["x"]["m"] in ("scalar", "lit"))


class _NoDefault:
    def __repr__(self):
        return "NODEF"


NODEF = _NoDefault()      # no default at all (Python `None` below is the literal default `= None`)
RANDOM_DEFAULT = object()


def field_variants(rng, vg, name, m, n_random, extra_tys=(), default=RANDOM_DEFAULT, required_none=None):
    """spellings of one field: a list of FieldSp wire objects; [0] is the typedpy-native reference;
    `extra_tys` = directed type spellings to include as annotations; `default` = NODEF, a wire scalar, or None for
    the literal default `= None` (validated like any default, but "no default" afterwards: for a meaning with a None
    alternative the spellings WITHOUT a default are therefore equivalent and are included)"""
    decl = meaning_decl(m)
    has_none = meaning_has_top_none(m)
    if default is RANDOM_DEFAULT:
        default = NODEF
        if rng.random() < (0.15 if has_none else 0.02):
            default = None
        elif rng.random() < 0.12 and factory_for(m, rng):
            default = dict(factory_for(m, rng), factory=True)
        elif default_capable(m) and rng.random() < 0.45:
            base = decl["fields"][0] if decl["k"] == "anyOf" else decl
            default = scalar_default(rng, vg, base)
            if default is None:
                default = NODEF
    force_optional = not has_none and default is NODEF and rng.random() < 0.15
    # a None alternative WITHOUT optionality: `a: AnyOf[T, None]` / `a = T | None` (typedpy fields, no `_optional`) is a
    # REQUIRED field that admits an explicit None; its equivalent spellings are the field expressions, by annotation and
    # by assignment (typing / PEP-604 unions of plain types are documented to be optional by themselves: left out)
    if required_none is None:
        required_none = has_none and default is NODEF and rng.random() < 0.15
    out, seen = [], set()

    def hows_for(mode, ty):
        if default is NODEF:
            # `default=None` (the keyword's own default) is one more way of writing "no default"
            return [None] + (["kwNone"] if ty["s"] in KW_ALLOWED and rng.random() < 0.25 else [])
        if default is None:
            return (["eq"] if mode == "ann" else []) + ([None] if has_none else [])
        hs = ["eq"] if mode == "ann" else []
        if ty["s"] in KW_ALLOWED:
            hs.append("kw")
        if isinstance(default, dict) and default.get("factory"):
            hs = [h + "F" for h in hs]
        return hs

    def add(ty, mode, how):
        f = {"name": name, "mode": mode, "ty": ty}
        if how == "kwNone":
            how = "kw"
            f["dflt"] = {"how": "kw", "v": None, "len": 4}
        elif how is not None and how.endswith("F"):
            f["dflt"] = {"how": how, "v": default["v"], "src": default["src"], "len": len(default["src"])}
        elif how is not None:
            f["dflt"] = {"how": how, "v": default, "len": len(py_literal(default))}
        kwtext = dflt_text(f["dflt"]) if how in ("kw", "kwF") else None
        fill_lens(f["ty"], kwtext)
        if required_none:
            if auto_optional(mode, ty):
                return
            key = json.dumps(f, sort_keys=True)
            if key not in seen:
                seen.add(key)
                out.append(f)
            return
        # a meaning with a None alternative is an optional field in every spelling: by itself where typedpy
        # documents that (typing / PEP-604 union with a None member), through `_optional` otherwise
        if (has_none and not auto_optional(mode, ty)) or force_optional:
            f["inOptional"] = True
        elif has_none and rng.random() < 0.15:
            f["inOptional"] = True
        key = json.dumps(f, sort_keys=True)
        if key not in seen:
            seen.add(key)
            out.append(f)

    styles = ["native", "builtin", "typing", "call", "inst", "pep604"] + ["mix"] * n_random
    for st in styles:
        ty = spell(m, rng, st)
        modes = ["ann"]
        if is_field_or_struct(ty) and (st in ("native", "call", "inst") or rng.random() < 0.5):
            modes.append("assign")
        elif rng.random() < 0.03:
            modes.append("assign")      # undocumented: corresponded only
        for mode in modes:
            for how in hows_for(mode, ty):
                add(json.loads(json.dumps(ty)), mode, how)
    for ty in extra_tys:
        for mode in ["ann"] + (["assign"] if required_none and is_field_or_struct(ty) else []):
            for how in hows_for(mode, ty):
                add(json.loads(json.dumps(ty)), mode, how)
    return out


def gen_case(rng, tier, ci, meanings=None, extra_tys=None, cap=None, defaults=None, required_none=None):
    """`meanings` / `extra_tys` (per field) fix the class for the directed stream; default: random"""
    dg = gen.DeclGen(rng, max_depth=1)
    vg = gen.ValGen(rng)
    depth = rng.choice([0, 1, 1, 2, 2, 3] if tier == "quick" else [0, 1, 2, 2, 3, 3, 4])
    if meanings is None:
        n_fields = rng.choice([1, 1, 1, 2, 2, 3])
        meanings = [gen_meaning(rng, dg, depth if i == 0 else min(depth, 1)) for i in range(n_fields)]
    n_fields = len(meanings)
    names = rng.sample(["a", "b", "c", "d", "e1", "f_2"], n_fields)
    extra_tys = extra_tys or [()] * n_fields
    defaults = defaults or [RANDOM_DEFAULT] * n_fields
    required_none = required_none or [None] * n_fields
    per_field = [field_variants(rng, vg, nm, m, 3 if tier == "quick" else 5, ex, df, rn)
                 for nm, m, ex, df, rn in zip(names, meanings, extra_tys, defaults, required_none)]
    # class variants: reference first, then every field variant at least once, then random combinations
    combos = [tuple(0 for _ in names)]
    longest = max(len(p) for p in per_field)
    for i in range(1, longest):
        combos.append(tuple(min(i, len(p) - 1) if rng.random() < 0.7 else rng.randrange(len(p)) for p in per_field))
    if n_fields > 1:
        allc = list(itertools.product(*[range(len(p)) for p in per_field]))
        rng.shuffle(allc)
        combos += allc[: (6 if tier == "quick" else 16)]
    variants, seen = [], set()
    for combo in combos:
        for future in (False, True):
            if combo == combos[0] and future:
                continue
            key = (combo, future)
            if key in seen:
                continue
            seen.add(key)
            variants.append({"future": future, "fields": [per_field[i][j] for i, j in enumerate(combo)]})
    variants = variants[: (cap or (16 if tier == "quick" else 40))]
    # string annotations x scope of the class statement: every variant but the reference is placed at module level,
    # inside a function that also defines the names, one function deeper, or below the function that defines them;
    # some write their annotations as string literals
    for var in variants[1:]:
        r = rng.random()
        var["scope"] = "module" if r < 0.6 else "function" if r < 0.8 else "nested" if r < 0.9 else "enclosing"
        if rng.random() < (0.04 if var["future"] else 0.15):
            var["fields"] = [dict(f, quoted=True) if f["mode"] == "ann" and rng.random() < 0.7 else f
                             for f in var["fields"]]
        mark_unresolved(var)
    # shared value stream, from the documented meaning
    decls = [meaning_decl(m) for m in meanings]
    ref = variants[0]["fields"]
    required = [f["name"] for f, m in zip(ref, meanings)
                if not f.get("inOptional") and not (f.get("dflt") and f["dflt"]["v"] is not None)]
    cls = {"k": "struct", "name": "K", "required": sorted(required), "addl": True,
           "fields": [[nm, d] for nm, d in zip(names, decls)]}
    # `_required` written out: exactly the names that are required anyway (then `_optional` entries of fields that are not
    # optional by annotation are redundant and may be dropped), in any order, possibly also naming a defaulted field
    for var in variants[1:]:
        if var.get("scope") == "enclosing" or rng.random() >= 0.12 or any(f.get("quoted") for f in var["fields"]):
            continue       # (not combined with the known string-annotation findings: a dropped field stays "required")
        if any(f["name"] in required and (f.get("inOptional") or auto_optional(f["mode"], f["ty"])) for f in var["fields"]):
            continue       # (a required-none flavour field spelled optional: typedpy refuses the combination)
        req = list(required) + [f["name"] for f in var["fields"] if f.get("dflt") and f["dflt"]["v"] is not None
                                and rng.random() < 0.3]
        rng.shuffle(req)
        var["required"] = req
        opt_names = [f["name"] for f in var["fields"] if not (f.get("dflt") and f["dflt"]["v"] is not None)
                     and (f.get("inOptional") or auto_optional(f["mode"], f["ty"]))]
        if opt_names and rng.random() < 0.3:
            # a name that is optional AND listed in `_required`: typedpy refuses the class ("optional cannot override prior
            # required"); not an equivalent spelling of the reference - corresponded with the model only
            var["required"] = req + [rng.choice(opt_names)]
            var["undocumented"] = True
        elif rng.random() < 0.6:
            var["fields"] = [{k: x for k, x in f.items() if k != "inOptional"} for f in var["fields"]]
    kws = []
    for _ in range(3):
        kw = vg.valid_kw(cls)
        if kw is not gen.NOVALUE:
            kws.append(kw)
    base = kws[0] if kws else None
    for nm, d in zip(names, decls):
        others = [kv for kv in (base or []) if kv[0] != nm]
        if base is None and len(names) > 1:
            continue
        vals = list(vg.boundary(d))[:8]
        vals += rng.sample(vg.confusion(), 8 if len(names) == 1 else 4)
        v0 = next((kv[1] for kv in (base or []) if kv[0] == nm), gen.NOVALUE)
        if v0 is not gen.NOVALUE:
            vals += [vg.corrupt(v0) for _ in range(3)]
        for _ in range(3):
            v = vg.valid(d)
            if v is not gen.NOVALUE:
                vals.append(v)
        vals.append(None)
        for v in vals:
            kws.append(others + [[nm, v]])
        kws.append(others)
    kws = [kw for kw in kws if _loadable(kw)]
    fact = [f["name"] for f in ref if is_factory(f.get("dflt"))]
    probe_kw = None
    if fact:
        # the products of a stateful factory differ from instance to instance by design: the value stream only keeps
        # kwargs that pass those fields explicitly ("an explicit value wins"); what omitted fields receive is observed
        # by the dedicated probe (3 instances, products relative to the first, mutation independence)
        probe_kw = [kv for kv in (base or []) if kv[0] not in fact]
        kws = [kw for kw in kws if all(any(k == n for k, _ in kw) for n in fact)]
    case = {"suite": "elab", "id_hint": ci, "meanings": [[nm, m] for nm, m in zip(names, meanings)],
            "variants": variants, "kws": kws[: (40 if tier == "quick" else 80)]}
    if probe_kw is not None and _loadable(probe_kw):
        case["probe_kw"] = probe_kw
    case["re"] = gen.re_table([decls, variants], case["kws"])
    return case


def _loadable(kw):
    """values the harness can build for every variant: no enum members, instances of the pool classes only"""
    def ok(x):
        if isinstance(x, list):
            return all(ok(y) for y in x)
        if isinstance(x, dict):
            if "e" in x:
                return False
            if "o" in x:
                return x["o"][0] in STRUCT_NAMES and ok(x["o"][1])
            return all(ok(y) for y in x.values())
        return True
    return ok(kw)


def union_spellings(xs, ys):
    """every way of writing the two-way alternative x / y (operands already spelled; 'none' allowed on one side)"""
    out = []
    for x in xs:
        for y in ys:
            for form in ("union", "anyOf", "pipe"):
                if form == "pipe" and not pipe_ok(x, y):
                    continue
                out.append({"s": form, "x": x, "y": y})
            if y["s"] == "none":
                out.append({"s": "optional", "x": x})
    return out


def directed_cases(rng, tier):
    """Directed stream: alternatives with a None member in EVERY position and bracketing - `Optional[T]`,
    `Union[T, None]`, `Union[None, T]`, `T | None`, `None | T`, `AnyOf[None, T]`, `Union[A, None, B]`,
    `A | None | B`, `Union[A, Optional[B]]`, `Optional[A] | B` ... - for a few operand types, each next to a plain
    second field.  The enumeration is exhaustive over forms x positions; only the operand types are sampled."""
    dg = gen.DeclGen(rng, max_depth=1)
    none = {"s": "none"}
    pool = [{"m": "scalar", "k": "int"}, {"m": "scalar", "k": "str"}, {"m": "scalar", "k": "float"},
            {"m": "lit", "d": gen_lit(rng, dg)}, {"m": "coll", "c": "list", "x": {"m": "scalar", "k": "int"}},
            {"m": "dict", "x": {"m": "scalar", "k": "str"}, "y": {"m": "scalar", "k": "bool"}}]
    other = {"m": "scalar", "k": rng.choice(["str", "int"])}
    cases = []
    picks = rng.sample(pool, 3 if tier == "quick" else len(pool))
    for t in picks:
        ts = [spell(t, rng, st) for st in ("builtin", "native", "typing")]
        ts = [x for i, x in enumerate(ts) if x not in ts[:i]]
        two = union_spellings(ts, [none]) + union_spellings([none], ts)
        cases.append(gen_case(rng, tier, len(cases), meanings=[{"m": "opt", "x": t}, other],
                              extra_tys=[two, ()], cap=60))
    for t in picks[: (2 if tier == "quick" else len(picks))]:
        # REQUIRED field with a None alternative (typedpy spellings only, no `_optional`): annotation vs assignment
        ts = [spell(t, rng, st) for st in ("native", "inst", "builtin")]
        ts = [x for i, x in enumerate(ts) if x not in ts[:i]]
        two = [sp for sp in union_spellings(ts, [none]) + union_spellings([none], ts) if is_field_expr(sp)]
        cases.append(gen_case(rng, tier, len(cases), meanings=[{"m": "opt", "x": t}, other],
                              extra_tys=[two, ()], cap=40, required_none=[True, False]))
    for t in picks[: (2 if tier == "quick" else len(picks))]:
        u = rng.choice([p for p in pool if top_tag(p) != top_tag(t)])
        ts, us = [spell(t, rng, st) for st in ("builtin", "native")], [spell(u, rng, st) for st in ("builtin", "native")]
        t_opt = union_spellings(ts, [none]) + union_spellings([none], ts)      # T-or-None in every spelling
        u_opt = union_spellings(us, [none]) + union_spellings([none], us)
        inner = union_spellings(t_opt, us)           # None inside / first:  Union[Optional[T], U], T | None | U, ...
        last = union_spellings(ts, u_opt)            # None last / inside:   Union[T, Optional[U]], T | (None | U), ...
        rng.shuffle(inner)
        rng.shuffle(last)
        cases.append(gen_case(rng, tier, len(cases), meanings=[{"m": "alt", "x": {"m": "opt", "x": t}, "y": u}, other],
                              extra_tys=[inner[:40], ()], cap=60))
        cases.append(gen_case(rng, tier, len(cases), meanings=[{"m": "alt", "x": t, "y": {"m": "opt", "x": u}}, other],
                              extra_tys=[last[:40], ()], cap=60))
    return cases


def single_arg_cases(rng, tier):
    """Directed stream: every single-argument container form - `tuple[X]`, `typing.Tuple[X]`, `Tuple[X]`,
    `Tuple(items=X)`, the same for list / set / frozenset / deque, and the four dict forms - with the argument X
    written as a builtin, a Field class and a Field instance (forms x argument forms enumerated; the element
    type is sampled)."""
    dg = gen.DeclGen(rng, max_depth=1)
    elems = [{"m": "scalar", "k": k} for k in ("int", "str", "float", "bool")]
    cases = []
    colls = ["tuple", "list", "set", "frozenset", "deque"]
    if tier == "quick":
        colls = ["tuple"] + rng.sample(colls[1:], 2)
    for c in colls:
        for t in rng.sample(elems, 1 if tier == "quick" else 2):
            xs = [{"s": f, "k": t["k"]} for f in ("builtin", "fcls", "finst")]
            tys = [{"s": form, "c": c, "x": x} for form in ("pep585", "typingG", "sub", "call") for x in xs]
            cases.append(gen_case(rng, tier, len(cases), meanings=[{"m": "coll", "c": c, "x": t}],
                                  extra_tys=[tys], cap=60))
    if tier != "quick" or rng.random() < 0.5:
        lit = {"m": "lit", "d": gen_lit(rng, dg)}
        c = rng.choice(["tuple", "list"])
        tys = [{"s": form, "c": c, "x": spell(lit, rng, "native")} for form in ("pep585", "typingG", "sub", "call")]
        cases.append(gen_case(rng, tier, len(cases), meanings=[{"m": "coll", "c": c, "x": lit}], extra_tys=[tys], cap=60))
    k, v = rng.choice(elems[:2]), rng.choice(elems)
    ks = [{"s": f, "k": k["k"]} for f in ("builtin", "fcls", "finst")]
    vs = [{"s": f, "k": v["k"]} for f in ("builtin", "fcls", "finst")]
    tys = [{"s": form, "x": x, "y": y} for form in ("dict585", "dictTyping", "mapSub", "mapCall") for x in ks for y in vs]
    cases.append(gen_case(rng, tier, len(cases), meanings=[{"m": "dict", "x": k, "y": v}], extra_tys=[tys], cap=80))
    return cases


FALSY = {"int": 0, "str": "", "bool": False, "float": {"f": [0, 1]}}
TRUTHY = {"int": 7, "str": "ab", "bool": True, "float": {"f": [5, 2]}}


def default_cases(rng, tier):
    """Directed stream: the product (spelling of the declaration) x (default: none, `= None`, a falsy valid default
    0 / '' / False / 0.0, a truthy one; each as `= v` and, where a call form exists, `default=v`) for optional and
    non-optional meanings, next to a plain second field."""
    none = {"s": "none"}
    other = {"m": "scalar", "k": rng.choice(["str", "int"])}
    combos = []
    for k in ("int", "str", "bool", "float"):
        t = {"m": "scalar", "k": k}
        for m in ({"m": "opt", "x": t}, t):
            for dv in (None, FALSY[k], TRUTHY[k]):
                combos.append((m, dv))
    combos.append(({"m": "opt", "x": {"m": "coll", "c": "list", "x": {"m": "scalar", "k": "str"}}}, None))
    combos.append(({"m": "alt", "x": {"m": "scalar", "k": "int"}, "y": {"m": "opt", "x": {"m": "scalar", "k": "str"}}}, None))
    combos.append(({"m": "alt", "x": {"m": "scalar", "k": "int"}, "y": {"m": "scalar", "k": "str"}}, 0))
    if tier == "quick":
        must = [c for c in combos if c[0]["m"] == "opt" and c[1] is None]
        rest = [c for c in combos if c not in must]
        combos = rng.sample(must, 2) + rng.sample(rest, 5)
    cases = []
    for m, dv in combos:
        extra = ()
        if m["m"] == "opt":       # every way of writing T-or-None, in both orders
            ts = [spell(m["x"], rng, st) for st in ("builtin", "native")]
            extra = union_spellings(ts, [none]) + union_spellings([none], ts)
        cases.append(gen_case(rng, tier, len(cases), meanings=[m, other], extra_tys=[extra, ()], cap=60,
                              defaults=[dv, NODEF]))
    return cases


def factory_cases(rng, tier):
    """Directed stream: a default FACTORY (stateful counter) on every spelling of the declaration - as `= f` on a
    builtin / typing / PEP-585 / PEP-604 annotation, on a Field class, on a Field instance, and as `default=f` -
    for scalar, optional, alternative, list / tuple / dict meanings; observed by the 3-instance probe."""
    int_, str_ = {"m": "scalar", "k": "int"}, {"m": "scalar", "k": "str"}
    pool = [int_, str_, {"m": "scalar", "k": "float"}, {"m": "scalar", "k": "any"}, {"m": "opt", "x": int_},
            {"m": "alt", "x": int_, "y": str_}, {"m": "coll", "c": "list", "x": int_},
            {"m": "coll", "c": "tuple", "x": int_}, {"m": "coll", "c": "set", "x": int_},
            {"m": "dict", "x": str_, "y": int_}, {"m": "bare", "c": "list"}, {"m": "bareDict"},
            {"m": "opt", "x": {"m": "coll", "c": "list", "x": int_}},
            {"m": "struct", "c": "Owner"}, {"m": "opt", "x": {"m": "struct", "c": "Owner"}},
            {"m": "coll", "c": "list", "x": {"m": "struct", "c": "Owner"}}]
    picks = pool if tier != "quick" else [int_, pool[6], pool[-3]] + rng.sample([p for p in pool if p not in (int_, pool[6], pool[-3])], 3)
    other = {"m": "scalar", "k": rng.choice(["str", "int"])}
    cases = []
    for m in picks:
        fac = factory_for(m, rng)
        if fac is None:
            continue
        xs = [spell(m, rng, st) for st in ("builtin", "typing", "native", "inst", "call")]
        xs = [x for i, x in enumerate(xs) if x not in xs[:i]]
        cases.append(gen_case(rng, tier, len(cases), meanings=[m, other], extra_tys=[xs, ()], cap=60,
                              defaults=[dict(fac, factory=True), NODEF]))
    return cases


def struct_model_cases(rng, tier):
    """Directed stream (modelled): fields whose type is a Structure class of the pool (`Owner`, `Point`) - alone, optional,
    as an alternative on either side, as element of list / tuple / deque / dict - and two-element tuples, each in every
    style (name as annotation / plain assignment / item of Array[...] / list[...] / List[...] / `items=`; tuple[X, Y] /
    typing.Tuple[X, Y] / Tuple[X, Y] / Tuple(items=[X, Y])) next to a plain second field."""
    int_, str_ = {"m": "scalar", "k": "int"}, {"m": "scalar", "k": "str"}

    def own():
        return {"m": "struct", "c": rng.choice(STRUCT_NAMES)}
    must = [{"m": "coll", "c": "tuple", "x": own()}, own(), {"m": "tup", "x": int_, "y": own()}]
    pool = [{"m": "opt", "x": own()}, {"m": "alt", "x": own(), "y": int_}, {"m": "alt", "x": int_, "y": own()},
            {"m": "coll", "c": "list", "x": own()}, {"m": "coll", "c": "deque", "x": own()},
            {"m": "dict", "x": str_, "y": own()}, {"m": "tup", "x": int_, "y": str_},
            {"m": "tup", "x": {"m": "coll", "c": "list", "x": int_}, "y": {"m": "opt", "x": str_}},
            {"m": "opt", "x": {"m": "coll", "c": "list", "x": own()}}, {"m": "opt", "x": {"m": "tup", "x": int_, "y": str_}}]
    must.append({"m": "coll", "c": "list", "x": {"m": "opt", "x": own()}})
    picks = must + (pool if tier != "quick" else rng.sample(pool, 3))
    other = {"m": "scalar", "k": rng.choice(["str", "int"])}
    none = {"s": "none"}
    cases = []
    for m in picks:
        xs = [spell(m, rng, st) for st in STYLES]
        if m["m"] == "coll" and m["x"]["m"] == "opt":      # Array[Owner | None], Array[None | Owner], list[Owner | None]
            o = spell(m["x"]["x"], rng, "native")
            xs += [{"s": form, "c": m["c"], "x": {"s": "pipe", "x": a, "y": b}}
                   for form in ("sub", "pep585", "typingG") for a, b in ((o, none), (none, o))]
        if m["m"] == "opt":
            ts = [spell(m["x"], rng, st) for st in ("builtin", "native", "typing")]
            xs += union_spellings(ts, [none]) + union_spellings([none], ts)
        xs = [x for i, x in enumerate(xs) if x not in xs[:i]]
        cases.append(gen_case(rng, tier, len(cases), meanings=[m, other], extra_tys=[xs, ()], cap=40))
    return cases


# ------------------------------------------------------------------ Structure-valued fields (oracle only)

STRUCT_PRELUDE = """

class Owner(Structure):
    name: str


def _oone():
    return lambda: Owner(name="nobody")


def _olist():
    return lambda: [Owner(name="nobody")]
"""

STRUCT_FAMILIES = {
    # meaning -> (spellings of the annotation / right-hand side, needs `_optional`?)   {A} = annotation, {=} = assignment
    "owner": ["a: Owner", "a = Owner", "a: Union[Owner]"],
    "opt-owner": ["a: AnyOf[Owner, None] #opt", "a = AnyOf[Owner, None] #opt", "a: Optional[Owner]", "a: Union[Owner, None]",
                  "a: Union[None, Owner]", "a: Owner | None", "a: None | Owner", "a: AnyOf[None, Owner] #opt"],
    "owner-or-int": ["a: AnyOf[Owner, Integer]", "a: Union[Owner, int]", "a: Owner | int", "a: Owner | Integer",
                     "a: AnyOf[Owner, int]", "a = AnyOf[Owner, Integer]"],
    "int-or-owner": ["a: AnyOf[Integer, Owner]", "a: Union[int, Owner]", "a: int | Owner", "a: Integer | Owner",
                     "a = Integer | Owner"],
    "owners": ["a: Array[Owner]", "a = Array[Owner]", "a: list[Owner]", "a: List[Owner]", "a: Array(items=Owner)",
               "a = Array(items=Owner)"],
    "opt-owners": ["a: AnyOf[Array[Owner], None] #opt", "a: Optional[list[Owner]]", "a: list[Owner] | None",
                   "a: None | list[Owner]", "a: Union[List[Owner], None]", "a: Optional[Array[Owner]]"],
}
STRUCT_FACTORY = {"owner": "_oone()", "opt-owner": "_oone()", "owners": "_olist()", "opt-owners": "_olist()"}

# date / time types (datetime.date ~ DateField, datetime.datetime ~ DateTime, datetime.time ~ TimeField): oracle only -
# the Lean declaration type has no date fields
DATE_PRELUDE = """
import datetime
from typedpy.extfields import DateField, DateTime, TimeField
"""
DATE_FAMILIES = {
    "date": ["a: DateField", "a = DateField", "a: datetime.date", "a: DateField()", "a = DateField()", "a: Union[datetime.date]"],
    "datetime": ["a: DateTime", "a = DateTime", "a: datetime.datetime", "a: DateTime()", "a = DateTime()"],
    "time": ["a: TimeField", "a = TimeField", "a: datetime.time", "a: TimeField()", "a = TimeField()"],
    "opt-date": ["a: AnyOf[DateField, None] #opt", "a = AnyOf[DateField, None] #opt", "a: Optional[datetime.date]",
                 "a: datetime.date | None", "a: None | datetime.date", "a: Union[None, datetime.date]", "a: DateField | None #opt",
                 "a: Optional[DateField]"],
    "dates": ["a: Array[DateField]", "a = Array[DateField]", "a: list[datetime.date]", "a: List[datetime.date]",
              "a: Array(items=DateField)", "a: Array[datetime.date]", "a: list[DateField]"],
    "date-or-int": ["a: AnyOf[DateField, Integer]", "a: Union[datetime.date, int]", "a: datetime.date | int", "a: DateField | int",
                    "a: DateField | Integer", "a = AnyOf[DateField, Integer]"],
    "date-by-str": ["a: Map[String, DateField]", "a: dict[str, datetime.date]", "a: Dict[str, datetime.date]",
                    "a = Map(items=[String, DateField])"],
    "date-time-pair": ["a: Tuple[DateField, TimeField]", "a: tuple[datetime.date, datetime.time]",
                       "a: typing.Tuple[datetime.date, datetime.time]", "a = Tuple(items=[DateField, TimeField])"],
}

# MUTABLE defaults (list / dict / set literals): "Got a mutable value as default. This is a bug" is raised on some paths only
MUTABLE_FAMILIES = {
    "list-default": ["a: Array = [1]", "a: list = [1]", "a: List = [1]", "a: Array() = [1]", "a = Array(default=[1])",
                     "a: Array(default=[1])"],
    "int-list-default": ["a: Array[Integer] = [1]", "a: list[int] = [1]", "a: List[int] = [1]",
                         "a = Array(items=Integer, default=[1])", "a: Array(items=Integer, default=[1])"],
    "empty-list-default": ["a: Array = []", "a: list = []", "a: List = []", "a = Array(default=[])"],
    "map-default": ["a: Map = {'k': 1}", "a: dict = {'k': 1}", "a: Dict = {'k': 1}", "a: Map() = {'k': 1}",
                    "a = Map(default={'k': 1})"],
}


def struct_cases(rng, tier):
    """Oracle-only stream (Structure classes are not in the modelled spelling grammar): fields whose type is a
    Structure class `Owner`, optional / alternative / list forms of it in every spelling, with no default and with a
    default factory returning Structure instances (`= f`, and `default=f` where a call form exists)."""
    fams = sorted(STRUCT_FAMILIES)
    if tier == "quick":
        fams = ["opt-owner", "owners"] + rng.sample([f for f in fams if f not in ("opt-owner", "owners")], 2)
    cases = []
    for fam in fams:
        for with_factory in ([False, True] if fam in STRUCT_FACTORY else [False]):
            variants = []
            for sp in STRUCT_FAMILIES[fam]:
                opt = sp.endswith("#opt")
                decl = sp.replace(" #opt", "")
                if with_factory:
                    fsrc = STRUCT_FACTORY[fam]
                    if decl.startswith("a = "):
                        if not decl.endswith(")"):
                            continue
                        decl = decl[:-1] + f", default={fsrc})"
                    else:
                        decl = f"{decl} = {fsrc}"
                for future in (False, True):
                    variants.append({"future": future, "body": [decl, "b: str"] + (["_optional = ['a']"] if opt else []),
                                     "site": "plain"})
            cases.append({"suite": "elab", "oracle_only": True, "family": fam, "factory": with_factory,
                          "variants": variants})
    # date / time types and mutable defaults
    dfams = sorted(DATE_FAMILIES)
    if tier == "quick":
        dfams = ["date", "opt-date"] + rng.sample([f for f in dfams if f not in ("date", "opt-date")], 2)
    mfams = sorted(MUTABLE_FAMILIES) if tier != "quick" else ["list-default"] + rng.sample(sorted(MUTABLE_FAMILIES)[:-1] + ["map-default"], 1)
    for kind, fams_, table, site_ in (("date", dfams, DATE_FAMILIES, "datetime"), ("mutable", mfams, MUTABLE_FAMILIES, "mutable-default")):
        for fam in fams_:
            variants = []
            for sp in table[fam]:
                opt = sp.endswith("#opt")
                decl = sp.replace(" #opt", "")
                for future in (False, True):
                    variants.append({"future": future, "body": [decl, "b: str"] + (["_optional = ['a']"] if opt else []),
                                     "site": site_})
            cases.append({"suite": "elab", "oracle_only": True, "family": fam, "factory": False, "kind": kind,
                          "variants": variants})
    return cases


def run_struct_case(case):
    from typedpy import Serializer
    structs_module()
    out = []
    for v in case["variants"]:
        res = {}
        _MOD_COUNTER[0] += 1
        modname = f"_verif_c13_smod_{_MOD_COUNTER[0]}"
        mod = types.ModuleType(modname)
        sys.modules[modname] = mod
        src = (("from __future__ import annotations\n" if v["future"] else "") + PRELUDE + STRUCT_PRELUDE + DATE_PRELUDE
               + "\n\nclass K(Structure):\n" + "".join(f"    {l}\n" for l in v["body"]))
        res["src"] = "; ".join(v["body"]) + (" [future]" if v["future"] else "")
        for clear in getattr(typing, "_cleanups", []):
            clear()
        try:
            exec(compile(src, modname + ".py", "exec"), mod.__dict__)  # pylint: disable=exec-used
            K, Owner = mod.K, mod.Owner
            res["fields"] = sorted(K.get_all_fields_by_name())
            res["required"] = sorted(K._required)
            values = {"owner": Owner(name="x"), "dict": {"name": "x"}, "none": None, "int": 1, "str": "s",
                      "owners": [Owner(name="x"), Owner(name="y")], "empty": [], "ints": [1], "mixed": [Owner(name="x"), 1]}
            if case.get("kind") == "date":
                import datetime as _dt
                d0, t0 = _dt.date(2020, 1, 2), _dt.time(3, 4, 5)
                values = {"date": d0, "datetime": _dt.datetime(2020, 1, 2, 3, 4, 5), "time": t0, "iso": "2020-01-02",
                          "isot": "03:04:05", "junk": "x", "int": 1, "none": None, "dates": [d0, d0], "empty": [],
                          "mixed": [d0, 1], "map": {"k": d0}, "badmap": {"k": 1}, "pair": (d0, t0), "badpair": (t0, d0)}
            elif case.get("kind") == "mutable":
                values = {"ints": [1, 2], "empty": [], "none": None, "int": 1, "map": {"z": 2}, "strs": ["a"]}
            beh = {}
            for tag, val in list(values.items()) + [("missing", None)]:
                kw = {"b": "t"} if tag == "missing" else {"a": val, "b": "t"}
                try:
                    x = K(**kw)
                    beh[tag] = json.dumps(Serializer(x).serialize(), sort_keys=True, default=repr)
                except Exception as e:  # pylint: disable=broad-except
                    beh[tag] = "raised " + err_name(e)
            res["beh"] = beh
            if case.get("kind") == "mutable" and "a" in res["fields"]:
                # the default is handed out per instance (mutating one instance's value must not leak)
                try:
                    x1 = K(b="t")
                    first = json.dumps(Serializer(x1).serialize(), sort_keys=True, default=repr)
                    if hasattr(x1.a, "append"):
                        x1.a.append(99)
                    elif isinstance(x1.a, dict):
                        x1.a["zz"] = 99
                    res["beh"]["default"] = [first, json.dumps(Serializer(K(b="t")).serialize(), sort_keys=True, default=repr)]
                except Exception as e:  # pylint: disable=broad-except
                    res["beh"]["default"] = "raised " + err_name(e)
            if case["factory"] and "a" in res["fields"]:
                try:
                    x1, x2 = K(b="t"), K(b="t")
                    first = x1.a[0] if isinstance(x1.a, list) else x1.a
                    second = x2.a[0] if isinstance(x2.a, list) else x2.a
                    first.name = "alice"
                    x3 = K(b="t")
                    third = x3.a[0] if isinstance(x3.a, list) else x3.a
                    res["factory"] = {"keeps_factory": callable(K.get_all_fields_by_name()["a"]._default),
                                      "names after renaming the first instance's owner": [first.name, second.name, third.name]}
                except Exception as e:  # pylint: disable=broad-except
                    res["factory"] = {"err": err_name(e)}
        except Exception as e:  # pylint: disable=broad-except
            res["def_err"] = err_name(e)
            res["msg"] = str(e)[:160]
        finally:
            sys.modules.pop(modname, None)
        out.append(res)
    return {"variants": out}


def struct_oracle(case, impl):
    fails, seen = [], set()
    ref = impl["variants"][0]
    for v, iv in zip(case["variants"], impl["variants"]):
        site_ = v["site"]
        diff = None
        if ("def_err" in ref) != ("def_err" in iv):
            diff = ("definition-error", f"raises {iv.get('def_err') or ref.get('def_err')} at class definition: {iv.get('msg') or ref.get('msg')}")
        elif "def_err" not in iv:
            for k, ph in (("fields", "field-dropped"), ("required", "required-differs"), ("factory", "default-factory-differs"),
                          ("beh", "accept-reject-differs")):
                if iv.get(k) != ref.get(k):
                    diff = (ph, f"{k}: {json.dumps(iv.get(k))[:240]} vs {json.dumps(ref.get(k))[:240]}")
                    break
        if diff:
            key = f"{diff[0]}:{'structure-' + site_ if site_ == 'plain' else site_}"
            if key not in seen:
                seen.add(key)
                fails.append((key, f"[{case['family']}] {iv['src']} vs reference {ref['src']}: {diff[1]}"))
        # documented semantics of a default factory, whatever the spelling: evaluated for every instance
        fac = iv.get("factory")
        if fac and "err" not in fac:
            names = fac["names after renaming the first instance's owner"]
            if not fac["keeps_factory"] or names != ["alice", "nobody", "nobody"]:
                key = f"default-factory-shared:{'structure-' + site_ if site_ == 'plain' else site_}"
                if key not in seen:
                    seen.add(key)
                    fails.append((key, f"[{case['family']}] {iv['src']}: the default factory is not evaluated per instance: {json.dumps(fac)}"))
    return fails


def _find_code(code, name):
    for c in code.co_consts:
        if isinstance(c, types.CodeType):
            if c.co_name == name:
                return c
            r = _find_code(c, name)
            if r is not None:
                return r
    return None


def mark_unresolved(var):
    """in 'enclosing' scope: which string annotations mention a name that is neither a builtin nor captured by the
    function containing the class statement (Python's own compiler decides: co_freevars of that function)"""
    if var.get("scope") != "enclosing":
        return var
    import ast
    import builtins
    build = _find_code(compile(variant_source(var), "<c13>", "exec"), "build")
    free = set(build.co_freevars)
    fields = []
    for f in var["fields"]:
        f = {k: x for k, x in f.items() if k != "unresolved"}
        if f["mode"] == "ann" and (var["future"] or f.get("quoted")):
            names = {n.id for n in ast.walk(ast.parse(field_source(f)[1], mode="eval")) if isinstance(n, ast.Name)}
            if any(n not in free and not hasattr(builtins, n) for n in names):
                f["unresolved"] = True
        fields.append(f)
    var["fields"] = fields
    return var


def scope_cases(rng, tier):
    """Directed stream: (evaluated annotation | future import | quoted annotation | quoted under the future import)
    x (module level | inside a function defining the names | nested one deeper | names in the enclosing function)
    for a few spellings of small classes; modules written to disk and imported; reference = evaluated annotations at
    module level."""
    dg = gen.DeclGen(rng, max_depth=1)
    cases = []
    for _ in range(2 if tier == "quick" else 6):
        ms = [gen_meaning(rng, dg, 1), gen_meaning(rng, dg, 0)]
        c = gen_case(rng, tier, len(cases), meanings=ms, cap=10)
        bases = [v for v in c["variants"] if not v["future"]]
        bases = [bases[0]] + rng.sample(bases[1:], min(2, len(bases) - 1))
        vs = [c["variants"][0]]
        for b in bases:
            for scope in ("module", "function", "nested", "enclosing"):
                for future, quoted in ((False, False), (True, False), (False, True), (True, True)):
                    if b is bases[0] and scope == "module" and not future and not quoted:
                        continue
                    fields = [dict(f, quoted=True) if quoted and f["mode"] == "ann" else f for f in b["fields"]]
                    extra = {k: b[k] for k in ("required", "undocumented") if b.get(k) is not None}
                    if extra and quoted:
                        continue      # (`_required` is not combined with quoted annotations, see gen_case)
                    vs.append(mark_unresolved(dict({"future": future, "scope": scope, "fields": fields}, **extra)))
        c["variants"] = vs
        cases.append(c)
    return cases


def gen_cases(rng, tier, n):
    return (directed_cases(rng, tier) + single_arg_cases(rng, tier) + default_cases(rng, tier)
            + factory_cases(rng, tier) + struct_cases(rng, tier) + struct_model_cases(rng, tier) + scope_cases(rng, tier)
            + [gen_case(rng, tier, i) for i in range(n)])


# ------------------------------------------------------------------ real code

_MOD_COUNTER = [0]
MOD_DIR = os.path.join(os.path.dirname(os.path.dirname(os.path.dirname(os.path.abspath(__file__)))), "work",
                       f"c13_mods_{os.getpid()}")


def define(v):
    """exec the class source of a variant in a fresh registered module; returns (cls, modname)"""
    _MOD_COUNTER[0] += 1
    modname = f"_verif_c13_mod_{_MOD_COUNTER[0]}"
    mod = types.ModuleType(modname)
    mod.__file__ = modname + ".py"
    sys.modules[modname] = mod
    src = variant_source(v)
    structs_module()
    # typing memoises `List[...]` etc. by `==` of the arguments, and `float | None == Optional[float]`: without
    # this, `List[float | None]` silently evaluates to an earlier `List[Optional[float]]` of the same process
    for clear in getattr(typing, "_cleanups", []):
        clear()
    try:
        if v.get("scope", "module") != "module" or _MOD_COUNTER[0] % 7 == 0:
            # a real module: written to disk (git-ignored work/) and imported through the import machinery
            os.makedirs(MOD_DIR, exist_ok=True)
            path = os.path.join(MOD_DIR, modname + ".py")
            with open(path, "w", encoding="utf-8") as fh:
                fh.write(src)
            try:
                spec = importlib.util.spec_from_file_location(modname, path)
                mod = importlib.util.module_from_spec(spec)
                sys.modules[modname] = mod
                spec.loader.exec_module(mod)
            finally:
                os.remove(path)
        else:
            exec(compile(src, modname + ".py", "exec"), mod.__dict__)  # pylint: disable=exec-used
        return mod.K, modname
    except BaseException:
        sys.modules.pop(modname, None)
        raise


def _product_index(v):
    """position of a factory product in its counter sequence"""
    if isinstance(v, bool):
        return None
    if isinstance(v, (int, float)):
        return int(v)
    if isinstance(v, str) and v[:1] == "s" and v[1:].isdigit():
        return int(v[1:])
    nm = getattr(v, "name", None) if hasattr(v, "get_all_fields_by_name") else None
    if isinstance(nm, str) and nm[:1] == "n" and nm[1:].isdigit():
        return int(nm[1:])        # Owner(name="n<k>")
    if isinstance(v, (list, tuple, set, frozenset)) or hasattr(v, "__iter__") and not isinstance(v, (str, dict)):
        xs = list(v)
        return _product_index(xs[0]) if len(xs) == 1 else None
    if isinstance(v, dict):
        return _product_index(v.get("k"))
    return None


def factory_probe(cls, fields, probe_kw, ctx):
    """what instances built WITHOUT the factory-default fields receive: 3 instances, products relative to the
    first instance's, and whether mutating the first instance's value leaks into the others / later instances"""
    out = {}
    try:
        args = {k: dump.load_value(x, ctx) for k, x in probe_kw}
        insts = [cls(**args) for _ in range(3)]
    except Exception as e:  # pylint: disable=broad-except
        return {"err": err_name(e)}
    by_name = cls.get_all_fields_by_name()
    for f in fields:
        nm = f["name"]
        if nm not in by_name:
            out[nm] = {"dropped": True}
            continue
        vals = [getattr(x, nm) for x in insts]
        idx = [_product_index(x) for x in vals]
        rec = {"keeps_factory": callable(getattr(by_name[nm], "_default", None)),
               "relative": [i - idx[0] for i in idx] if None not in idx else [repr(x) for x in vals]}
        try:     # mutation independence
            before = dump.canon(dump.dump_value(getattr(insts[1], nm), ctx))
            target = getattr(insts[0], nm)
            if hasattr(target, "append"):
                target.append(424242)
            elif hasattr(target, "add"):
                target.add(424242)
            elif isinstance(target, dict):
                target["zz"] = 424242
            later = cls(**args)
            rec["independent"] = (dump.canon(dump.dump_value(getattr(insts[1], nm), ctx)) == before
                                  and "424242" not in json.dumps(dump.dump_value(getattr(later, nm), ctx)))
        except Exception as e:  # pylint: disable=broad-except
            rec["independent"] = "raised " + err_name(e)
        out[nm] = rec
    return out


def run_variant(v, kws, ctx, probe_kw=None):
    from typedpy import Serializer, Deserializer, structure_to_schema
    res = {"src": variant_source(v)}
    try:
        cls, modname = define(v)
    except Exception as e:  # pylint: disable=broad-except
        res["def_err"] = err_name(e)
        res["msg"] = str(e)[:200]
        return res
    try:
        try:
            res["cls"] = norm_cls(dump.dump_class(cls, ctx))
        except Exception as e:  # pylint: disable=broad-except
            res["undumpable"] = f"{type(e).__name__}: {e}"[:200]
        ffields = [f for f in v["fields"] if is_factory(f.get("dflt"))]
        if ffields and "cls" in res:
            # dump_class CALLS a factory default; report "the factory is kept" instead of one of its products
            by_name = cls.get_all_fields_by_name()
            res["cls"]["defaults"] = [[n, {"x": "factory"}] if n in by_name and callable(getattr(by_name[n], "_default", None))
                                      and any(f["name"] == n for f in ffields) else [n, x]
                                      for n, x in res["cls"]["defaults"]]
        if ffields and probe_kw is not None:
            res["factory"] = factory_probe(cls, ffields, probe_kw, ctx)
        ann = getattr(cls, "__annotations__", {})
        res["ann_text"] = {f["name"]: ann.get(f["name"]) for f in v["fields"]
                           if f["mode"] == "ann" and isinstance(ann.get(f["name"]), str)}
        beh = []
        n_deser = 0
        for kw in kws:
            try:
                args = {k: dump.load_value(x, ctx) for k, x in kw}
            except Exception as e:  # pylint: disable=broad-except
                beh.append({"unbuildable": type(e).__name__})
                continue
            try:
                x = cls(**args)
            except Exception as e:  # pylint: disable=broad-except
                beh.append({"err": err_name(e)})
                continue
            r = {"ok": dump.canon(dump.dump_value(x, ctx))}
            try:
                doc = Serializer(x).serialize()
                r["ser"] = json.dumps(doc, sort_keys=True, default=repr)
                if n_deser < 4 and not ffields:     # ... and back: Deserializer(K) on what was serialized (products of a
                    # stateful default factory differ from call to call by design: not compared there)
                    n_deser += 1
                    try:
                        y = Deserializer(cls).deserialize(json.loads(r["ser"]))
                        r["deser"] = dump.canon(dump.dump_value(y, ctx))
                    except Exception as e:  # pylint: disable=broad-except
                        # with several fields the first error depends on the definition order, which annotation and
                        # assignment spellings of different fields legitimately change: only "it raises" is compared
                        r["deser"] = "raised " + (err_name(e) if len(v["fields"]) == 1 else "")
            except Exception as e:  # pylint: disable=broad-except
                r["ser_err"] = type(e).__name__
            beh.append(r)
        res["beh"] = beh
        try:
            res["schema"] = json.dumps(structure_to_schema(cls), sort_keys=True, default=repr)
        except Exception as e:  # pylint: disable=broad-except
            res["schema"] = "raised " + err_name(e)
    finally:
        sys.modules.pop(modname, None)
    return res


def run_impl(case):
    if case.get("oracle_only"):
        return run_struct_case(case)
    ctx = make_ctx()
    mod = structs_module()
    for n in STRUCT_NAMES:
        ctx.classes[n] = getattr(mod, n)
    return {"variants": [run_variant(v, case["kws"], ctx, case.get("probe_kw")) for v in case["variants"]]}


def line(case, impl):
    if case.get("oracle_only"):
        return None
    return {"suite": "elab", "re": case.get("re", []),
            "variants": [dict({"future": v["future"], "scope": v.get("scope", "module"), "fields": v["fields"]},
                              **({"required": v["required"]} if v.get("required") is not None else {}))
                         for v in case["variants"]]}


# ------------------------------------------------------------------ judging

OUT_OF_MODEL = ("unmodelled", "not-expressible", "implicit-wrapper")


def strip_marks(d):
    """drop the int-vs-float bound markers of dump_field (the model's bounds are exact rationals)"""
    if isinstance(d, list):
        return [strip_marks(x) for x in d]
    if isinstance(d, dict):
        return {k: strip_marks(v) for k, v in d.items() if k not in ("minFloat", "maxFloat")}
    return d


def norm_cls(d):
    d = strip_marks(dump.normalize_decl(d))
    return {"fields": d["fields"], "required": d["required"], "defaults": d.get("defaults", [])}


def norm_model_cls(mc):
    return norm_cls(mc)


def correspondence(case, impl, model):
    """model elabClass vs the class the real code created, per variant; returns first disagreement"""
    for i, (v, iv, mv) in enumerate(zip(case["variants"], impl["variants"], model["variants"])):
        mcls = mv["cls"]
        ferrs = [f["res"]["err"] for f in mv["fields"] if "err" in f["res"]]
        if any(e.startswith(OUT_OF_MODEL) for e in ferrs):
            continue
        where = (f"variant {i}: {json.dumps([field_source(f)[0] for f in v['fields']])} future={v['future']} "
                 f"scope={v.get('scope', 'module')}")
        for f, mf in zip(v["fields"], mv["fields"]):
            text = iv.get("ann_text", {}).get(f["name"])
            if text is not None:
                want_text = field_source(f)[1]
                if f.get("quoted") and v["future"]:
                    want_text = repr(want_text)      # the future import stores the text OF the string literal
                if text != want_text:
                    return f"{where}: stored annotation text {text!r} != rendered {want_text!r}"
                text = field_source(f)[1]
                if len(text) != mf["annLen"]:
                    return f"{where}: annotation text {text!r} has length {len(text)}, model computed {mf['annLen']}"
        if "err" in mcls:
            if "def_err" not in iv:
                return f"{where}: model raises {mcls['err']} at class definition, real code defines the class"
            if iv["def_err"] not in (ferrs or [mcls["err"]]):     # (no field at fault: a class-level error, `_required`)
                return f"{where}: class definition raises {iv['def_err']} ({iv.get('msg')}), model {ferrs or mcls['err']}"
            continue
        if "def_err" in iv:
            return f"{where}: real code raises {iv['def_err']} at class definition ({iv.get('msg')}), model defines the class"
        if "undumpable" in iv:
            return f"{where}: real class cannot be dumped ({iv['undumpable']}), model: {json.dumps(mcls['ok'])[:300]}"
        want = norm_model_cls(mcls["ok"])
        if want != iv["cls"]:
            return (f"{where}: class differs: model={json.dumps(want, sort_keys=True)[:500]} "
                    f"impl={json.dumps(iv['cls'], sort_keys=True)[:500]}")
    return None


def field_features(case, model, i):
    v, mv = case["variants"][i], model["variants"][i]
    out = []
    for f, mf in zip(v["fields"], mv["fields"]):
        for x in features(v, f, mf["annLen"]):
            if x not in out:
                out.append(x)
    return out


PRIORITY = ["string-annotation-enclosing-scope",
            "falsy-default-kw", "typing-union-duplicate",
            "typing-union-flattened"]

CAUSES = {
    "definition-error": ["string-annotation-enclosing-scope", "falsy-default-kw"],
    "error-class-differs": ["typing-union-duplicate"],
}


def site(feats, phenomenon=None):
    """the known-divergence feature a difference is attributed to ('plain' = none: a new violation)"""
    for p in CAUSES.get(phenomenon, []) + PRIORITY:
        if p in feats:
            return p
    return "plain"


def compare_variants(a, b):
    """phenomenon in which two variants' observable behaviour differs, or None"""
    if ("def_err" in a) != ("def_err" in b):
        return "definition-error", f"one spelling raises {a.get('def_err') or b.get('def_err')} at class definition, the other defines the class"
    if "def_err" in a:
        if a["def_err"] != b["def_err"]:
            return "definition-error-class", f"{a['def_err']} vs {b['def_err']}"
        return None
    if "cls" in a and "cls" in b:
        fa, fb = [n for n, _ in a["cls"]["fields"]], [n for n, _ in b["cls"]["fields"]]
        if fa != fb:
            return "field-dropped", f"field sets differ: {fa} vs {fb}"
        if a["cls"]["required"] != b["cls"]["required"]:
            return "required-differs", f"_required {a['cls']['required']} vs {b['cls']['required']}"
        if a.get("factory") != b.get("factory") and a.get("factory") is not None and b.get("factory") is not None:
            return "default-factory-differs", (f"instances built without the field: {json.dumps(a['factory'])[:260]} vs "
                                               f"{json.dumps(b['factory'])[:260]}")
        if a["cls"]["defaults"] != b["cls"]["defaults"]:
            return "default-differs", f"defaults {a['cls']['defaults']} vs {b['cls']['defaults']}"
    for j, (x, y) in enumerate(zip(a.get("beh", []), b.get("beh", []))):
        if x != y:
            if ("ok" in x) != ("ok" in y):
                ph = "accept-reject-differs"
            elif "err" in x:
                ph = "error-class-differs"
            elif x.get("ok") != y.get("ok"):
                ph = "normal-form-differs"
            elif x.get("ser") != y.get("ser") or x.get("ser_err") != y.get("ser_err"):
                ph = "serialization-differs"
            else:
                ph = "deserialization-differs"
            return ph, f"kwargs #{j}: {json.dumps(x)[:200]} vs {json.dumps(y)[:200]}"
    if a.get("schema") != b.get("schema"):
        return "schema-differs", f"structure_to_schema: {str(a.get('schema'))[:220]} vs {str(b.get('schema'))[:220]}"
    if ("undumpable" in a) != ("undumpable" in b):      # same behaviour on the stream, but not the same kind of field
        return "field-kind-differs", f"{a.get('undumpable') or b.get('undumpable')}"
    return None


def oracle(case, impl, model):
    """the property, executed on the real code: every documented spelling behaves like the reference
    spelling (variant 0), and every supported spelling creates the documented class (Lean
    `fieldMeaning` evaluated by the driver)"""
    fails = []
    ref = impl["variants"][0]
    ref_feats = field_features(case, model, 0)
    for i, (v, iv, mv) in enumerate(zip(case["variants"], impl["variants"], model["variants"])):
        if not all(documented(f) for f in v["fields"]) or v.get("undocumented"):
            continue
        feats = field_features(case, model, i)
        srcs = (json.dumps([field_source(f)[0] for f in v["fields"]]) + (" [future]" if v["future"] else "")
                + (f" [in {v['scope']} scope]" if v.get("scope", "module") != "module" else ""))
        if i > 0:
            diff = compare_variants(ref, iv)
            if diff and diff[0] == "definition-error-class" and (
                    site(feats + ref_feats) != "plain"
                    or sum(1 for mf in model["variants"][0]["fields"] if "err" in mf["res"]) != 1):
                # both raise: the classes are only comparable when exactly one declaration is at fault and no
                # known divergence is in play (with two invalid defaults the first error depends on the path)
                diff = None
            if diff and "def_err" in ref and any(x != "falsy-default-kw" for x in feats):
                diff = None   # the reference itself is rejected (invalid default): only clean spellings are compared
            if diff:
                ph, what = diff
                ref_src = json.dumps([field_source(f)[0] for f in case["variants"][0]["fields"]])
                fails.append((f"{ph}:{site(feats + ref_feats, ph)}", f"{srcs} vs reference {ref_src}: {what}"))
        # documented meaning vs real class, field by field (only where the spec claims it)
        all_sup = all(mf["supported"] for mf in mv["fields"])
        if "cls" in iv:
            have = {n: d for n, d in iv["cls"]["fields"]}
            have_def = {n: x for n, x in iv["cls"]["defaults"]}
            for f, mf in zip(v["fields"], mv["fields"]):
                m = mf["meaning"]
                if not mf["supported"] and mf.get("flat"):
                    m = mf["flat"]       # directly nested Union / Optional / |: the flattened meaning (C13.elabField_meaningX)
                    if "err" in m:
                        continue
                elif not mf["supported"] or "err" in m or "dropped" in m:
                    continue
                ffeats = features(v, f, mf["annLen"])
                nm = f["name"]
                want = strip_marks(dump.normalize_decl(m["d"]))
                got = have.get(nm)
                if got != want:
                    fails.append((f"meaning-mismatch:{site(ffeats)}",
                                  f"{field_source(f)[0]}{' [future]' if v['future'] else ''}: documented meaning "
                                  f"{json.dumps(want, sort_keys=True)[:300]} but the class has {json.dumps(got, sort_keys=True)[:300]}"))
                elif v.get("required") is None and m["req"] != (nm in iv["cls"]["required"]):
                    fails.append((f"meaning-mismatch-required:{site(ffeats)}",
                                  f"{field_source(f)[0]}: documented required={m['req']}, class _required={iv['cls']['required']}"))
                elif m["hasDflt"] != (nm in have_def) or (m["hasDflt"] and dump.canon(m["dflt"]) != dump.canon(have_def[nm])):
                    fails.append((f"meaning-mismatch-default:{site(ffeats)}",
                                  f"{field_source(f)[0]}: documented default {m['dflt']!r}, class default {have_def.get(nm)!r}"))
        elif "def_err" in iv and all_sup:
            if not any("err" in mf["meaning"] for mf in mv["fields"]):
                fails.append((f"meaning-mismatch:{site(feats)}", f"{srcs}: raises {iv['def_err']} at definition: {iv.get('msg')}"))
    # de-duplicate by key
    out, seen = [], set()
    for k, w in fails:
        if k not in seen:
            seen.add(k)
            out.append((k, w))
    return out


def tags(case, impl, model):
    if case.get("oracle_only"):
        return ["oracle_only:struct:" + case["family"] + (":factory" if case["factory"] else "")]
    out = [f"fields:{len(case['meanings'])}", f"variants:{min(len(case['variants']) // 4 * 4, 40)}+"]
    for _, m in case["meanings"]:
        out.append("meaning:" + m["m"])
    n_err = sum(1 for iv in impl.get("variants", []) if "def_err" in iv)
    out.append("def_err_variants:" + ("0" if n_err == 0 else "1+"))
    if model and "out" in model:
        sup = sum(1 for mv in model["out"]["variants"] if mv["supported"])
        out.append("supported_variants:" + ("all" if sup == len(case["variants"]) else "some" if sup else "none"))
    for v in case["variants"]:
        if v["future"]:
            out.append("future_variant")
            break
    if model and "out" in model:
        if any(mf.get("flat") for mv in model["out"]["variants"] for mf in mv["fields"]):
            out.append("flattened_union_meaning_checked")
    for _, m in case["meanings"]:
        js = json.dumps(m)
        if '"struct"' in js:
            out.append("structure_class_field")
        if '"tup"' in js:
            out.append("two_tuple")
    if any(v.get("required") is not None for v in case["variants"]):
        out.append("explicit_required")
    return out


def depth_of(m):
    return 1 + max([depth_of(m[k]) for k in ("x", "y") if k in m] or [0])


def nontrivial(case):
    if case.get("oracle_only"):
        return True
    return any(depth_of(m) >= 2 or m["m"] == "lit" for _, m in case["meanings"]) or len(case["meanings"]) > 1


def describe(case, impl, model):
    if case.get("oracle_only"):
        return {"family": case["family"], "factory": case["factory"], "sources": [v["src"] for v in impl["variants"][:8]],
                "reference": impl["variants"][0]}
    return {"meanings": case["meanings"],
            "sources": [[field_source(f)[0] for f in v["fields"]] + (["future"] if v["future"] else [])
                        for v in case["variants"][:6]],
            "n_kwargs": len(case["kws"]),
            "impl_class": impl["variants"][0].get("cls"),
            "model_class": (model or {}).get("variants", [{}])[0].get("cls")}
