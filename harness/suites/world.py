"""
Suite `world` (C15): histories of class definitions and uses.

For every case (a set of class definitions, incl. same-named classes, implicit wrappers of same-named
user types, derived classes, classes sharing a field-factory function, and a random interleaving of
define / construct / serialize / deserialize / structure_to_schema / create_serializer / trusted
deserialization / global-default toggles):

  * the history is run against the real typedpy in a process forked from a pristine interpreter and
    the behaviour fingerprint of every class is taken at the end;
  * oracle: for every class, the same class is defined ALONE (only the definitions it depends on and
    the global-default toggles, no use of any class) in another pristine process and fingerprinted;
    the two fingerprints must be equal;
  * correspondence: the Lean `World` model (Sem/World.lean, configured from the generated registry
    table) runs the same history; its per-step observations, final class state and its verdict
    "view after history = view alone" are compared with the real code.
"""
import atexit
import concurrent.futures
import json
import os
import random
import subprocess
import sys
import threading

from . import world_exec as X

ROOT = os.path.dirname(os.path.dirname(os.path.dirname(os.path.abspath(__file__))))

# ------------------------------------------------------------------ fork server client

_prims = None
_local = threading.local()
_all_servers = []
_lock = threading.Lock()
N_WORKERS = int(os.environ.get("VERIF_WORLD_WORKERS", "8"))


def server():
    """one fork server per calling thread"""
    s = getattr(_local, "server", None)
    if s is None or s.poll() is not None:
        env = dict(os.environ)
        repo = os.environ.get("VERIF_REPO", "/repo")
        env["PYTHONPATH"] = os.pathsep.join([repo, ROOT, os.path.join(ROOT, ".deps")])
        env.setdefault("PYTHONHASHSEED", "0")
        s = subprocess.Popen([sys.executable, "-m", "harness.suites.world_exec"], cwd=ROOT, env=env,
                             stdin=subprocess.PIPE, stdout=subprocess.PIPE, text=True, bufsize=1)
        _local.server = s
        with _lock:
            if not _all_servers:
                atexit.register(_shutdown)
            _all_servers.append(s)
    return s


def _shutdown():
    with _lock:
        for s in _all_servers:
            try:
                s.stdin.close()
                s.wait(timeout=5)
            except Exception:
                s.kill()
        del _all_servers[:]


def call(job):
    s = server()
    s.stdin.write(json.dumps(job) + "\n")
    s.stdin.flush()
    line = s.stdout.readline()
    if not line:
        raise RuntimeError("world server died")
    return json.loads(line)


def prim_table():
    global _prims
    if _prims is None:
        _prims = call({"job": "prims"})["prims"]
    return _prims


# ------------------------------------------------------------------ generation

USE_OPS = ["construct", "serialize", "deserialize", "toSchema", "schemaCode", "createSerializer", "trusted"]
TYPE_NAMES = ["User", "Acct", "Item"]
CLASS_NAMES = ["K", "K", "Person", "Order", "Order", "Node"]
FLAGS = {"addProps": True, "compact": False, "failFast": True}
NAME_POOL = ["id", "name", "first_name", "zip_code", "item_id", "qty", "f_1", "f_2"]


def camel(key):
    """camel_case_convert of a key (typedpy's documented camelCase rule, `_convert_to_camelcase`)"""
    words = key.split("_")
    return words[0] + "".join(w.title() for w in words[1:])


def gen_fast_hierarchy_case(rng, tier, idx):
    """FastSerializable hierarchies that refer to each other: a fast root, 1-2 fast subclasses that add
    fields, 1-2 owner classes (fast or not) with direct / Array / optional ClassReference fields to them,
    possibly an owner of an owner; then uses in random order, incl. create_serializer with flags and
    instantiation without the optional references.  Outside the Lean model's vocabulary (oracle-only)."""
    prims = prim_table()
    fast_tags = [t for t in range(X.N_PRIMS) if prims[str(t)]["fastOk"] and not prims[str(t)]["inlines"]]
    used = set()

    def prim_field(default_ok=True):
        free = [n for n in NAME_POOL + ["level", "ref_no", "amount"] if n not in used]
        name = rng.choice(free)
        used.add(name)
        tag = rng.choice(fast_tags)
        f = {"name": name, "kind": {"prim": tag}, "key": ("m_" + name) if rng.random() < 0.25 else name}
        if default_ok and prims[str(tag)]["defaultable"] and rng.random() < 0.3:
            f["default"] = True
        return f

    def cls(name, fields, fast, parent=None):
        return {"name": name, "parent": parent, "fields": fields, "fast": fast,
                "addProps": rng.choice([None, None, False]), "ignoreNone": rng.random() < 0.2}
    srcs = [cls("Account", [prim_field(False) for _ in range(rng.randint(1, 2))], True)]
    fastc = [0]
    for _ in range(rng.randint(1, 2)):
        par = rng.choice(fastc)
        srcs.append(cls(rng.choice(["Premium", "Account", "Gold"]), [prim_field() for _ in range(rng.randint(1, 2))],
                        True, {"kind": "inherit", "c": par}))
        fastc.append(len(srcs) - 1)
    for _ in range(rng.randint(1, 2)):
        fast = rng.random() < 0.7
        tgts = [c for c in range(len(srcs)) if srcs[c]["fast"]]
        fields = [prim_field()]
        for _ in range(rng.randint(1, 2)):
            free = [n for n in ["account", "owner", "backup", "items"] if n not in used]
            if not free:
                break
            name = rng.choice(free)
            used.add(name)
            tgt = rng.choice(tgts[1:] if len(tgts) > 1 and rng.random() < 0.7 else tgts)
            arr = rng.random() < 0.25
            f = {"name": name, "kind": {"ref": tgt, "arr": arr}, "key": name}
            if not arr and rng.random() < 0.5:
                f["opt"] = True
            if rng.random() < 0.4:
                # the OWNER names keys of the nested class: _serialization_mapper = {"<field>._mapper": {...}}
                tnames = all_names(srcs, tgt)
                f["submap"] = {n_: "o_" + n_ for n_ in rng.sample(tnames, rng.randint(1, len(tnames)))}
            fields.append(f)
        rng.shuffle(fields)
        srcs.append(cls(rng.choice(["Order", "Order", "Invoice"]), fields, fast))
    ops = [{"op": "define", "c": c, "src": s} for c, s in enumerate(srcs)]
    n = len(srcs)
    for _ in range(rng.randint(2, 6 if tier == "quick" else 12)):
        c = rng.randrange(n)
        kind = rng.choice(["construct", "construct", "serialize", "createSerializer", "createSerializer",
                           "deserialize", "toSchema", "trusted"])
        op = {"op": kind, "c": c, "probe": "valid"}
        if kind in ("construct", "serialize", "deserialize") and rng.random() < 0.5:
            op["probe"] = "required"      # minimal instance: optional references omitted, arrays of classes empty
        if kind == "createSerializer" and rng.random() < 0.35:
            op["flags"] = {rng.choice(["serialize_none", "compact"]): True}
        if kind in ("serialize", "deserialize") and rng.random() < 0.3:
            op["camel"] = True
        ops.append(op)
    return {"suite": "world", "types": [], "ops": ops, "n": idx}


def all_names(srcs, c):
    """field names of class c of a list of sources, inherited ones included"""
    out = []
    while c is not None:
        out = [f["name"] for f in srcs[c]["fields"]] + out
        p = srcs[c].get("parent")
        c = p["c"] if p else None
    return out


SCOPED_PRIMS = sorted(X.PRIM_SRC)
SCOPED_NAMES = ["Address", "Item", "Person", "Order"]


def gen_scoped_case(rng, tier, idx, force_clash=None):
    """classes written to a module file on disk (string annotations: `from __future__ import annotations`, or
    quoted references), some at module level, some inside one or two functions, with class NAMES drawn from a
    pool of four so that a function-local class and a module-level class often share a name; fields refer to
    other classes BY NAME, resolved as Python resolves them (function locals first, then module globals)"""
    mode = rng.choice(["future", "future", "quoted"])
    n_classes = rng.randint(3, 6)
    srcs, ops = {}, []
    local_bind = {}     # scope -> {name: cid} (latest binding)
    global_bind = {}    # name -> cid
    fcount = [0]
    clash = rng.random() < 0.7 if force_clash is None else force_clash
    global_refs = {}    # scope -> names used there as module-level names: Python makes a name bound ANYWHERE in a
                        # function local to the whole function, so such a name may never be bound in that scope

    def resolve(name, scope):
        if scope != "module" and name in local_bind.get(scope, {}):
            return local_bind[scope][name]
        return global_bind.get(name)

    for c in range(n_classes):
        scope = rng.choice(["module", 1, 1, 2])
        if clash and c == 0:
            scope = "module"
        name = rng.choice(SCOPED_NAMES)
        if clash and c == 1:
            scope, name = 1, srcs[0]["name"]          # a function-local class named like a module-level one
        if clash and c == 2:
            scope = 1
        if scope != "module" and name in global_refs.get(scope, ()):
            name = rng.choice([n for n in SCOPED_NAMES + ["Extra"] if n not in global_refs[scope]])
        visible = [t for t in range(c) if resolve(srcs[t]["name"], scope) == t and srcs[t]["name"] != name]
        if clash and c == 2:
            visible = [t for t in visible if t == 1] or visible
        parent = None
        fast = rng.random() < 0.2
        inherit_from = [t for t in visible if not srcs[t]["fast"]] if not fast else [t for t in visible if srcs[t]["fast"]]
        if inherit_from and rng.random() < 0.2:
            parent = {"kind": "inherit", "c": rng.choice(inherit_from)}
            fast = srcs[parent["c"]]["fast"]
        taken = set()
        t_ = parent
        while t_:
            taken |= {f["name"] for f in srcs[t_["c"]]["fields"]}
            t_ = srcs[t_["c"]].get("parent")
        fields = []
        for _ in range(rng.randint(1, 3)):
            free = [n for n in NAME_POOL if n not in taken]
            if free and rng.random() < 0.5:
                fname = rng.choice(free)
            else:
                fcount[0] += 1
                fname = "f%d_v" % fcount[0]
            taken.add(fname)
            refable = [t for t in visible if not srcs[t]["fast"]] if not fast else []
            if refable and (rng.random() < 0.5 or (clash and c == 2 and not fields)):
                tgt = 1 if (clash and c == 2 and 1 in refable) else rng.choice(refable)
                f = {"name": fname, "kind": {"ref": tgt, "arr": rng.random() < 0.4}, "key": fname}
            else:
                tag = rng.choice(SCOPED_PRIMS)
                f = {"name": fname, "kind": {"prim": tag}, "key": ("m_" + fname) if rng.random() < 0.2 else fname}
                if X.PRIM_SRC[tag][1] is not None and rng.random() < 0.35:
                    f["default"] = True
            fields.append(f)
        if scope != "module":
            used = [f["kind"]["ref"] for f in fields if "ref" in f["kind"]] + ([parent["c"]] if parent else [])
            for t in used:
                if srcs[t]["scope"] == "module":
                    global_refs.setdefault(scope, set()).add(srcs[t]["name"])
        srcs[c] = {"name": name, "parent": parent, "fields": fields, "fast": fast, "addProps": None,
                   "ignoreNone": rng.random() < 0.2, "scope": scope}
        if scope == "module":
            global_bind[name] = c
        else:
            local_bind.setdefault(scope, {})[name] = c
        ops.append({"op": "define", "c": c, "src": srcs[c]})
        for _ in range(rng.randint(0, 2)):
            k = rng.choice(USE_OPS)
            ops.append({"op": k, "c": rng.randrange(c + 1), "probe": "valid"})
    return {"suite": "world", "types": [], "ops": ops, "n": idx, "scoped": {"mode": mode}}


def gen_case(rng, tier, idx):
    r0 = rng.random()
    if r0 < 0.2:
        return gen_fast_hierarchy_case(rng, tier, idx)
    if r0 < 0.32:
        return gen_scoped_case(rng, tier, idx)
    prims = prim_table()
    n_types = rng.randint(1, 4)
    types = [{"id": i, "name": rng.choice(TYPE_NAMES[:2] if rng.random() < 0.7 else TYPE_NAMES)} for i in range(n_types)]
    n_classes = rng.randint(2, 5 if tier == "quick" else 7)
    srcs = {}
    fieldnames = {}   # cid -> all field names
    fast = {}
    defines = []
    fcount = [0]
    # a quarter of the histories are about FastSerializable hierarchies that refer to each other: classes
    # (fast or not) with direct / Array ClassReference fields to FastSerializable classes and their
    # subclasses, optional reference fields, create_serializer flags.  The Lean model does not follow
    # references through create_serializer, so these histories are judged by the oracle alone.
    fastrefs = rng.random() < 0.08

    fast_owner = [False]

    def fresh_name(taken):
        """snake_case names (so camel_case_convert matters); half of them from a small pool, so that
        unrelated classes share field names"""
        if rng.random() < 0.5:
            free = [n for n in NAME_POOL if n not in taken]
            if free:
                return rng.choice(free)
        fcount[0] += 1
        return "f%d_v" % fcount[0]

    def gen_field(c, allow_ref, allow_default, taken):
        r = rng.random()
        f = {"name": fresh_name(taken)}
        plain = [d for d in range(c) if not fast[d]]
        fastcls = [d for d in range(c) if fast[d]]
        if fastrefs and fastcls and r < 0.45 and (allow_ref or fast_owner[0]):
            arr = rng.random() < 0.25
            f["kind"] = {"ref": rng.choice(fastcls), "arr": arr}
            if not arr and rng.random() < 0.5:
                f["opt"] = True
            f["key"] = f["name"]
            return f
        if r < 0.32 and types and not (fastrefs and fast_owner[0]):
            f["kind"] = {"wrap": rng.choice(types)["id"], "arr": rng.random() < 0.5}
        elif r < 0.42 and allow_ref and plain:
            tgt = rng.choice(plain)
            f["kind"] = {"ref": tgt, "arr": rng.random() < 0.3}
        elif r < 0.50 and allow_ref and len(plain) >= 2:
            f["kind"] = {"refs": rng.sample(plain, 2)}      # positional Array of two Structure item types
        else:
            tag = rng.randrange(X.N_PRIMS)
            if fastrefs and fast_owner[0]:
                tag = rng.choice([t for t in range(X.N_PRIMS) if prims[str(t)]["fastOk"]])
            f["kind"] = {"prim": tag}
            if allow_default and prims[str(tag)]["defaultable"] and rng.random() < 0.45:
                f["default"] = True
        r = rng.random()
        f["key"] = (f["name"] + "X") if r < 0.15 else ("m_" + f["name"]) if r < 0.33 else f["name"]
        return f

    for c in range(n_classes):
        r = rng.random()
        parent = None
        if c > 0 and r < 0.45:
            pc = rng.randrange(c)
            pk = rng.choice(["inherit", "inherit", "inherit", "omit", "pick", "partial", "allreq", "extend"])
            if pk == "inherit" and srcs[pc].get("parent") and srcs[pc]["parent"]["kind"] != "inherit":
                pk = "omit"
            parent = {"kind": pk, "c": pc}
            if pk in ("omit", "pick"):
                names = fieldnames[pc]
                k = rng.randint(1, max(1, len(names) - 1)) if names else 0
                parent["names"] = sorted(rng.sample(names, min(k, len(names))))
        src = {"name": rng.choice(CLASS_NAMES), "parent": parent, "fields": [], "fast": False,
               "addProps": rng.choice([None, None, None, True, False]), "ignoreNone": rng.random() < 0.3}
        if parent is None:
            src["fast"] = rng.random() < (0.6 if fastrefs else 0.3)
            nf = rng.randint(1, 3)
        elif parent["kind"] == "inherit":
            src["fast"] = fast[parent["c"]]
            nf = rng.randint(0, 2)
        else:
            nf = 0
            src["addProps"] = None
            src["ignoreNone"] = False
            src["name"] = rng.choice(CLASS_NAMES)
        inherited = list(fieldnames[parent["c"]]) if parent else []
        fast_owner[0] = src["fast"]
        for _ in range(nf):
            taken = inherited + [f["name"] for f in src["fields"]]
            src["fields"].append(gen_field(c, allow_ref=not src["fast"], allow_default=True, taken=taken))
        srcs[c] = src
        fast[c] = src["fast"]
        base = fieldnames[parent["c"]] if parent else []
        if parent and parent["kind"] == "omit":
            base = [n for n in base if n not in parent["names"]]
        if parent and parent["kind"] == "pick":
            base = [n for n in base if n in parent["names"]]
        fieldnames[c] = list(base) + [f["name"] for f in src["fields"]]
        defines.append({"op": "define", "c": c, "src": src})

    # interleave: defines stay in order; uses of already-defined classes and flag toggles in between
    n_use = rng.randint(2, 8 if tier == "quick" else 25)
    ops = []
    defined = []
    pending = list(defines)
    flags = dict(FLAGS)
    toggled = []
    while pending or n_use > 0:
        r = rng.random()
        if pending and (not defined or r < 0.45 or n_use <= 0):
            d = pending.pop(0)
            ops.append(d)
            defined.append(d["c"])
        elif r < 0.55 and len(toggled) < 3:
            fl = rng.choice(sorted(FLAGS))
            flags[fl] = not flags[fl]
            ops.append({"op": "setDefault", "flag": fl, "value": flags[fl]})
            toggled.append(fl)
            n_use -= 1
        elif toggled and r < 0.62:
            fl = toggled.pop()
            flags[fl] = FLAGS[fl]
            ops.append({"op": "setDefault", "flag": fl, "value": FLAGS[fl]})
            n_use -= 1
        else:
            c = rng.choice(defined)
            kind = rng.choice(USE_OPS)
            r_ = rng.random()
            # "valid1": the SECOND valid value of every field (for AnyOf fields with overlapping options: one that only
            # a later option accepts), so that what a Field object saw last differs from what it sees first
            op = {"op": kind, "c": c, "probe": "empty" if r_ < 0.15 else "valid1" if r_ < 0.4 else "valid"}
            if kind in ("serialize", "deserialize") and rng.random() < 0.4:
                op["camel"] = True       # use-parameter camel_case_convert
            if fastrefs and kind == "createSerializer" and rng.random() < 0.4:
                op["flags"] = {rng.choice(["serialize_none", "compact"]): True}
            if fastrefs and kind == "construct" and rng.random() < 0.4:
                op["probe"] = "required"
            ops.append(op)
            n_use -= 1
    if rng.random() < 0.7:       # usually restore the global defaults at the end
        for fl in sorted(FLAGS):
            if flags[fl] != FLAGS[fl]:
                ops.append({"op": "setDefault", "flag": fl, "value": FLAGS[fl]})
    return {"suite": "world", "types": types, "ops": ops, "n": idx}


def directed_cases():
    """the shapes of the two repaired defects (/repo 2a0935f, 6efdaf1) and their neighbours, always run"""
    t2 = [{"id": 0, "name": "User"}, {"id": 1, "name": "User"}]
    t2d = [{"id": 0, "name": "User"}, {"id": 1, "name": "Acct"}]

    def cls(name, fields, **kw):
        d = {"name": name, "parent": None, "fields": fields, "fast": False, "addProps": None, "ignoreNone": False}
        d.update(kw)
        return d

    def fld(name, kind, default=False, key=None):
        f = {"name": name, "kind": kind, "key": key or name}
        if default:
            f["default"] = True
        return f
    out = []
    for types in (t2, t2d):
        for arr in (False, True):
            out.append({"suite": "world", "types": types, "n": -1, "ops": [
                {"op": "define", "c": 0, "src": cls("A", [fld("x", {"wrap": 0, "arr": arr})])},
                {"op": "define", "c": 1, "src": cls("B", [fld("x", {"wrap": 1, "arr": not arr})])}]})
    s = cls("S", [fld("a", {"prim": 0}, key="aa"), fld("b", {"prim": 2}, default=True)], ignoreNone=True)
    for parent in ({"kind": "omit", "c": 0, "names": ["b"]}, {"kind": "pick", "c": 0, "names": ["a"]},
                   {"kind": "inherit", "c": 0}, {"kind": "partial", "c": 0}):
        out.append({"suite": "world", "types": [], "n": -1, "ops": [
            {"op": "define", "c": 0, "src": s},
            {"op": "toSchema", "c": 0, "probe": "valid"},
            {"op": "define", "c": 1, "src": cls("D", [], parent=parent)}]})
    one = cls("W", [fld("v", {"prim": 1}, default=True)], addProps=False)
    out.append({"suite": "world", "types": [], "n": -1, "ops": [
        {"op": "define", "c": 0, "src": one}, {"op": "toSchema", "c": 0, "probe": "valid"},
        {"op": "serialize", "c": 0, "probe": "valid"}]})
    fastb = cls("FB", [fld("a", {"prim": 0}), fld("b", {"prim": 2}, default=True, key="bb")], fast=True)
    out.append({"suite": "world", "types": [], "n": -1, "ops": [
        {"op": "define", "c": 0, "src": fastb},
        {"op": "define", "c": 1, "src": cls("FD", [fld("c", {"prim": 1})], parent={"kind": "inherit", "c": 0}, fast=True)},
        {"op": "createSerializer", "c": 1, "probe": "valid"}, {"op": "serialize", "c": 0, "probe": "valid"},
        {"op": "construct", "c": 1, "probe": "valid"}]})
    out.append({"suite": "world", "types": [], "n": -1, "ops": [
        {"op": "setDefault", "flag": "addProps", "value": False},
        {"op": "define", "c": 0, "src": cls("G", [fld("a", {"prim": 0})])},
        {"op": "setDefault", "flag": "addProps", "value": True},
        {"op": "define", "c": 1, "src": cls("G", [fld("a", {"prim": 0})])},
        {"op": "trusted", "c": 0, "probe": "valid"}]})
    # region: positional Array of several Structure item types, a later item class maps a field name the
    # first one also has; the container is used before / after the item classes
    a = cls("Item", [fld("id", {"prim": 0}), fld("name", {"prim": 2})])
    b = cls("Discount", [fld("id", {"prim": 0}, key="discount_id"), fld("qty", {"prim": 1}, default=True)])
    for order in ([0, 1], [1, 0]):
        for use in ("serialize", "toSchema", "deserialize", "construct"):
            for first in (None, "serialize"):
                ops = [{"op": "define", "c": 0, "src": a}, {"op": "define", "c": 1, "src": b},
                       {"op": "define", "c": 2, "src": cls("Line", [fld("parts", {"refs": order}), fld("n", {"prim": 0}, default=True)])}]
                if first:
                    ops.append({"op": first, "c": order[0], "probe": "valid"})
                ops.append({"op": use, "c": 2, "probe": "valid"})
                out.append({"suite": "world", "types": [], "n": -1, "ops": ops})
    out.append({"suite": "world", "types": [], "n": -1, "ops": [
        {"op": "define", "c": 0, "src": a}, {"op": "define", "c": 1, "src": b},
        {"op": "define", "c": 2, "src": cls("Line", [fld("first", {"ref": 0, "arr": True}), fld("second", {"ref": 1, "arr": False})])},
        {"op": "serialize", "c": 2, "probe": "valid"}, {"op": "toSchema", "c": 2, "probe": "valid"}]})
    # region: FastSerializable hierarchies that refer to each other.  Base <- Derived (adds a field),
    # Owner (fast or not) with a direct / Array reference to Derived or Base, optional or not; the
    # serializers are generated in every order (instantiation, create_serializer with and without
    # flags, Owner instantiated without the optional reference) before the first Derived instance exists
    base_ = cls("Account", [fld("id", {"prim": 0})], fast=True)
    der_ = cls("Premium", [fld("level", {"prim": 2})], fast=True, parent={"kind": "inherit", "c": 0})
    for owner_fast in (True, False):
        for tgt in (1, 0):
            for arr in (False, True):
                ref = fld("account", {"ref": tgt, "arr": arr})
                if not arr:
                    ref["opt"] = True
                own_ = cls("Order", [fld("ref_no", {"prim": 2}), ref], fast=owner_fast)
                defs = [{"op": "define", "c": 0, "src": base_}, {"op": "define", "c": 1, "src": der_},
                        {"op": "define", "c": 2, "src": own_}]
                for hist in (
                        [("construct", 0, {}), ("createSerializer", 2, {})],
                        [("createSerializer", 0, {}), ("construct", 2, {"probe": "required"})],
                        [("createSerializer", 2, {}), ("createSerializer", tgt, {"flags": {"serialize_none": True}})],
                        [("createSerializer", tgt, {"flags": {"serialize_none": True}}), ("createSerializer", 2, {})],
                        [("createSerializer", 2, {}), ("createSerializer", tgt, {"flags": {"compact": True}})],
                        [("serialize", 0, {}), ("serialize", 2, {}), ("construct", 1, {})],
                        [("construct", 0, {}), ("serialize", 2, {"probe": "required"})],
                        [("serialize", 2, {"probe": "required"}), ("createSerializer", tgt, {"flags": {"serialize_none": True}})],
                        [("construct", 2, {"probe": "required"}), ("construct", 0, {}), ("createSerializer", 1, {})]):
                    out.append({"suite": "world", "types": [], "n": -1, "ops": defs + [
                        dict({"op": k, "c": c_, "probe": "valid"}, **extra) for k, c_, extra in hist]})
    # region: the OWNER's mapper names keys of the nested FastSerializable class ("<field>._mapper"); the owner's
    # serializer is generated before the nested class was ever used
    for owner_fast in (True, False):
        for tgt in (1, 0):
            for arr in (False, True):
                ref = fld("account", {"ref": tgt, "arr": arr})
                ref["submap"] = {"id": "account_id"}
                own_ = cls("Order", [fld("ref_no", {"prim": 2}), ref], fast=owner_fast)
                defs = [{"op": "define", "c": 0, "src": base_}, {"op": "define", "c": 1, "src": der_},
                        {"op": "define", "c": 2, "src": own_}]
                for hist in ([("createSerializer", 2, {}), ("construct", tgt, {})],
                             [("serialize", 2, {}), ("serialize", tgt, {})],
                             [("toSchema", 2, {}), ("deserialize", tgt, {})]):
                    out.append({"suite": "world", "types": [], "n": -1, "ops": defs + [
                        dict({"op": k, "c": c_, "probe": "valid"}, **extra) for k, c_, extra in hist]})
    # region of the open finding mro-resolved-serialize-skips-generation: a FastSerializable owner of a class whose
    # own serializer cannot be generated (field 11 = AnyOf of two types), whose base class is used first
    gold_ = cls("Gold", [fld("bad", {"prim": 11})], fast=True, parent={"kind": "inherit", "c": 0})
    for arr in (False, True):
        ref = fld("b", {"ref": 1, "arr": arr})
        if not arr:
            ref["opt"] = True
        own_ = cls("Order", [fld("n", {"prim": 0}), ref], fast=True)
        for hist in ([("construct", 0, "valid")], [("createSerializer", 0, "valid")],
                     [("construct", 0, "valid"), ("construct", 2, "required")]):
            out.append({"suite": "world", "types": [], "n": -1, "ops": [
                {"op": "define", "c": 0, "src": base_}, {"op": "define", "c": 1, "src": gold_},
                {"op": "define", "c": 2, "src": own_}] + [{"op": k, "c": c_, "probe": pr} for k, c_, pr in hist]})
    # region: two DISTINCT nested classes with the same bare name, each referenced (directly / as Array item) by its own
    # outer class; the outer classes are exported into one shared definitions accumulator (fingerprint, third phase)
    addr0 = cls("Address", [fld("street", {"prim": 2}), fld("zip_code", {"prim": 0})])
    addr1 = cls("Address", [fld("host", {"prim": 2}), fld("port", {"prim": 1}, default=True)])
    for arr0 in (False, True):
        for arr1 in (False, True):
            for use in ([], [("toSchema", 2)], [("toSchema", 3), ("toSchema", 2)]):
                out.append({"suite": "world", "types": [], "n": -1, "ops": [
                    {"op": "define", "c": 0, "src": addr0}, {"op": "define", "c": 1, "src": addr1},
                    {"op": "define", "c": 2, "src": cls("Invoice", [fld("billing", {"ref": 0, "arr": arr0}), fld("id", {"prim": 0})])},
                    {"op": "define", "c": 3, "src": cls("Endpoint", [fld("address", {"ref": 1, "arr": arr1}), fld("name", {"prim": 2})])}] + [
                    {"op": k, "c": c_, "probe": "valid"} for k, c_ in use]})
    # region: AnyOf fields whose options overlap and normalise differently, inherited / re-used by a derived
    # class; the derived class is used with a value only the later option accepts, then the base class is used
    for tag in (27, 28, 29):
        b_ = cls("Event", [fld("when", {"prim": tag}), fld("id", {"prim": 0})])
        for pk in ("inherit", "extend", "partial", "omit", "pick"):
            par = {"kind": pk, "c": 0}
            if pk == "omit":
                par["names"] = ["id"]
            if pk == "pick":
                par["names"] = ["when"]
            d_ = cls("Meeting", [fld("room", {"prim": 2})] if pk == "inherit" else [], parent=par)
            for hist in ([("construct", 1, "valid1")], [("deserialize", 1, "valid1"), ("serialize", 0, "valid")],
                         [("construct", 0, "valid1"), ("construct", 1, "valid")]):
                out.append({"suite": "world", "types": [], "n": -1, "ops": [
                    {"op": "define", "c": 0, "src": b_}, {"op": "define", "c": 1, "src": d_}] + [
                    {"op": k, "c": c_, "probe": pr} for k, c_, pr in hist]})
    # region: date/time/ip/host kinds WITH a default in one class and WITHOUT in another (same and sibling
    # kinds share a JSON-schema shape); the defaulted class is schema-mapped first
    for ta, tb in ((18, 18), (18, 20), (20, 18), (19, 21), (21, 19), (19, 19), (23, 23), (24, 24), (20, 20), (21, 21)):
        for first in ("toSchema", "schemaCode"):
            out.append({"suite": "world", "types": [], "n": -1, "ops": [
                {"op": "define", "c": 0, "src": cls("Event", [fld("day", {"prim": ta}, default=True), fld("id", {"prim": 0})])},
                {"op": "define", "c": 1, "src": cls("Visit", [fld("when", {"prim": tb}), fld("name", {"prim": 2})])},
                {"op": first, "c": 0, "probe": "valid"}, {"op": "toSchema", "c": 1, "probe": "valid"}]})
    # region: every derivation operator applied to a class with optional, defaulted and renamed fields; the
    # source class is used before and after
    src_ = cls("S", [fld("a", {"prim": 0}, key="m_a"), fld("b", {"prim": 2}, default=True),
                     fld("zip_code", {"prim": 1})], ignoreNone=True)
    for pk in ("allreq", "extend", "partial", "omit", "pick", "inherit"):
        par = {"kind": pk, "c": 0}
        if pk in ("omit", "pick"):
            par["names"] = ["a"]
        for pre in ([], [{"op": "toSchema", "c": 0, "probe": "valid"}]):
            out.append({"suite": "world", "types": [], "n": -1, "ops": [{"op": "define", "c": 0, "src": src_}] + pre + [
                {"op": "define", "c": 1, "src": cls("D", [], parent=par)},
                {"op": "construct", "c": 1, "probe": "valid"}, {"op": "serialize", "c": 0, "probe": "valid"}]})
    # region: the same class serialized with different camel_case_convert values, in both orders
    p_ = cls("Person", [fld("first_name", {"prim": 2}), fld("zip_code", {"prim": 0}, default=True, key="m_zip_code"),
                        fld("id", {"prim": 0})])
    pf = cls("Person", [fld("first_name", {"prim": 2}), fld("zip_code", {"prim": 0}, default=True)], fast=True)
    for src in (p_, pf):
        for seq in ([True], [False, True], [True, False], [True, True]):
            for kind in ("serialize", "deserialize"):
                out.append({"suite": "world", "types": [], "n": -1, "ops": [{"op": "define", "c": 0, "src": src}] + [
                    {"op": kind, "c": 0, "probe": "valid", "camel": cm} for cm in seq]})
    return out


def gen_cases(rng, tier, n, directed=True):
    if not directed:        # search / deepening streams: the directed histories were run by the main stream
        return [gen_case(rng, tier, i) for i in range(n)]
    fixed = random.Random(20260926)
    scoped = [gen_scoped_case(fixed, tier, -1, force_clash=True) for _ in range(30)]
    return directed_cases() + scoped + [gen_case(rng, tier, i) for i in range(n)]


# ------------------------------------------------------------------ dependency closure / slices

def deps_of(case, c):
    srcs = {op["c"]: op["src"] for op in case["ops"] if op["op"] == "define"}
    need, stack = set(), [c]
    while stack:
        d = stack.pop()
        if d in need or d not in srcs:
            continue
        need.add(d)
        s = srcs[d]
        if s.get("parent"):
            stack.append(s["parent"]["c"])
        for f in s["fields"]:
            if "ref" in f["kind"]:
                stack.append(f["kind"]["ref"])
            if "refs" in f["kind"]:
                stack.extend(f["kind"]["refs"])
    return need


def slice_ops(case, keep):
    """the definitions of `keep`, every global-default toggle and every explicit serializer CONFIGURATION
    of a class in `keep` (create_serializer with serialize_none / compact is documented to change how that
    class serializes; a later plain create_serializer on the same class resets it), in history order; no
    other use of any class"""
    out, configured = [], set()
    for op in case["ops"]:
        if (op["op"] == "define" and op["c"] in keep) or op["op"] == "setDefault":
            out.append(op)
        elif op["op"] == "createSerializer" and op["c"] in keep and (op.get("flags") or op["c"] in configured):
            out.append(op)
            configured.add(op["c"])
    return out


def oracle_only(case):
    """histories outside the model's vocabulary: judged on the real code alone.  Nested fast serialization
    (references to FastSerializable classes, optional references, create_serializer flags, minimal instances,
    owner-side nested mappers) IS in the model; positional arrays of FastSerializable item classes and classes
    written to a module file are not"""
    if case.get("scoped"):
        return False       # (modelled as before: plain references by name)
    fastc = {op["c"] for op in case["ops"] if op["op"] == "define" and op["src"].get("fast")}
    for op in case["ops"]:
        if op["op"] == "define":
            for f in op["src"]["fields"]:
                k = f["kind"]
                if "refs" in k and set(k["refs"]) & fastc:
                    return True
    return False


def class_ids(case):
    return [op["c"] for op in case["ops"] if op["op"] == "define"]


# ------------------------------------------------------------------ real code

def run_impl_now(case):
    ids = class_ids(case)
    hist = call({"types": case["types"], "ops": case["ops"], "fp": ids, "scoped": case.get("scoped")})
    if "harness_exc" in hist:
        return hist
    alone = {}
    closures = {}
    for c in ids:
        keep = deps_of(case, c)
        closures[str(c)] = sorted(keep)
        r = call({"types": case["types"], "ops": slice_ops(case, keep), "fp": [c], "scoped": case.get("scoped")})
        if "harness_exc" in r:
            return r
        alone[str(c)] = {"fp": r["fp"].get(str(c)), "state": r["state"].get(str(c)),
                         "defined": str(c) in r["state"]}
    return {"hist": hist, "alone": alone, "closures": closures, "prims": prim_table()}


_pending = []
_results = {}


def _key(case):
    return json.dumps(case, sort_keys=True)


def announce(cases):
    """cases that `run_impl` will be asked for next: they are executed concurrently (one fork server per
    worker thread) on the first `run_impl` call; every job still runs in its own pristine child"""
    _pending.extend(cases)
    return cases


BATCH = 256


def run_impl(case):
    k = _key(case)
    if _pending and k not in _results:
        # run the announced cases concurrently, a bounded batch at a time (the caller may stop asking — time budget —
        # long before the announced stream is exhausted), up to and including the case asked for
        # (cases are asked for in the order they were announced: what precedes the one asked for was announced by a
        # stream the caller abandoned and is dropped; a case that was never announced is simply run now)
        idx = next((i for i, c in enumerate(_pending) if c is case), None)
        if idx is None:
            idx = next((i for i, c in enumerate(_pending) if _key(c) == k), None)
        if idx is not None:
            batch = list(_pending[idx:idx + BATCH])
            del _pending[:idx + BATCH]
            prim_table()
            with concurrent.futures.ThreadPoolExecutor(N_WORKERS) as ex:
                for c, r in zip(batch, ex.map(_safe_run, batch)):
                    _results[_key(c)] = r
    r = _results.pop(k, None)
    if r is None:
        r = run_impl_now(case)
    if isinstance(r, Exception):
        raise r
    return r


def _safe_run(case):
    try:
        return run_impl_now(case)
    except Exception as e:   # re-raised in run_impl so that core records it per case
        return e


# ------------------------------------------------------------------ the bridge to concrete declarations (Sem/WorldDecl.lean)

# tags whose field object harness/dump.py maps to a FieldDecl of Sem/Validate (formatted strings, DecimalNumber and
# the date/time fields stay opaque here: C01/C02 own them)
DECL_TAGS = [0, 1, 2, 3, 4, 5, 6, 7, 8, 9, 10, 11, 13, 14, 15, 16, 17, 28, 29]
_decl_table = None


def decl_table():
    """tag -> (FieldDecl json, [valid0, valid1, invalid] value jsons, default value json or None), dumped from the
    REAL field objects and values of the executor's vocabulary"""
    global _decl_table
    if _decl_table is None:
        from .. import dump
        P, _ = X._prims()
        t = {}
        for tag in DECL_TAGS:
            try:
                f = P[tag][0](False)
                if not hasattr(f, "__set__"):
                    f = f()             # a field-factory function
                d = dump.dump_field(f)
                vals = [dump.dump_value(P[tag][i]) for i in (1, 2, 3)]
                dflt = dump.dump_value(P[tag][4]) if P[tag][4] is not None else None
                if '"x"' in json.dumps([d, vals]) and "opaque" in json.dumps([d, vals]):
                    continue
                t[tag] = (d, vals, dflt)
            except Exception:
                continue
        _decl_table = t
    return _decl_table


def _inst(name):
    return {"o": [name, []]}


def decl_value(f, which, types):
    """wire value of the `which`-th value the executor uses for field f (0 / 1 valid, 2 invalid), or None"""
    k = f["kind"]
    if "prim" in k:
        row = decl_table().get(k["prim"])
        return None if row is None else row[1][which]
    if "wrap" in k:
        if which == 2:
            return None
        v = _inst("U#%d" % k["wrap"])
    elif "refs" in k:
        if which == 2:
            return None
        return {"l": [_inst("#%d" % r) for r in k["refs"]]}
    else:
        if which == 2:
            return None
        v = _inst("#%d" % k["ref"])
    return {"l": [v]} if k.get("arr") else v


def decl_block(case, impl):
    """concrete probes for the classes whose fields all have a declaration: the executor's probe argument sets
    (by name) rebuilt as wire values, with the real constructor's verdict taken from the fingerprint"""
    hist = impl.get("hist") or {}
    if (hist.get("world") or {}).get("flags") != FLAGS:
        return None, {}
    srcs = srcs_of(case)
    table = decl_table()
    probes, expect = [], {}
    for c in class_ids(case)[:3]:
        fp = (hist.get("fp") or {}).get(str(c))
        if not fp or c not in srcs:
            continue
        try:
            fields = flat_fields(srcs, c)
        except KeyError:
            continue
        if any("prim" in f["kind"] and f["kind"]["prim"] not in table for f in fields):
            continue
        real = {}
        for ent in fp.get("accept", []):
            real[ent[0]] = "ok" if (len(ent) == 2 and isinstance(ent[1], dict)) else ent[1]
        v0 = [[f["name"], decl_value(f, 0, case["types"])] for f in fields]
        v1 = [[f["name"], decl_value(f, 1 if "prim" in f["kind"] else 0, case["types"])] for f in fields]
        cand = [("valid0", v0), ("valid1", v1), ("extra", v0 + [["zz_extra", 1]]), ("empty", [])]
        for f in fields:
            n = f["name"]
            cand.append(("missing:" + n, [kv for kv in v0 if kv[0] != n]))
            if "prim" in f["kind"]:
                cand.append(("alt1:" + n, [[a, (decl_value(f, 2, None) if a == n else b)] for a, b in v0]))
                cand.append(("alt2:" + n, [[a, (decl_value(f, 1, None) if a == n else b)] for a, b in v0]))
        for name, kw in cand:
            if name not in real or real[name] == "skip" or any(v is None for _, v in kw):
                continue
            probes.append({"c": c, "name": name, "kw": kw})
            expect[(c, name)] = real[name]
    if not probes:
        return None, {}
    block = {"prims": [[str(t), row[0]] for t, row in sorted(table.items())],
             "defaults": [[str(t), row[2]] for t, row in sorted(table.items()) if row[2] is not None],
             "probes": probes}
    return block, expect


# ------------------------------------------------------------------ wire

def wire_field(f, prims):
    k = f["kind"]
    if "prim" in k:
        p = prims[str(k["prim"])]
        kind = {"prim": k["prim"]}
    elif "wrap" in k:
        p = prims["wrapArr" if k.get("arr") else "wrap"]
        kind = {"wrap": k["wrap"]}
    elif "refs" in k:
        p = prims["refs"]
        kind = {"refs": list(k["refs"])}
    else:
        p = prims["refArr" if k.get("arr") else "ref"]
        kind = {"ref": k["ref"]}
    key = f.get("key") or f["name"]
    return {"name": f["name"], "kind": kind, "default": bool(f.get("default")), "key": key,
            "camelKey": camel(key), "camelName": camel(f["name"]),
            "fastOk": p["fastOk"], "trustedOk": p["trustedOk"], "schemaOk": p["schemaOk"], "inlines": p["inlines"],
            "arr": bool(k.get("arr")), "optional": bool(f.get("opt")),
            "subKeys": sorted([a, b] for a, b in (f.get("submap") or {}).items())}


def flat_fields(srcs, c):
    src = srcs[c]
    own = list(src["fields"])
    p = src.get("parent")
    if not p or p["c"] not in srcs:
        return own
    base = flat_fields(srcs, p["c"])
    ownn = {f["name"] for f in own}
    if p["kind"] == "inherit":
        base = [f for f in base if f["name"] not in ownn]
    elif p["kind"] == "omit":
        base = [f for f in base if f["name"] not in p["names"]]
    elif p["kind"] == "pick":
        base = [f for f in base if f["name"] in p["names"]]
    return base + own


def valid_args(srcs, c, probe="valid", pre=None):
    """the abstract image of `Env.valid_kwargs` / `Env.required_kwargs` (what the executor passes for the probes
    'valid', 'valid1' and 'required'); `pre` receives, innermost first, the instances of Structure classes the
    executor constructs for these arguments: [class, its arguments]"""
    kw = []
    for f in flat_fields(srcs, c):
        k = f["kind"]
        if probe == "required" and (f.get("opt") or f.get("default")):
            continue
        if "prim" in k:
            a = {"prim": k["prim"], "valid": True}
        elif "wrap" in k:
            a = {"inst": k["wrap"]}
        elif "refs" in k:
            a = {"structs": list(k["refs"])}
            if pre is not None:
                for r in k["refs"]:
                    pre.append([r, valid_args(srcs, r, "valid", pre)])
        elif probe == "required" and k.get("arr"):
            a = {"noItems": True}
        else:
            a = {"struct": k["ref"]}
            if pre is not None:
                pre.append([k["ref"], valid_args(srcs, k["ref"], "valid", pre)])
        kw.append([f["name"], a])
    return kw


def line(case, impl):
    if oracle_only(case):
        return None
    prims = impl.get("prims") or prim_table()
    names = {t["id"]: t["name"] for t in case["types"]}
    ops = []
    srcs = {}
    for op in case["ops"]:
        if op["op"] == "define":
            s = op["src"]
            srcs[op["c"]] = s
            fields = []
            for f in s["fields"]:
                w = wire_field(f, prims)
                if "wrap" in w["kind"]:
                    w["kind"]["name"] = names[w["kind"]["wrap"]]
                fields.append(w)
            ops.append({"op": "define", "c": op["c"], "src": {
                "name": s["name"], "parent": s.get("parent"), "fields": fields, "fast": bool(s.get("fast")),
                "addProps": s.get("addProps")}})
        elif op["op"] == "setDefault":
            ops.append(op)
        else:
            o = {"op": op["op"], "c": op["c"], "camel": bool(op.get("camel"))}
            if op.get("flags"):
                o["flags"] = op["flags"]
            if op["op"] in ("construct", "serialize", "deserialize", "trusted") and op["c"] in srcs:
                if op["op"] == "construct" and op.get("probe") == "empty":
                    o["kw"] = []
                else:
                    pre = []
                    o["kw"] = valid_args(srcs, op["c"], op.get("probe") or "valid", pre)
                    o["pre"] = pre
            ops.append(o)
    out = {"suite": "world", "ops": ops, "closures": impl.get("closures", {})}
    block, _ = decl_block(case, impl)
    if block:
        out["decl"] = block
    return out


# ------------------------------------------------------------------ judging

def fp_diff(a, b):
    """first differing component of two fingerprints"""
    if a is None or b is None:
        return "class not defined on one side"
    for k in sorted(set(a) | set(b)):
        if a.get(k) != b.get(k):
            x, y = a.get(k), b.get(k)
            if isinstance(x, list) and isinstance(y, list):
                for i, (p, q) in enumerate(zip(x, y)):
                    if p != q:
                        return f"{k}[{i}]: after history {json.dumps(p)[:160]} / alone {json.dumps(q)[:160]}"
            return f"{k}: after history {json.dumps(x)[:160]} / alone {json.dumps(y)[:160]}"
    return None


def finding_key(case, c, impl, model):
    """registry-keyed finding key for an interference on class c, from what the MODEL blames;
    'unexplained' when the model predicts no interference"""
    causes = []
    for d in impl.get("closures", {}).get(str(c), [c]):
        causes += ((model or {}).get("classes", {}).get(str(d)) or {}).get("causes") or []
    cfg = (model or {}).get("config") or {}
    if "wrapper-clash" in causes:
        return "name-keyed:FieldMeta._registry"
    if "mapper-cache" in causes and cfg.get("mapperDropsCamel"):
        return "key-drops-argument:aggregated_mapper_by_class"
    if "mapper-cache" in causes and cfg.get("mapperByName"):
        return "name-keyed:aggregated_mapper_by_class"
    if "required-written" in causes:
        return "mutates-cls._required:structure_to_schema"
    if "instantiable" in causes:
        return "mro-read:cls.serialize:_verify_is_fast_serializable"
    if causes:
        return "model-predicted:" + "+".join(sorted(set(causes)))
    return "unexplained-interference"


def judge(case, impl, model):
    msgs, fails = [], []
    hist = impl["hist"]
    ids = class_ids(case)
    # ---- oracle: fingerprint after the history == fingerprint alone
    real_interf = {}
    for c in ids:
        a = hist["fp"].get(str(c))
        b = impl["alone"][str(c)]["fp"]
        d = fp_diff(a, b) if (a is not None or b is not None) else None
        if d:
            real_interf[c] = d
    if model is None:      # oracle-only history (outside the model's vocabulary)
        # no registry-keyed attribution here: every difference in an oracle-only history is reported under the
        # generic key (the finding that used to cover Array-of-FastSerializable holders is fixed, /repo 1424460)
        for c, d in sorted(real_interf.items()):
            fails.append(("unexplained-interference",
                          f"class {c} ({case_name(case, c)}) behaves differently after the history than alone: {d}"))
        return None, fails
    # ---- correspondence with the Lean World model
    msteps = model.get("steps", [])
    if len(msteps) != len(hist["steps"]):
        msgs.append(f"model ran {len(msteps)} steps, real code {len(hist['steps'])}")
    for i, (op, rs, ms) in enumerate(zip(case["ops"], hist["steps"], msteps)):
        if op["op"] == "define":
            if bool(rs.get("done")) != bool(ms.get("done")):
                msgs.append(f"step {i} define c={op['c']}: real done={rs.get('done')} ({rs.get('err')}: {rs.get('msg')}) model done={ms.get('done')}")
            elif rs.get("done"):
                if dict(rs.get("wraps", {})) != {k: v for k, v in ms.get("wraps", {}).items()}:
                    msgs.append(f"step {i} define c={op['c']}: implicit wrappers check {rs.get('wraps')} in the real code, {ms.get('wraps')} in the model")
        elif op["op"] == "serialize" and "keys" in rs and "err" not in rs and ms is not None:
            # (a one-field FastSerializable class whose serializer was generated with compact=True serializes to the bare
            # value of its field — when that is a nested document, its keys are the nested class's)
            one_fast = is_fast_class(case, op["c"]) and len(flat_fields(srcs_of(case), op["c"])) == 1
            if bool(ms.get("accepted")) and not one_fast and sorted(ms.get("keys", [])) != rs["keys"]:
                msgs.append(f"step {i} serialize c={op['c']} camel_case_convert={bool(op.get('camel'))}: "
                            f"emitted keys {rs['keys']} real, {sorted(ms.get('keys', []))} model")
            if bool(ms.get("accepted")) and "doc" in rs and ms.get("doc") not in (None, "slow") \
                    and not doc_match(ms["doc"], rs["doc"]):
                msgs.append(f"step {i} serialize c={op['c']}: x.serialize() has shape {json.dumps(rs['doc'], sort_keys=True)[:200]} "
                            f"real, {json.dumps(ms['doc'], sort_keys=True)[:200]} model")
        elif op["op"] == "createSerializer" and rs.get("done") and ms is not None and ms.get("done"):
            if bool(ms.get("accepted")) != ("err" not in rs):
                msgs.append(f"step {i} create_serializer c={op['c']} {op.get('flags') or ''}: real "
                            f"{'raised ' + rs['err'] if 'err' in rs else 'got through'}, model accepted={ms.get('accepted')}")
        if op["op"] == "construct" and rs.get("done") and ms is not None and ms.get("done") \
                and op.get("probe") != "empty" and is_fast_class(case, op["c"]):
            if bool(ms.get("instantiable")) != ("err" not in rs) and rs.get("err") in (None, "TypeError"):
                msgs.append(f"step {i} {op['op']} c={op['c']}: real {'raised ' + str(rs.get('err')) if 'err' in rs else 'instantiated'}, "
                            f"model instantiable={ms.get('instantiable')}")
        if ms is not None and "sers" in rs and "sers" in ms and sorted(ms["sers"]) != rs["sers"]:
            msgs.append(f"step {i} {op['op']} c={op.get('c')}: classes with their own generated serializer {rs['sers']} real, "
                        f"{sorted(ms['sers'])} model")
        elif op["op"] == "toSchema" and rs.get("done") and "required" in rs:
            if sorted(ms.get("requiredAfter") or []) != rs["required"]:
                msgs.append(f"step {i} toSchema c={op['c']}: _required after = {rs['required']} real, {sorted(ms.get('requiredAfter') or [])} model")
            if "schemaRequired" in rs and len(flat_fields(srcs_of(case), op["c"])) > 1 \
                    and sorted(ms.get("keys", [])) != rs["schemaRequired"]:
                msgs.append(f"step {i} toSchema c={op['c']}: schema 'required' = {rs['schemaRequired']} real, {sorted(ms.get('keys', []))} model")
            if "err" not in rs and bool(ms.get("wrote")) != bool(rs.get("wrote")):
                msgs.append(f"step {i} toSchema c={op['c']}: wrote _required real={rs.get('wrote')} model={ms.get('wrote')}")
    # ---- the declaration assembled from the model's VIEW, run through Sem/Validate on the concrete probe arguments,
    #      against the real constructor (accept / reject and exception class)
    if model.get("declResults"):
        _, expect = decl_block(case, impl)
        for r in model["declResults"]:
            want = expect.get((r.get("c"), r.get("name")))
            if want is None or r.get("res") in ("outside", "undefined"):
                continue
            if r["res"] != want:
                msgs.append(f"class {r['c']} ({case_name(case, r['c'])}) probe {r['name']}: real constructor {want}, "
                            f"Sem/Validate on the declaration assembled from the model's view {r['res']}")
    mw = model.get("world", {})
    if mw and mw.get("counter") != hist["world"]["counter"]:
        msgs.append(f"StructureReference.counter real={hist['world']['counter']} model={mw.get('counter')}")
    if mw and mw.get("flags") != hist["world"]["flags"]:
        msgs.append(f"flags real={hist['world']['flags']} model={mw.get('flags')}")
    for c in ids:
        rs = hist["state"].get(str(c))
        mc = model.get("classes", {}).get(str(c))
        if rs is None or mc is None:
            if (rs is None) != (mc is None):
                msgs.append(f"class {c}: defined real={rs is not None} model={mc is not None}")
            continue
        for k in ("required", "sigRequired"):
            if sorted(mc[k]) != rs[k]:
                msgs.append(f"class {c} {k}: real {rs[k]} model {sorted(mc[k])}")
        for k in ("kwargs", "ownSerialize", "created"):
            if bool(mc[k]) != bool(rs[k]):
                msgs.append(f"class {c} {k}: real {rs[k]} model {mc[k]}")
        if mc["mapperCached"] and not rs["mapperCached"] and not has_ref(case, c):
            msgs.append(f"class {c}: model has a mapper cache entry, real code none")
        if sorted(mc["fields"]) != sorted(rs["fields"]):
            msgs.append(f"class {c} fields: real {sorted(rs['fields'])} model {sorted(mc['fields'])}")
        if not mc.get("closed", True):
            msgs.append(f"class {c}: dependency set sent by the harness is not closed in the model")
        # interference verdicts: the model's verdict on a class must show in the real fingerprint; a real
        # difference must be predicted for the class or for a class it depends on (its fingerprint
        # embeds instances of the classes it refers to)
        mi = bool(mc["interferes"])
        ri = c in real_interf
        dep_mi = any(bool((model.get("classes", {}).get(str(d)) or {}).get("interferes"))
                     for d in impl["closures"].get(str(c), [c]))
        if mi and not ri:
            msgs.append(f"class {c} ({case_name(case, c)}): model says interference ({mc.get('causes')}), "
                        f"real code behaves as alone")
        if ri and not dep_mi:
            msgs.append(f"class {c} ({case_name(case, c)}): model says no interference, "
                        f"real code differs: {real_interf[c]}")
    for c, d in sorted(real_interf.items()):
        key = finding_key(case, c, impl, model)
        fails.append((key, f"class {c} ({case_name(case, c)}) behaves differently after the history than alone: {d}"))
    return ("; ".join(msgs[:4]) if msgs else None), fails


def doc_match(m, r):
    """model document shape against the real one; "?" (a one-field class, which may serialize to its bare value)
    matches anything"""
    if m == "?":
        return True
    if isinstance(m, dict):
        return isinstance(r, dict) and sorted(m) == sorted(r) and all(doc_match(m[k], r[k]) for k in m)
    if isinstance(m, list):
        return isinstance(r, list) and len(m) == len(r) and all(doc_match(a, b) for a, b in zip(m, r))
    return m == r


def is_fast_class(case, c):
    return bool(srcs_of(case).get(c, {}).get("fast"))


def srcs_of(case):
    return {op["c"]: op["src"] for op in case["ops"] if op["op"] == "define"}


def has_ref(case, c):
    srcs = {op["c"]: op["src"] for op in case["ops"] if op["op"] == "define"}
    return any("ref" in f["kind"] or "refs" in f["kind"] for f in flat_fields(srcs, c))


def case_name(case, c):
    for op in case["ops"]:
        if op["op"] == "define" and op["c"] == c:
            return op["src"]["name"]
    return "?"


def tags(case, impl, model):
    out = ["ops:%d" % min(30, 5 * (len(case["ops"]) // 5))]
    out.append("oracle-only" if oracle_only(case) else "modelled")
    for op in case["ops"]:
        out.append("op:" + op["op"])
        if op["op"] == "define":
            p = op["src"].get("parent")
            out.append("class:" + (p["kind"] if p else "root") + (":fast" if op["src"].get("fast") else ""))
            for f in op["src"]["fields"]:
                out.append("field:" + next(iter(f["kind"])))
    names = [t["name"] for t in case["types"]]
    if len(set(names)) < len(names):
        out.append("same-named-user-types")
    cn = [op["src"]["name"] for op in case["ops"] if op["op"] == "define"]
    if len(set(cn)) < len(cn):
        out.append("same-named-classes")
    if isinstance(impl, dict) and "hist" in impl:
        n = sum(1 for c in class_ids(case)
                if impl["hist"]["fp"].get(str(c)) != impl["alone"][str(c)]["fp"])
        out.append("interfering-classes:%d" % n)
    return out


def nontrivial(case):
    return len(case["ops"]) >= 3


def describe(case, impl, model):
    return {"ops": [(o["op"], o.get("c"), (o.get("src") or {}).get("name")) for o in case["ops"]],
            "types": case["types"],
            "interference": {c: bool(v.get("interferes")) for c, v in ((model or {}).get("classes") or {}).items()}}
