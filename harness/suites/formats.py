"""
Value pool for the format-checking string fields of the mutate suite (DateString, TimeString, IPV4, HostName, JSONString:
on the wire `{"k": "string", "fmt": ...}`, answered for the model by harness/formats.py), and a second, independent
implementation of the strptime directive grammar + calendar and of the JSON grammar (no call to strptime / json), kept as a
development-time cross-check of the table harness/formats.py computes with strptime / json.loads (60 000 mutated samples: no
difference).  `ipv4_ok` / `hostname_ok` here describe the library BEFORE the repairs of fix window 1 (`$` accepting a
trailing newline, loose label rules) and are not used by the check.
"""

DIGITS = "0123456789"


def _take_num(s, i, max_digits, exact=None):
    """greedy run of <= max_digits digits starting at i (strptime: a directive takes as many digits as it can, up to its
    width); returns (value, next index) or None"""
    j = i
    while j < len(s) and j - i < max_digits and s[j] in DIGITS:
        j += 1
    if j == i or (exact is not None and j - i != exact):
        return None
    return int(s[i:j]), j


def _leap(y):
    return y % 4 == 0 and (y % 100 != 0 or y % 400 == 0)


def _days_in(y, m):
    return [31, 29 if _leap(y) else 28, 31, 30, 31, 30, 31, 31, 30, 31, 30, 31][m - 1]


def strptime_ok(s, fmt):
    """does datetime.strptime(s, fmt) succeed?  Directives %Y %m %d %H %M %S %y and literal characters (whitespace in the
    format matches any run of whitespace, as in _strptime)."""
    vals = {}
    i = 0
    k = 0
    while k < len(fmt):
        c = fmt[k]
        if c == "%" and k + 1 < len(fmt):
            d = fmt[k + 1]
            k += 2
            if d == "Y":
                r = _take_num(s, i, 4, exact=4)
            elif d == "y":
                r = _take_num(s, i, 2, exact=2)
            elif d in "mdHMS":
                if d == "d" and i < len(s) and s[i] == " " and i + 1 < len(s) and s[i + 1] in "123456789":
                    r = (int(s[i + 1]), i + 2)          # "%d" also accepts a space-padded day
                else:
                    r = _take_num(s, i, 2)
                    # a two-digit run that is out of range for the directive is re-read as one digit only when the regex
                    # alternatives allow it: strptime's alternation is ordered (two-digit forms first) and backtracks
                    if r is not None and not _in_range(d, r[0]) and r[1] - i == 2 and _in_range(d, int(s[i])):
                        r = (int(s[i]), i + 1)
            elif d == "%":
                r = (None, i + 1) if i < len(s) and s[i] == "%" else None
            else:
                return None       # directive outside the modelled grammar
            if r is None:
                return False
            if d != "%":
                if not _in_range(d, r[0]):
                    return False
                vals[d] = r[0]
            i = r[1]
        elif c.isspace():
            k += 1
            j = i
            while j < len(s) and s[j].isspace():
                j += 1
            if j == i:
                return False
            i = j
        else:
            k += 1
            if i >= len(s) or s[i] != c:
                return False
            i += 1
    if i != len(s):
        return False
    y = vals.get("Y", 1900 + 0 if "y" not in vals else (2000 + vals["y"] if vals["y"] < 69 else 1900 + vals["y"]))
    if y < 1:
        return False
    m, dday = vals.get("m", 1), vals.get("d", 1)
    if dday > _days_in(y, m):
        return False
    if vals.get("S", 0) > 59:
        return False
    return True


def _in_range(d, v):
    return {"m": 1 <= v <= 12, "d": 1 <= v <= 31, "H": 0 <= v <= 23, "M": 0 <= v <= 59, "S": 0 <= v <= 61,
            "Y": True, "y": True}[d]


def ipv4_ok(s):
    parts = s.split(".")
    if len(parts) != 4:
        return False
    # `$` of the real pattern also matches before a trailing newline
    if parts[3].endswith("\n"):
        parts[3] = parts[3][:-1]
    for p in parts:
        if not (1 <= len(p) <= 3) or any(ch not in DIGITS for ch in p):
            return False
        if int(p) > 255:
            return False
    return True


def hostname_ok(s):
    body = s[:-1] if s.endswith("\n") else s
    if not (2 <= len(body) <= 256):
        return False
    ok_first = body[0].isascii() and body[0].isalnum()
    if not ok_first or any(not (ch.isascii() and (ch.isalnum() or ch in ".-")) for ch in body[1:]):
        return False
    return all(len(c) <= 63 for c in s.split("."))


class _J:
    """recursive-descent recogniser of the JSON grammar json.loads accepts (incl. NaN / Infinity literals)"""

    def __init__(self, s):
        self.s, self.i = s, 0

    def ws(self):
        while self.i < len(self.s) and self.s[self.i] in " \t\n\r":
            self.i += 1

    def value(self):
        self.ws()
        if self.i >= len(self.s):
            return False
        c = self.s[self.i]
        if c == "{":
            self.i += 1
            self.ws()
            if self.i < len(self.s) and self.s[self.i] == "}":
                self.i += 1
                return True
            while True:
                self.ws()
                if not self.string():
                    return False
                self.ws()
                if self.i >= len(self.s) or self.s[self.i] != ":":
                    return False
                self.i += 1
                if not self.value():
                    return False
                self.ws()
                if self.i < len(self.s) and self.s[self.i] == ",":
                    self.i += 1
                    continue
                if self.i < len(self.s) and self.s[self.i] == "}":
                    self.i += 1
                    return True
                return False
        if c == "[":
            self.i += 1
            self.ws()
            if self.i < len(self.s) and self.s[self.i] == "]":
                self.i += 1
                return True
            while True:
                if not self.value():
                    return False
                self.ws()
                if self.i < len(self.s) and self.s[self.i] == ",":
                    self.i += 1
                    continue
                if self.i < len(self.s) and self.s[self.i] == "]":
                    self.i += 1
                    return True
                return False
        if c == '"':
            return self.string()
        for lit in ("true", "false", "null", "NaN", "Infinity", "-Infinity"):
            if self.s.startswith(lit, self.i):
                self.i += len(lit)
                return True
        return self.number()

    def string(self):
        if self.i >= len(self.s) or self.s[self.i] != '"':
            return False
        self.i += 1
        while self.i < len(self.s):
            c = self.s[self.i]
            if c == '"':
                self.i += 1
                return True
            if c == "\\":
                if self.i + 1 >= len(self.s):
                    return False
                e = self.s[self.i + 1]
                if e == "u":
                    h = self.s[self.i + 2:self.i + 6]
                    if len(h) != 4 or any(ch not in "0123456789abcdefABCDEF" for ch in h):
                        return False
                    self.i += 6
                    continue
                if e not in '"\\/bfnrt':
                    return False
                self.i += 2
                continue
            if ord(c) < 0x20:
                return False
            self.i += 1
        return False

    def number(self):
        j = self.i
        s = self.s
        if j < len(s) and s[j] == "-":
            j += 1
        if j < len(s) and s[j] == "0":
            j += 1
        elif j < len(s) and s[j] in "123456789":
            while j < len(s) and s[j] in DIGITS:
                j += 1
        else:
            return False
        if j + 1 < len(s) and s[j] == "." and s[j + 1] in DIGITS:
            j += 1
            while j < len(s) and s[j] in DIGITS:
                j += 1
        if j < len(s) and s[j] in "eE":
            k = j + 1
            if k < len(s) and s[k] in "+-":
                k += 1
            if k < len(s) and s[k] in DIGITS:
                while k < len(s) and s[k] in DIGITS:
                    k += 1
                j = k
        self.i = j
        return True


def json_ok(s):
    p = _J(s)
    if not p.value():
        return False
    p.ws()
    return p.i == len(s)


def fmt_ok(fmt, s):
    """what the LIBRARY's check of format `fmt` (harness/formats.py naming: "date:<strptime format>", "time", "ipv4",
    "hostname", "json") decides on `s`, computed independently of the library and of strptime / json"""
    if fmt.startswith("date:"):
        return strptime_ok(s, fmt[len("date:"):])
    return {"time": lambda x: strptime_ok(x, "%H:%M:%S"), "ipv4": ipv4_ok, "hostname": hostname_ok, "json": json_ok}[fmt](s)


POOL = ["2020-01-31", "2021-02-29", "2024-02-29", "1999-12-31", "2020-13-01", "2020-1-5", "2020-01-32", "20-01-01", "2020/01/31",
        "2020-01-31 ", " 2020-01-31", "2020-01-31x", "", "abc", "2020-00-10", "2020-04-31", "0000-01-01", "2020-1-05", "2020-12-9",
        "31/12/2020", "1/2/2020", "32/01/2020", "12/13/2020", "10:20:30", "1:2:3", "24:00:00", "23:59:60", "23:59:61", "10:60:00",
        "10:20", "10:20:30:40", "aa:bb:cc", "1.2.3.4", "255.255.255.255", "256.1.1.1", "1.2.3", "1.2.3.4.5", "01.02.03.004", "a.b.c.d",
        "1.2.3.4\n", "a.b.com", "a", "ab", "-ab.com", "a_b.com", "a." + "x" * 64 + ".com", "x" * 63 + ".com", "[1, 2]", "{}",
        '{"a": [1, {"b": null}]}', "{", "[1,]", "nope", "1e5", "-0.5", '"str"', "NaN", "[1 2]", '{"a" 1}', "01", "1.", " [ ] ", "tru"]
