"""
Suite `alias` (C19): every public operation of the statement is run on the real typedpy with

  * a deep snapshot of every argument before and after the call (failing calls included);
  * an `is`-identity comparison of the object graph the operation was given / read from (the *source*:
    kwargs, document, assigned value, the instance's internal payload, the class's internal lists) with
    the object graph it produced / kept (the *sink*: the new instance's payload, the returned document,
    the schema, the derived class);
  * the poke oracle (the statement, executed): every native mutator applicable to every mutable object the
    caller can reach afterwards (returned objects for output operations, the arguments for input
    operations) is applied and a fingerprint of the instance / class is compared before and after.

The Lean heap model (Sem/Alias.lean) is run on the abstraction of the very same source graph (`heapify`)
with the declaration abstracted to a `Shape`, under the table regenerated from /repo
(Generated/Aliasing.lean); its predicted set of shared source cells must equal the real one.
"""
import collections
import copy
import json

from typedpy import (Deserializer, Serializer, Structure, ImmutableStructure, serialize, deserialize_structure, structure_to_schema,
                     schema_to_struct_code,
                     Extend, Omit, Pick, Partial, AllFieldsRequired, FunctionCall, Constant)
from typedpy.serialization.fast_serialization import create_serializer
from typedpy.serialization.mappers import Deleted
from typedpy.serialization.versioned_mapping import convert_dict

from .. import dump, gen, aliasprobe as AP
from . import construct as C
from . import alias_api as API

SCALAR_KINDS = ("integer", "number", "float", "string", "boolean", "enumCls", "enumLit", "noneF")
INPUT_OPS = ("construct", "setattr", "deserialize", "derive")
OUTPUT_OPS = ("serialize", "fieldSerialize", "fastSerialize")
FIELD_OPS = ("construct", "setattr", "deserialize", "serialize", "fieldSerialize", "fastSerialize")


# ------------------------------------------------------------------ declarations -> Shape (value directed)

def scalar_cat(k):
    return "number" if k in ("integer", "number", "float") else "string" if k == "string" else "scalar"


def shape_cat(s):
    """mirror of Shape.cat (Sem/Alias.lean)"""
    if s == "any":
        return "any"
    if s == "untyped":
        return "untyped"
    if "s" in s:
        return s["s"]
    if "c" in s:
        return "coll"
    if "w" in s or "wn" in s:
        return "wrap"
    if "o" in s:
        return shape_cat(s["o"])
    k = s["k"]
    return "struct" if k in ("struct", "root") else "inline" if k == "inline" else "coll"


def shape_wcat(s):
    """mirror of Shape.wcat (Sem/Alias.lean): the category a WRAPPER's row is looked up under — Tuple options apart"""
    if isinstance(s, dict):
        if "o" in s:
            return shape_wcat(s["o"])
        if s.get("c") == "tuple" or s.get("k") == "tuplePos":
            return "tupl"
    return shape_cat(s)


def type_ok(d, v):
    """cheap 'could this option be the one that took the value' test (python type only)"""
    k = d["k"]
    if k == "anything":
        return True
    if v is None:
        return k in ("noneF", "enumLit", "anyOf", "oneOf", "notF")
    if k in ("integer",):
        return isinstance(v, int) and not isinstance(v, bool)
    if k in ("number", "float"):
        return isinstance(v, (int, float)) and not isinstance(v, bool)
    if k == "string":
        return isinstance(v, str)
    if k == "boolean":
        return isinstance(v, bool)
    if k in ("enumCls", "enumLit"):
        return AP.node_tag(v) is None
    if k == "noneF":
        return False
    if k in ("seqAny", "seqOf", "seqPos"):
        return isinstance(v, (list, collections.deque))
    if k in ("setAny", "setOf"):
        return isinstance(v, (set, frozenset, list))
    if k in ("tupleOf", "tuplePos"):
        return isinstance(v, (tuple, list))
    if k in ("mapAny", "mapOf"):
        return isinstance(v, dict)
    if k == "struct":
        return isinstance(v, (Structure, dict))
    if k in ("anyOf", "oneOf"):
        return any(type_ok(x, v) for x in d["fields"])
    if k == "allOf":
        return all(type_ok(x, v) for x in d["fields"])
    return True


def is_container_kind(d):
    k = d["k"]
    if k in ("anyOf", "oneOf", "allOf"):
        return any(is_container_kind(x) for x in d["fields"])
    return k not in SCALAR_KINDS


def value_classes(d):
    """Python value classes a declaration takes, at the precision of the model's `tagFits` (Sem/Alias.lean):
    "seq" (list / deque / set / tuple — Array, Deque, Set and Tuple fields all take a list), "map" (dict or
    Structure instance — Map and structure fields), "atom" (anything else)"""
    k = d["k"]
    if k in ("anyOf", "oneOf", "allOf"):
        out = set()
        for x in d["fields"]:
            out |= value_classes(x)
        return out
    if k in ("seqAny", "seqOf", "seqPos", "setAny", "setOf", "tupleOf", "tuplePos"):
        return {"seq"}
    if k in ("mapAny", "mapOf", "struct"):
        return {"map"}
    if k in ("anything", "notF"):
        return {"seq", "map", "atom"}
    return {"atom"}


def normalize_wrappers(d):
    """which option of a multi-field wrapper takes a value is decided by the MODEL from the value's shape (first
    option the value fits: `Shape.wrapN`), so several container options are fine; what the generator still ensures
    is that the shape decides: at most one option per container value class ("seq", "map"), and no NotField option
    (whether a NotField takes a value is a validation question).  Generator post-processing, in place."""
    if isinstance(d, list):
        for x in d:
            normalize_wrappers(x)
        return d
    if not isinstance(d, dict):
        return d
    if d.get("k") in ("anyOf", "oneOf", "allOf"):
        opts, seen = [], set()
        for x in d["fields"]:
            if x["k"] in ("notF", "anything"):
                continue
            vc = value_classes(x) - {"atom"}
            if vc & seen:
                continue
            seen |= vc
            opts.append(x)
        d["fields"] = opts or [d["fields"][0]]
    for v in d.values():
        normalize_wrappers(v)
    return d


OUTPUT_FIELD_OPS = ("fieldSerialize", "fastSerialize")


def _elems(v):
    if isinstance(v, dict):
        return list(v.values())
    if isinstance(v, (list, tuple, set, frozenset, collections.deque)):
        return list(v)
    return []


def _lookup(v, name):
    if isinstance(v, Structure):
        return v.__dict__.get(name)
    if isinstance(v, dict):
        return v.get(name)
    return None


def _keys(v):
    if isinstance(v, Structure):
        return [k for k in v.__dict__ if k not in dump.INTERNAL]
    if isinstance(v, dict):
        return [str(k) for k in v]
    return []


def merge_shapes(a, b):
    """one shape for all elements of a homogeneous collection: union of the keyed fields (undeclared keys differ
    from element to element)"""
    if isinstance(a, dict) and isinstance(b, dict):
        if "k" in a and "k" in b and a["k"] == b["k"]:
            names = [n for n, _ in a["fields"]]
            fb = dict((n, f) for n, f in b["fields"])
            fields = [[n, merge_shapes(f, fb[n]) if n in fb else f] for n, f in a["fields"]]
            fields += [[n, f] for n, f in b["fields"] if n not in names]
            return {"k": a["k"], "fields": fields}
        if "c" in a and "c" in b and a["c"] == b["c"]:
            return {"c": a["c"], "item": merge_shapes(a["item"], b["item"])}
        if "w" in a and "w" in b and a["w"] == b["w"]:
            return {"w": a["w"], "inner": merge_shapes(a["inner"], b["inner"])}
        if "wn" in a and "wn" in b and a["wn"] == b["wn"] and len(a["opts"]) == len(b["opts"]):
            return {"wn": a["wn"], "pick": a["pick"], "opts": [merge_shapes(x, y) for x, y in zip(a["opts"], b["opts"])]}
        if "o" in a and "o" in b:
            return {"o": merge_shapes(a["o"], b["o"])}
    return a


def _item_shape(d, v, op):
    els = _elems(v) or [None]
    sh = shape_for(d, els[0], op)
    for e in els[1:]:
        sh = merge_shapes(sh, shape_for(d, e, op))
    return sh


_DELEGATION = {}


def delegated_option(k, fields):
    """index of the option `<wrapper>.serialize` hands every value to ("first" when the source shows no fixed
    delegation): AnyOf -> its last non-None option, AllOf -> its first option (read off multified_wrappers.py)"""
    if not _DELEGATION:
        from extract import aliasing as X
        _DELEGATION.update(X.wrapper_delegation())
    how = _DELEGATION.get(k, "first-fit")
    if how == "first":
        return 0
    if how == "last-non-none":
        idx = [i for i, x in enumerate(fields) if x["k"] != "noneF"]
        return idx[-1] if idx else len(fields) - 1
    if how == "first-non-none":
        idx = [i for i, x in enumerate(fields) if x["k"] != "noneF"]
        return idx[0] if idx else 0
    if how == "last":
        return len(fields) - 1
    return "first"


TAG_FITS = {"array": ("list", "deque"), "deque": ("list", "deque"), "arrayPos": ("list", "deque"), "dequePos": ("list", "deque"),
            "set": ("set", "frozenset", "list"), "immSet": ("set", "frozenset", "list"),
            "tuple": ("tuple", "list"), "tuplePos": ("tuple", "list"), "map": ("dict",),
            "struct": ("inst", "dict"), "inline": ("inst", "dict"), "root": ("inst", "dict")}


def py_fits(shape, v):
    """mirror of `fits` (Sem/Alias.lean) on Python values — used ONLY to name the table site to blame in a finding
    key and to see which site a witness exercises; the correspondence verdict comes from the model"""
    if shape in ("any", "untyped"):
        return True
    if "s" in shape:
        if AP.node_tag(v) is not None:
            return False
        code = AP.atom_code(v)
        return code in (2, 3) if shape["s"] == "number" else code == 4 if shape["s"] == "string" else True
    if "c" in shape or "k" in shape:
        kind = shape.get("c") or shape["k"]
        return AP.node_tag(v) in TAG_FITS.get(kind, ()) if kind in TAG_FITS else True
    if "w" in shape:
        return True
    if "o" in shape:
        return py_fits(shape["o"], v)
    if shape["pick"] != "first":
        return True          # a delegating `<Wrapper>.serialize` takes whatever it is handed and decides inside
    fit = [py_fits(x, v) for x in shape["opts"]]
    return all(fit) if shape["wn"] == "allOf" else any(fit)


def py_pick(shape, v):
    opts = shape["opts"]
    if shape["pick"] == "first":
        return next((i for i, x in enumerate(opts) if py_fits(x, v)), len(opts))
    i = shape["pick"]
    return i if i < len(opts) and py_fits(opts[i], v) else len(opts)


def _child(v, key):
    if isinstance(v, Structure):
        return v.__dict__.get(key)
    if isinstance(v, dict):
        for k, x in v.items():
            if str(k) == key:
                return x
        return None
    if isinstance(v, (list, tuple, collections.deque)):
        return v[int(key)] if key.isdigit() and int(key) < len(v) else None
    return None


def fallback_shape(shape):
    """mirror of `fallbackSite` (Sem/Alias.lean): no option takes the value — the wrapper's `(k, untyped)` site with
    first-fit choice, `(misfit, <category of the fixed option>)` with a fixed delegation"""
    if shape["pick"] == "first" or shape["pick"] >= len(shape["opts"]):
        return {"w": shape["wn"], "inner": "untyped"}
    return {"w": "misfit", "inner": {"s": shape_wcat(shape["opts"][shape["pick"]])}}


def site_chain_v(shape, v, path):
    """`site_chain` along ONE path of the actual value (elements of one collection may take different options)"""
    chain, s, path, depth = [], shape, list(path), 0
    while True:
        if s in ("any", "untyped"):
            chain.append((depth, "any", "none"))
            return chain
        if "s" in s:
            return chain
        if "o" in s:
            s = s["o"]
            continue
        if "wn" in s:
            i = py_pick(s, v)
            if i >= len(s["opts"]):
                fb = fallback_shape(s)
                chain.append((depth, fb["w"], shape_wcat(fb["inner"])))
                return chain
            chain.append((depth, s["wn"], shape_wcat(s["opts"][i])))
            s = s["opts"][i]
            continue
        if "w" in s:
            chain.append((depth, s["w"], shape_wcat(s["inner"])))
            s = s["inner"]
            continue
        if "c" in s:
            chain.append((depth, s["c"], shape_cat(s["item"])))
            if not path:
                return chain
            key = path.pop(0)
            v = _child(v, key) if key != "*" else next(iter(v), None) if isinstance(v, (set, frozenset)) else None
            depth += 1
            s = s["item"]
            continue
        chain.append((depth, s["k"], "none"))
        if not path:
            return chain
        key = path.pop(0)
        v = _child(v, key)
        depth += 1
        nxt = [fs for n, fs in s["fields"] if n == key]
        if not nxt:
            return chain
        s = nxt[0]


def resolve_shape(shape, v):
    """the single-option shape the value selects (every `wn` node replaced by the `w` node of the option the value
    fits, `o` nodes dropped): the form `site_chain` / `responsible_site` walk"""
    if not isinstance(shape, dict):
        return shape
    if "s" in shape:
        return shape
    if "o" in shape:
        return resolve_shape(shape["o"], v)
    if "wn" in shape:
        i = py_pick(shape, v)
        if i >= len(shape["opts"]):
            return fallback_shape(shape)
        return {"w": shape["wn"], "inner": resolve_shape(shape["opts"][i], v)}
    if "w" in shape:
        return {"w": shape["w"], "inner": resolve_shape(shape["inner"], v)}
    if "c" in shape:
        els = _elems(v) or [None]
        item = resolve_shape(shape["item"], els[0])
        for e in els[1:]:
            item = merge_shapes(item, resolve_shape(shape["item"], e))
        return {"c": shape["c"], "item": item}
    return {"k": shape["k"], "fields": [[n, resolve_shape(fs, _child(v, n))] for n, fs in shape["fields"]]}


def shape_for(d, v, op=None):
    """Shape (JSON) of declaration d for the concrete value v (extras, positional lengths and the matching
    option of a multi-field wrapper depend on the value; `<wrapper>.serialize` delegates to a fixed option)"""
    k = d["k"]
    if k in SCALAR_KINDS:
        return {"s": scalar_cat(k)}
    if k == "anything":
        return "any"
    first = lambda: (_elems(v) or [None])[0]
    if k in ("seqAny", "seqOf"):
        kind = "deque" if d.get("seq") == "deque" else "array"
        return {"c": kind, "item": "untyped" if k == "seqAny" else _item_shape(d["item"], v, op)}
    if k in ("setAny", "setOf"):
        return {"c": "immSet" if d.get("imm") else "set",
                "item": "untyped" if k == "setAny" else _item_shape(d["item"], v, op)}
    if k == "tupleOf":
        return {"c": "tuple", "item": _item_shape(d["item"], v, op)}
    if k in ("mapAny", "mapOf"):
        return {"c": "map", "item": "untyped" if k == "mapAny" else _item_shape(d["val"], v, op)}
    if k in ("seqPos", "tuplePos"):
        kind = "tuplePos" if k == "tuplePos" else "dequePos" if d.get("seq") == "deque" else "arrayPos"
        vs = _elems(v) if not isinstance(v, dict) else []
        fields = [[str(i), shape_for(x, vs[i] if i < len(vs) else None, op)] for i, x in enumerate(d["items"])]
        fields += [[str(j), "untyped"] for j in range(len(d["items"]), len(vs))]
        return {"k": kind, "fields": fields}
    if k == "struct":
        return struct_shape(d, v, "inline" if d.get("inline") else "struct", op=op)
    if k == "notF":
        return {"w": "notF", "inner": "untyped"}      # whatever a NotField lets through has no declared type
    if k in ("anyOf", "oneOf", "allOf"):
        # ALL options go to the model, which picks the first one the value fits (`Shape.wrapN`, Pick.firstFit).
        # `AnyOf.serialize` / `AllOf.serialize` (fast serialization, <field>.serialize) hand the value to a FIXED option
        # whatever the value is — which one is read off the source (extract/aliasing.wrapper_delegation)
        pick = "first"
        if op in OUTPUT_FIELD_OPS:
            pick = delegated_option(k, d["fields"])
        # (an Enum option of a delegating wrapper has its own category: `Enum.serialize` returns whatever it is given)
        opt = lambda x: {"s": "enum"} if op in OUTPUT_FIELD_OPS and x["k"] in ("enumLit", "enumCls") else shape_for(x, v, op)
        return {"wn": k, "pick": pick, "opts": [opt(x) for x in d["fields"]]}
    raise ValueError(f"shape_for: {k}")


def struct_shape(d, v, kind, result=None, op=None):
    """`result` (optional): the structure the operation built from v — undeclared keys it dropped are no site"""
    names = [n for n, _ in d["fields"]]
    fields = []
    for n, fd in d["fields"]:
        sub = _lookup(v, n)
        if result is not None and fd["k"] == "struct" and isinstance(result.__dict__.get(n), Structure):
            fields.append([n, struct_shape(fd, sub, "inline" if fd.get("inline") else "struct", result.__dict__[n], op)])
        else:
            fields.append([n, shape_for(fd, sub, op)])
    kept = None if result is None else set(result.__dict__)
    extras = [[x, "untyped"] for x in _keys(v) if x not in names and (kept is None or x in kept)]
    if kind == "root" and d.get("immutable"):
        # an immutable owner (ImmutableStructure: `Structure.__setattr__`; immutable=True fields: `Field.__set__` /
        # `Field.__get__`) puts its defensive deep copy in front of every field: `Shape.owned`
        fields = [[n, {"o": fs}] for n, fs in fields]
        if d.get("immOwner") != "fields":
            extras = [[n, {"o": fs}] for n, fs in extras]
    return {"k": kind, "fields": fields + extras}


def owned_field_shape(decl, sh):
    """shape of ONE field of the class `decl` (setattr, <field>.serialize): behind the owner's copy if it is immutable"""
    return {"o": sh} if decl.get("immutable") else sh


def prune_extras(shape, snk):
    """drop the undeclared-key sites of a deserialization shape that the built structure did not keep
    (walks the shape next to the instance the operation returned)"""
    if not isinstance(shape, dict):
        return shape
    if "w" in shape:
        return {"w": shape["w"], "inner": prune_extras(shape["inner"], snk)}
    if "o" in shape:
        return {"o": prune_extras(shape["o"], snk)}
    if "wn" in shape:
        return {"wn": shape["wn"], "pick": shape["pick"], "opts": [prune_extras(x, snk) for x in shape["opts"]]}
    if "c" in shape:
        el = _elems(snk)
        if not el:
            return shape
        item = prune_extras(shape["item"], el[0])
        for e in el[1:]:
            item = merge_shapes(item, prune_extras(shape["item"], e))
        return {"c": shape["c"], "item": item}
    if "k" in shape:
        if isinstance(snk, Structure):
            kept = set(snk.__dict__)
            return {"k": shape["k"], "fields": [[n, prune_extras(fs, snk.__dict__.get(n))] for n, fs in shape["fields"]
                                                if fs not in ("untyped", {"o": "untyped"}) or n in kept]}
        if isinstance(snk, (list, tuple, collections.deque)):
            return {"k": shape["k"], "fields": [[n, prune_extras(fs, snk[int(n)] if n.isdigit() and int(n) < len(snk) else None)]
                                                for n, fs in shape["fields"]]}
    return shape


def site_chain(shape, path):
    """[(depth, kind, cat)] of the table sites on the way from the root of `shape` to the node at `path`
    (depth = number of path steps consumed before the site; a wrapper and its option share a depth)"""
    chain = []
    s = shape
    path = list(path)
    depth = 0
    while True:
        if s in ("any", "untyped"):
            chain.append((depth, "any", "none"))
            return chain
        if "s" in s:
            return chain
        if "w" in s:
            chain.append((depth, s["w"], shape_wcat(s["inner"])))
            s = s["inner"]
            continue
        if "c" in s:
            chain.append((depth, s["c"], shape_cat(s["item"])))
            if not path:
                return chain
            path.pop(0)
            depth += 1
            s = s["item"]
            continue
        chain.append((depth, s["k"], "none"))
        if not path:
            return chain
        key = path.pop(0)
        depth += 1
        nxt = [fs for n, fs in s["fields"] if n == key]
        if not nxt:
            return chain
        s = nxt[0]


def responsible_site(shape, path, modes, chain=None):
    """the table site to blame for aliasing of the node at `path`: among the sites sitting at that node (a
    chain of wrappers and the option inside) the first one the table says aliases; the node's own site otherwise"""
    chain = [tuple(c) for c in chain] if chain is not None else site_chain(shape, path)
    if not chain:
        return None, chain
    at_node = [c for c in chain if c[0] == len(path)] or [chain[-1]]
    for _, k, c in at_node:
        if modes.get((k, c)) in ("alias", "shallow"):
            return (k, c), chain
    return (at_node[-1][1], at_node[-1][2]), chain


def site_in_scope(op, kind):
    """mirror of `inScope` (Props/C19.lean): the retained-input half of the statement speaks about typed
    fields given plain data; untyped content and Structure instances passed by reference are shared by design"""
    if op in ("construct", "setattr", "deserialize"):
        if kind in ("any", "notF"):
            return False
        if kind == "struct" and op != "deserialize":
            return False
    return True


# ------------------------------------------------------------------ fingerprints

def inst_fp(x):
    try:
        ser = json.dumps(AP.deep_canon(Serializer(x).serialize()), sort_keys=True, default=str)
    except Exception as e:
        ser = "serialize-raises:" + type(e).__name__
    return json.dumps(AP.deep_canon(x), sort_keys=True, default=str) + "|" + ser


def field_state(cls):
    """every other mutable container held by a field object of the class or by the typedpy classes it is an
    instance of (class-level literals such as a shared schema dict), found by introspection"""
    out = {}
    for n, f in cls.get_all_fields_by_name().items():
        d = {}
        for k, v in vars(f).items():
            if k not in ("values", "_default") and isinstance(v, (dict, list, set)):
                d[k] = v
        for c in type(f).__mro__:
            if getattr(c, "__module__", "").startswith("typedpy"):
                for k, v in vars(c).items():
                    if isinstance(v, (dict, list, set)) and not k.startswith("__"):
                        d[c.__name__ + "." + k] = v
        if d:
            out[n] = d
    return out


def cls_state(cls):
    """the class-level objects an operation could leak or edit"""
    fields = cls.get_all_fields_by_name()
    return {"required": getattr(cls, "_required", None),
            "fieldState": field_state(cls),
            "fields": list(fields),
            "mapper": getattr(cls, "_serialization_mapper", None),
            "enumValues": {n: getattr(f, "values") for n, f in fields.items()
                           if isinstance(getattr(f, "values", None), list)},
            "default": {n: f._default for n, f in fields.items()
                        if AP.node_tag(getattr(f, "_default", None)) is not None}}


def cls_fp(cls):
    try:
        schema, defs = structure_to_schema(cls, {})
        sch = AP.deep_canon([schema, defs])
        try:
            sch = [sch, schema_to_struct_code("Gen", schema, defs, additional_fields=_ext_classes())]
        except Exception as e:
            sch = [sch, "code-raises:" + type(e).__name__]
    except Exception as e:
        sch = "schema-raises:" + type(e).__name__
    st = cls_state(cls)
    st["optional"] = getattr(cls, "_optional", None)
    return json.dumps([AP.deep_canon(st), sch], sort_keys=True, default=str)


# ------------------------------------------------------------------ hand-built classes: ext field kinds, defaults

_USER_FIELDS = {}


def _user_fields():
    """USER-DEFINED field classes whose `serialize` passes the value through (already JSON-like content): a
    SerializableField over a dict, one over a list, and a plain Field subclass — with mutable defaults these are the
    fields for which nothing but typedpy's own copy stands between the class default and an exported schema"""
    if _USER_FIELDS:
        return _USER_FIELDS
    import typedpy as T

    def make(name, base, py, schema):
        def __set__(self, instance, value):
            if not isinstance(value, py):
                raise TypeError(f"{self._name}: Expected {py.__name__}")
            base.__set__(self, instance, copy.deepcopy(value))
        body = {"__set__": __set__, "serialize": lambda self, value: value, "deserialize": lambda self, value: value,
                "to_json_schema": lambda self: copy.deepcopy(schema)}
        return type(name, (base,), body)
    _USER_FIELDS["UserSerDict"] = make("UserSerDict", T.SerializableField, dict, {"type": "object"})
    _USER_FIELDS["UserSerList"] = make("UserSerList", T.SerializableField, list, {"type": "array"})
    _USER_FIELDS["UserPlainField"] = make("UserPlainField", T.Field, dict, {"type": "object"})
    return _USER_FIELDS


def _ext_kinds():
    import datetime
    import decimal
    import typedpy as T
    arr = lambda **k: T.Array(items=T.Integer(), **k)
    return {
        "IPV4": (T.IPV4, "1.2.3.4"), "HostName": (T.HostName, "host.example.com"),
        "EmailAddress": (lambda **k: T.String(pattern=T.EmailAddress.pattern, **k), "a@b.com"),
        "DateString": (T.DateString, "2020-01-02"), "TimeString": (T.TimeString, "10:20:30"),
        "DateField": (T.DateField, datetime.date(2020, 1, 2)), "DecimalNumber": (T.DecimalNumber, decimal.Decimal("1.5")),
        "JSONString": (T.JSONString, '{"a": 1}'), "String": (T.String, "s"), "Integer": (T.Integer, 3),
        "Array": (arr, [1, 2]), "Map": (T.Map, {"k": [1]}), "Set": (T.Set, {1, 2}),
        "Enum": (lambda **k: T.Enum(values=["S", "M", "L"], **k), "S"),
        "UserSerDict": (_user_fields()["UserSerDict"], {"env": "prod", "tags": ["a", "b"]}),
        "UserSerList": (_user_fields()["UserSerList"], [1, {"k": [2]}]),
        "UserPlainField": (_user_fields()["UserPlainField"], {"k": {"z": [1]}}),
    }


def _ext_classes():
    import typedpy as T
    return [c for c in (T.IPV4, T.HostName, T.DateString, T.TimeString, T.DateField, T.JSONString)
            if hasattr(c, "from_json_schema")]


def build_ext_class(name, spec, with_defaults=True):
    """spec: [[field name, ext kind, default mode]], default mode = "none" | "plain" (the value itself, also when it
    is a list/dict: keyword form `Array(items=..., default=[1, 2])`) | "callable" """
    kinds = _ext_kinds()
    body = {}
    for fname, kind, dmode in spec:
        mk, val = kinds[kind]
        if not with_defaults or dmode == "none":
            body[fname] = mk()
        elif dmode == "callable":
            body[fname] = mk(default=(lambda v=val: copy.deepcopy(v)))
        else:
            body[fname] = mk(default=copy.deepcopy(val))
    body["_required"] = []
    return type(name, (Structure,), body)


IMM_DECL_FIELDS = [["ts", {"k": "tuplePos", "items": [{"k": "struct", "name": "ImmInner", "required": ["x"], "addl": True,
                                                        "fields": [["x", {"k": "integer"}], ["l", {"k": "seqOf", "item": {"k": "integer"}}]]},
                                                       {"k": "integer"}]}],
                   ["any", {"k": "anything"}], ["tu", {"k": "tuplePos", "items": [{"k": "anything"}, {"k": "integer"}]}],
                   ["ar", {"k": "seqAny"}], ["mp", {"k": "mapAny"}], ["opt", {"k": "anything"}]]
_IMM_CACHE = {}


def build_imm_class(owner):
    """immutable owners holding tuple-valued data: owner = "structure" (ImmutableStructure) | "fields" (a mutable
    Structure all of whose fields are declared immutable=True)"""
    import typedpy as T
    from typedpy.serialization.fast_serialization import FastSerializable
    inner = type("ImmInner", (Structure, FastSerializable), {"x": T.Integer(), "l": T.Array(items=T.Integer()), "_required": ["x"]})
    try:
        create_serializer(inner)     # (create_serializer of the owner checks the classes its Tuple items refer to)
    except Exception:
        pass
    imm = {"immutable": True} if owner == "fields" else {}
    body = {"ts": T.Tuple(items=[T.ClassReference(inner), T.Integer()], **imm), "any": T.Anything(**imm),
            "tu": T.Tuple(items=[T.Anything(), T.Integer()], **imm), "ar": T.Array(**imm), "mp": T.Map(**imm),
            "opt": T.Anything(**imm), "_required": [], "_additional_properties": True}
    cls = type("ImmOwner_" + owner, (ImmutableStructure if owner == "structure" else Structure,), body)
    _IMM_CACHE[owner] = inner
    decl = {"k": "struct", "name": cls.__name__, "required": [], "addl": True, "fields": copy.deepcopy(IMM_DECL_FIELDS),
            "immutable": True, "immOwner": owner}
    return cls, decl


def imm_values(owner, as_doc, only=None):
    """tuple-valued arguments holding mutable elements at depth 1-2 (JSON lists in the document form)"""
    inner = _IMM_CACHE.get(owner)
    seq = (lambda *xs: list(xs)) if as_doc else (lambda *xs: tuple(xs))
    vals = {"ts": seq({"x": 1, "l": [1, 2]} if as_doc else inner(x=1, l=[1, 2]), 2),
            "any": seq([1], {"k": [2]}, seq(seq([3]))),
            "tu": seq([1, [2]], 5),
            "ar": [seq([1]), seq({"z": [2]})],
            "mp": {"k": seq([1], seq([2]))},
            "opt": [1, [2], {"k": [3]}],
            "extra_t": seq({"z": [1]}, [2])}
    if owner == "fields":
        vals.pop("extra_t")      # an undeclared key of a mutable Structure is no immutable field: shared by design
    if only:
        vals = {k: v for k, v in vals.items() if k in only}
    return vals


# ------------------------------------------------------------------ trusted / short-cut entry points

TRUSTED_ENTRIES = ("Deserializer", "function", "from_trusted_data", "from_trusted_kwargs", "trust_supplied_values")
TRUSTED_MAPPERS = ("none", "rename", "lower", "camel")
TRUSTED_SHAPES = ("flat", "byvalue", "optional", "enumarray", "nested", "many", "deep")


def build_trusted(shape, mapper):
    """hand-built classes for the trusted paths (`direct_trusted_mapping=True`, `from_trusted_data`,
    `trust_supplied_values`): enum.Enum-backed Enum fields (by name / by value / optional / in an Array), nested
    classes, arrays of nested classes, two levels of nesting x no mapper / a renaming dict / TO_LOWERCASE / TO_CAMELCASE.
    Returns (class, document for the mapper-less key names)"""
    import enum as _enum
    import typedpy as T
    from typedpy import mappers as M
    Color = _enum.Enum("Color", {"RED": 1, "GREEN": 2})
    Size = _enum.Enum("Size", {"small": "S", "large": "L"})

    def with_mapper(body, renames):
        if mapper == "rename":
            body["_serialization_mapper"] = dict(renames)
        elif mapper == "lower":
            body["_serialization_mapper"] = M.TO_LOWERCASE
        elif mapper == "camel":
            body["_serialization_mapper"] = M.TO_CAMELCASE
        return body
    inner = type("TInner", (Structure,), with_mapper(
        {"color": T.Enum[Color], "label": T.String(), "nums": T.Array[T.Integer], "_required": ["color"]}, {"label": "lbl"}))
    key = (lambda k: k.upper() if mapper == "lower" else k)
    ren = (lambda k, to: to if mapper == "rename" else key(k))
    idoc = lambda c, **kw: dict({key("color"): c}, **{ren(k, "lbl") if k == "label" else key(k): v for k, v in kw.items()})
    if shape == "flat":
        cls = type("TFlat", (Structure,), with_mapper({"i": T.Integer(), "color": T.Enum[Color], "tags": T.Array[T.String],
                                                       "_required": ["i", "color"]}, {"color": "colour"}))
        doc = {key("i"): 1, ren("color", "colour"): "RED", key("tags"): ["a", "b"]}
    elif shape == "byvalue":
        cls = type("TByValue", (Structure,), with_mapper(
            {"name": T.String(), "size": T.Enum(values=Size, serialization_by_value=True)}, {"size": "sz"}))
        doc = {key("name"): "n", ren("size", "sz"): "L"}
    elif shape == "optional":
        cls = type("TOptional", (Structure,), with_mapper(
            {"color": T.AnyOf[T.Enum[Color], T.NoneField], "size": T.Enum(values=Size, serialization_by_value=True),
             "n": T.Integer(), "_required": ["n"]}, {"n": "num"}))
        doc = {key("color"): "GREEN", key("size"): "S", ren("n", "num"): 3}
    elif shape == "enumarray":
        cls = type("TEnumArray", (Structure,), with_mapper(
            {"colors": T.Array[T.Enum[Color]], "color": T.Enum[Color], "_required": ["colors"]}, {"colors": "cs"}))
        doc = {ren("colors", "cs"): ["RED", "GREEN"], key("color"): "RED"}
    elif shape == "nested":
        cls = type("TNested", (Structure,), with_mapper({"inner": inner, "count": T.Integer()}, {"count": "cnt"}))
        doc = {key("inner"): idoc("RED", label="a", nums=[1, 2]), ren("count", "cnt"): 2}
    elif shape == "many":
        cls = type("TMany", (Structure,), with_mapper({"many": T.Array[inner], "color": T.Enum[Color], "_required": ["many"]},
                                                      {"many": "lots"}))
        doc = {ren("many", "lots"): [idoc("GREEN"), idoc("RED", label="z", nums=[3])], key("color"): "GREEN"}
    else:
        mid = type("TMid", (Structure,), with_mapper({"inner": inner, "many": T.Array[inner], "size": T.Enum(values=Size)},
                                                     {"size": "sz"}))
        cls = type("TDeep", (Structure,), with_mapper({"mid": mid, "mids": T.Array[mid], "_required": ["mid"]}, {"mids": "ms"}))
        mdoc = lambda: {key("inner"): idoc("RED", nums=[1]), key("many"): [idoc("GREEN", label="q")], ren("size", "sz"): "small"}
        doc = {key("mid"): mdoc(), ren("mids", "ms"): [mdoc(), mdoc()]}
    return cls, doc


def trusted_situation(case):
    shape, mapper, entry = case["trusted"]
    cls, doc = build_trusted(shape, mapper)
    if entry in ("from_trusted_data", "from_trusted_kwargs", "trust_supplied_values"):
        # these take field names, not mapped keys, and already-typed values are the caller's business
        cls, doc = build_trusted(shape, "none")
    ignore = []

    def call():
        if entry == "Deserializer":
            x = Deserializer(cls).deserialize(doc, direct_trusted_mapping=True)
        elif entry == "function":
            x = deserialize_structure(cls, doc, direct_trusted_mapping=True)
        elif entry == "from_trusted_data":
            x = cls.from_trusted_data(doc, ignore_props=ignore)
        elif entry == "from_trusted_kwargs":
            x = cls.from_trusted_data(None, **doc)
        else:
            cls.trust_supplied_values(True)
            try:
                x = cls(**doc)
            finally:
                cls.trust_supplied_values(False)
        # reading the instance back is part of the history (lazy conversions would show up here)
        try:
            Serializer(x).serialize()
        except Exception:
            pass
        return x, doc, lambda: ""
    return Situation([doc, ignore], doc, "any", call)


# ------------------------------------------------------------------ situations (one fresh world per call)

class Situation:
    """args: objects whose deep snapshot must not change; source: graph the operation reads;
    shape: declared type of source; call() -> (sink, visible, protected fingerprint thunk)"""

    def __init__(self, args, source, shape, call, top_kind="root", world=None):
        self.args, self.source, self.shape, self.call, self.top_kind = args, source, shape, call, top_kind
        self.world = world      # optional thunk: fingerprint of OTHER classes, compared around the call


def _build(case):
    ctx = C.make_ctx()
    cls = dump.build_class(case["cls"], ctx)
    return ctx, cls


def _kw(case, ctx):
    if case.get("imm"):
        return imm_values(case["imm"], as_doc=False, only=case.get("only"))
    return {k: dump.load_value(v, ctx) for k, v in case["kw"]}


def _mapping_of(spec):
    out = {}
    for k, e in spec:
        if "const" in e:
            out[k] = Constant(copy.deepcopy(e["const"]))
        elif "del" in e:
            out[k] = Deleted
        elif "move" in e:
            out[k] = e["move"]
        elif "fn" in e:
            out[k] = FunctionCall(func=_ident, args=e.get("args"))
        elif "sub" in e:
            out[k + "._mapper"] = _mapping_of(e["sub"])
    return out


def _ident(*a):
    return a[0] if len(a) == 1 else list(a)


def _mapping_payload(m):
    """the caller-owned mutable objects inside a mapping (nested mappers, Constant values)"""
    out = {}
    for k, v in m.items():
        if isinstance(v, dict):
            out[k] = {"self": v, "in": _mapping_payload(v)}
        elif isinstance(v, Constant):
            out[k] = v()
    return out


def _make_nested_fast(ctx, top):
    """fast serialization of a ClassReference needs the referenced class to be FastSerializable: give every
    nested class of the generated declaration that mixin (the classes are built by dump.build_class)"""
    from typedpy.serialization.fast_serialization import FastSerializable
    for c in list(ctx.classes.values()):
        if c is top or not isinstance(c, type) or issubclass(c, FastSerializable):
            continue
        if c.__name__.startswith("StructureReference_"):
            continue
        try:
            c.__bases__ = c.__bases__ + (FastSerializable,)
            create_serializer(c)
        except Exception:
            pass


def _mapper_arg(case, decl):
    """the `mapper=` argument of the (de)serialization entry points in the form the case asks for: None, a dict,
    or a list of chained mappers (an identity entry for the first field, so that the result is unchanged)"""
    form = case.get("mapper")
    if not form or form == "none":
        return None
    first = decl["fields"][0][0]
    return {first: first} if form == "dict" else [{first: first}]


def oracle_only(case):
    """cases whose result the heap model does not describe (keys renamed by camel_case_convert): argument
    snapshots and the poke oracle only"""
    return bool(case.get("camel")) or bool(case.get("trusted"))


def situation(case):
    op = case["op"]
    if isinstance(case.get("trusted"), list):
        return trusted_situation(case)
    if op == "convert":
        doc = copy.deepcopy(case["doc"])
        mappings = [_mapping_of(m) for m in case["mappings"]]
        source = {"document": doc, "mapping": [{"self": m, "in": _mapping_payload(m)} for m in mappings]}
        shape = {"k": "root", "fields": [["document", {"w": "document", "inner": "any"}],
                                         ["mapping", {"w": "mapping", "inner": "any"}]]}

        def call():
            res = convert_dict(doc, mappings)
            return res, res, lambda: json.dumps(AP.deep_canon(source), sort_keys=True, default=str)
        return Situation([doc, mappings], source, shape, call)

    world = None
    if case.get("schema") is not None:
        cls = type("Raw" + str(case.get("n", 0)), (Structure,), {"_required": []})
        decl = {"k": "struct", "name": cls.__name__, "required": [], "addl": True, "fields": []}
    elif case.get("imm"):
        cls, decl = build_imm_class(case["imm"])
        ctx = C.make_ctx()
    elif case.get("ext"):
        # hand-built class over the ext field kinds (with / without defaults) and a sibling class over the same
        # kinds: whatever is done to / with the first class must not change what the sibling maps to
        cls = build_ext_class("Ext" + str(case.get("n", 0)), case["ext"])
        sibling = build_ext_class("Sib" + str(case.get("n", 0)), case["ext"], with_defaults=False)
        decl = {"k": "struct", "name": cls.__name__, "required": [], "addl": True, "fields": []}
        world = lambda: cls_fp(sibling)
    else:
        ctx, cls = _build(case)
        decl = case["cls"]
    if op in ("toSchema", "schemaToCode", "derive"):
        state = cls_state(cls)
        shape = {"k": "root", "fields": [["required", {"w": "required", "inner": "any"}],
                                         ["mapper", {"w": "mapping", "inner": "any"}],
                                         ["enumValues", {"w": "enumValues", "inner": "any"}],
                                         ["default", {"w": "default", "inner": "any"}],
                                         ["fieldState", {"w": "fieldState", "inner": "any"}],
                                         ["names", {"w": "names", "inner": "any"}]]}
        if op == "toSchema":
            defs = {}

            def call():
                schema, d2 = structure_to_schema(cls, defs)
                return [schema, d2], [schema, d2], \
                    lambda: cls_fp(cls) + ("|" + world() if world else "")
            return Situation([state], state, shape, call, world=world)
        if op == "schemaToCode":
            if case.get("schema") is not None:
                schema, defs = copy.deepcopy(case["schema"]), copy.deepcopy(case.get("definitions", {}))
            else:
                schema, defs = structure_to_schema(cls, {})
            holder = {"schema": schema, "definitions": defs}
            sshape = {"k": "root", "fields": [["schema", {"w": "schema", "inner": "any"}],
                                              ["definitions", {"w": "schema", "inner": "any"}]]}

            def call():
                from typedpy import schema_definitions_to_code
                code = schema_to_struct_code("Gen" + cls.__name__, schema, defs, additional_fields=_ext_classes())
                code = code + "\n" + str(schema_definitions_to_code(defs, additional_fields=_ext_classes()))
                return code, code, lambda: json.dumps(AP.deep_canon(holder), sort_keys=True, default=str)
            return Situation([holder], holder, sshape, call, world=world)
        names = list(case.get("names", []))
        how = case["how"]
        state["names"] = names

        def call():
            if how == "Omit":
                new = Omit[cls, names]
            elif how == "Pick":
                new = Pick[cls, names]
            elif how == "Extend":
                new = Extend[cls]
            elif how == "Partial":
                new = Partial[cls]
            else:
                new = AllFieldsRequired[cls]
            # the caller can afterwards reach the argument list and the derived class's own lists (the Field
            # objects themselves are shared between the two classes by design)
            own = {"required": getattr(new, "_required", None), "mapper": getattr(new, "_serialization_mapper", None),
                   "optional": getattr(new, "_optional", None)}
            return own, {"names": names}, lambda: cls_fp(cls) + "|" + cls_fp(new)
        return Situation([state, names], state, shape, call)

    if op == "construct" and case.get("src"):
        # the values come from ANOTHER INSTANCE (typed wrappers, not plain data): Cls(**values of src),
        # shallow_clone_with_overrides, from_other_class, cast_to a subclass.  `mirror`: the caller then pokes the
        # new instance and the source instance is the one that must not change.
        target = cls
        if case.get("konst"):
            # a subclass that declares a Constant (inheritance + constants): source and target class
            target = type(cls.__name__ + "K", (cls,), {"kind_k": Constant("k")})
        src = target(**_kw(case, ctx))
        how, mirror = case["src"], bool(case.get("mirror"))
        ignore = [n for n in (case.get("ignore") or [])]          # the caller's own list
        overrides = {n: getattr(src, n) for n in ignore if n in src.__dict__}
        if how == "instance":
            source = {k: getattr(src, k) for k in list(src.__dict__) if k not in dump.INTERNAL and k != "kind_k"}
        else:
            source = src
        sit = Situation([source, ignore, overrides], source, struct_shape(decl, source, "root"), None)

        def call():
            if how == "instance":
                x = target(**source)
            elif how == "clone":
                x = src.shallow_clone_with_overrides(**overrides)
            elif how == "from_other_class":
                x = target.from_other_class(src, ignore_props=ignore, **overrides) if ignore \
                    else target.from_other_class(src)
            elif how == "to_other_class":
                x = src.to_other_class(target, ignore_props=ignore, **overrides) if ignore \
                    else src.to_other_class(target)
            else:
                x = src.cast_to(type(target.__name__ + "Sub", (target,), {}))
            sit.shape = prune_extras(struct_shape(decl, source, "root"), x)
            if mirror:
                return x, x, lambda: inst_fp(src)
            return x, source, lambda: inst_fp(x)
        sit.call = call
        return sit

    if op == "construct":
        kw = _kw(case, ctx)
        shape = struct_shape(decl, kw, "root")
        box = {}

        def call():
            x = cls(**kw)
            box["x"] = x
            return x, kw, lambda: inst_fp(x)
        return Situation([kw], kw, shape, call)

    if op == "deserialize":
        doc = imm_values(case["imm"], as_doc=True) if case.get("imm") else dump.load_value(case["doc"], ctx)
        shape = struct_shape(decl, doc, "root") if isinstance(doc, dict) else "any"
        mapper = _mapper_arg(case, decl)
        sit = Situation([doc, mapper], doc, shape, None)

        def call():
            if case.get("trusted"):
                x = Deserializer(cls).deserialize(doc, direct_trusted_mapping=True) if case.get("via") != "function" \
                    else deserialize_structure(cls, doc, direct_trusted_mapping=True)
                return x, doc, lambda: ""
            if case.get("via") == "function":
                x = deserialize_structure(cls, doc, mapper=mapper, camel_case_convert=bool(case.get("camel")),
                                          keep_undefined=bool(case.get("keepUndefined", True)))
            elif mapper is not None:
                x = Deserializer(cls, mapper=mapper).deserialize(doc, keep_undefined=case.get("keepUndefined", True))
            else:
                x = Deserializer(cls).deserialize(doc, keep_undefined=case.get("keepUndefined", True))
            if isinstance(doc, dict):
                sit.shape = prune_extras(struct_shape(decl, doc, "root"), x)
            return x, doc, lambda: inst_fp(x)
        sit.call = call
        return sit

    # the remaining operations start from an existing instance
    if op in ("fastSerialize", "fieldSerialize"):
        _make_nested_fast(ctx, cls)
    x = cls(**_kw(case, ctx))
    for rk, rv in (case.get("raw") or []):
        # a payload no option of a multi-field wrapper takes cannot be stored through validation: put it there directly
        x.__dict__[rk] = dump.load_value(rv, ctx)
    fdecl = dict((n, f) for n, f in decl["fields"])
    if op == "setattr":
        name = case["field"]
        src = None
        if case.get("imm"):
            value = imm_values(case["imm"], as_doc=False)[case.get("vkey") or ("any" if name == "opt" else name)]
        elif case.get("fromInstance"):
            # x.f = y.f: the value is the typed wrapper of another instance of the same class
            src = cls(**_kw(case, ctx))
            value = getattr(src, name)
        else:
            value = dump.load_value(case["value"], ctx)
        shape = owned_field_shape(decl, shape_for(fdecl[name], value) if name in fdecl else "untyped")

        def call():
            setattr(x, name, value)
            if src is not None and case.get("mirror"):
                return x, x.__dict__.get(name), lambda: inst_fp(src)
            return x, value, lambda: inst_fp(x)
        return Situation([value], value, shape, call, top_kind="none")

    if op == "serialize":
        shape = struct_shape(decl, x, "root")
        via = case.get("via", "Serializer")

        mapper = _mapper_arg(case, decl)

        def call():
            if mapper is not None or case.get("camel"):
                doc = serialize(x, mapper=mapper, camel_case_convert=bool(case.get("camel"))) if via != "Serializer" \
                    else Serializer(x, mapper=mapper).serialize()
            else:
                doc = Serializer(x).serialize() if via == "Serializer" else serialize(x, compact=(via == "compact"))
            return doc, doc, lambda: inst_fp(x)
        return Situation([x, mapper], x, shape, call)

    if op == "fastSerialize":
        shape = struct_shape(decl, x, "root", op=op)

        def call():
            create_serializer(cls)
            doc = x.serialize()
            return doc, doc, lambda: inst_fp(x)
        return Situation([x], x, shape, call)

    if op == "fieldSerialize":
        name = case["field"]
        field = cls.get_all_fields_by_name()[name]
        internal = x.__dict__.get(name)
        shape = owned_field_shape(decl, shape_for(fdecl[name], internal, op))

        def call():
            doc = field.serialize(getattr(x, name))
            return doc, doc, lambda: inst_fp(x)
        return Situation([x], internal, shape, call, top_kind="none")
    raise ValueError(op)


# ------------------------------------------------------------------ real code

def run_impl(case):
    if case["op"] == "api":
        return API.run_api(case)
    try:
        sit = situation(case)
    except Exception as e:
        return {"unbuildable": f"{type(e).__name__}: {e}"[:300]}
    res = {"topKind": sit.top_kind}
    before = json.dumps(AP.deep_canon(sit.args), sort_keys=True, default=str)
    world0 = sit.world() if sit.world else None
    cells, src = AP.heapify(sit.source, typed=True)
    graph = AP.object_graph(sit.source)
    index = {}
    # heapify and object_graph enumerate the same objects; addresses come from heapify's order
    order = _heap_order(sit.source)
    for a, o in enumerate(order):
        index[id(o)] = a
    res["cells"], res["src"] = cells, src
    try:
        sink, visible, fp = sit.call()
        res["ok"] = True
    except Exception as e:
        res["ok"] = False
        res["err"] = C.err_name(e)
        res["msg"] = str(e)[:200]
        sink = None
    after = json.dumps(AP.deep_canon(sit.args), sort_keys=True, default=str)
    res["args_same"] = before == after
    if sit.world:
        res["world_same"] = sit.world() == world0
    res["shape"] = sit.shape
    try:
        res["rshape"] = resolve_shape(sit.shape, sit.source)
    except Exception as e:
        res["rshape"] = sit.shape
        res["rshape_error"] = f"{type(e).__name__}: {e}"[:200]
    if not res["ok"]:
        return res
    gk = AP.object_graph(sink)
    shared = sorted(index[i] for i, (p, o) in graph.items() if i in gk and AP.node_tag(o) in AP.MUTABLE_TAGS)
    if case["op"] in ("toSchema", "schemaToCode", "derive"):
        # the per-site holder dicts of cls_state are harness objects, not typedpy's: no verdict about them
        holders = [[], ["fieldState"], ["enumValues"], ["default"], ["fields"]]
        res["holders"] = sorted(index[i] for i, (p, o) in graph.items()
                                if list(p) in holders or (len(p) == 2 and p[0] == "fieldState"))
        shared = [a for a in shared if a not in res["holders"]]
    res["shared"] = shared
    res["shared_paths"] = sorted(list(graph[id(order[a])][0]) for a in shared)
    # immutable containers (tuples, frozensets) that are handed on as they are: only used to find the topmost
    # aliased object when blaming a site
    res["shared_all_paths"] = sorted(list(p) for i, (p, o) in graph.items() if i in gk)

    def make():
        s2 = situation(case)
        _, vis, fp2 = s2.call()
        return vis, fp2
    try:
        # (the trusted paths store what they are given, by contract: only the argument snapshots are judged there)
        hits = [] if case.get("trusted") else AP.poke_oracle(make, limit=case.get("pokeLimit", 300))
    except Exception as e:
        res["poke_error"] = f"{type(e).__name__}: {e}"[:300]
        hits = []
    res["poked"] = [[p, m] for p, m in hits]
    # table sites along every path a finding could be blamed on, resolved on the ACTUAL value
    chains = {}
    for p in [list(q) for q in res.get("shared_all_paths", [])] + [list(q) for q, _ in hits]:
        for n in range(len(p) + 1):
            key = json.dumps(p[:n])
            if key not in chains:
                try:
                    chains[key] = [list(c) for c in site_chain_v(sit.shape, sit.source, p[:n])]
                except Exception:
                    pass
    res["chains"] = chains
    return res


def _heap_order(root):
    order, seen = [], set()

    def visit(o):
        if AP.node_tag(o) is None or id(o) in seen:
            return
        seen.add(id(o))
        order.append(o)
        for _, v in AP.children(o):
            visit(v)
    visit(root)
    return order


# ------------------------------------------------------------------ Lean side

def immutable_output(case):
    """the case's owner is immutable (an ImmutableStructure / a Structure of immutable=True fields): it deep-copies what
    it is given and hands every value out through the deep-copying accessor (`Shape.owned` in the model); for such an
    owner EVERY site is in the statement's scope, and sharing of objects that are themselves immutable is by design"""
    return bool(case.get("cls", {}).get("immutable") or case.get("imm")) and \
        case["op"] in OUTPUT_OPS + ("construct", "setattr", "deserialize")


def line(case, impl):
    if case["op"] == "api":
        return {"suite": "alias", "skip": True}      # public entry points outside the heap model: snapshots only
    if "cells" not in impl or oracle_only(case):
        return {"suite": "alias", "skip": True}
    return {"suite": "alias", "op": case["op"], "shape": impl["shape"], "cells": impl["cells"], "src": impl["src"],
            "topKind": impl.get("topKind", "root")}


# ------------------------------------------------------------------ verdicts

def visible_shape(case, impl):
    """shape of the object the caller pokes: the source shape for input operations; for output operations
    the returned document mirrors the source shape"""
    return impl["shape"]


def judge(case, impl, model):
    fails = []
    if case["op"] == "api":
        return API.judge_api(case, impl)
    if "unbuildable" in impl:
        return None, fails
    op = case["op"]
    msg = None
    if not impl.get("args_same", True):
        fails.append((f"arg-mutated:{op}", f"{op} changed one of its arguments (deep snapshot differs); "
                      f"model argsSame={model.get('argsSame')}"))
    if impl.get("world_same") is False:
        fails.append((f"other-class-changed:{op}", f"{op} on one class changed what ANOTHER class over the same field kinds "
                      f"maps to (schema / generated code of the sibling class differ before and after the call)"))
    if case.get("trusted"):
        return None, fails
    if model.get("skip") and not immutable_output(case) and not oracle_only(case):
        return None, fails
    if not model.get("skip") and model.get("argsSame") != impl.get("args_same"):
        msg = f"argument mutation: real args_same={impl.get('args_same')} model={model.get('argsSame')}"
    if impl.get("ok"):
        modes = {(k.split(".")[-1], c.split(".")[-1]): m for k, c, m in model.get("modes", [])}
        if model.get("skip"):
            pass
        elif not model.get("ok"):
            # a site whose witness raised is 'unknown' to the table: no prediction there
            if "error" not in modes.values():
                msg = msg or (f"real {op} succeeded but the model says it raises (a container where a scalar is "
                              f"declared?) for {json.dumps(impl['shape'])[:200]}")
        elif model.get("unknown"):
            pass      # a site the table has no row for: the model makes no prediction (the poke oracle below still judges)
        elif sorted(a for a in model.get("shared", []) if a not in impl.get("holders", [])) != sorted(impl.get("shared", [])):
            msg = msg or (f"aliasing differs for {op}: real shares source cells {impl.get('shared')} "
                          f"(paths {impl.get('shared_paths')}), model predicts {model.get('shared')}")
        # poke oracle (and identity verdict) -> findings keyed by the responsible table site
        hits = [(p, l) for p, l in impl.get("poked", [])]
        poked_paths = [list(p) for p, _ in hits]
        if (op in INPUT_OPS or op in OUTPUT_OPS) and not immutable_output(case):
            hits += [(p, "is-identity") for p in impl.get("shared_paths", [])
                     if not any(list(p)[:n] in poked_paths for n in range(len(p) + 1))]
        for path, label in hits:
            vis_path = list(path)
            if op in ("toSchema",):
                # blame the class-level site whose object the returned schema contains (identity verdict)
                sites = sorted({q[0] for q in impl.get("shared_paths", []) if q}) or ["schema"]
                for site in sites:
                    fails.append((f"result-aliases-internal:{op}:{site}",
                                  f"mutating the returned schema at {path} ({label}) changed the class or a sibling "
                                  f"class (the schema contains the live `{site}` object "
                                  f"{[q for q in impl.get('shared_paths', []) if q and q[0] == site][:2]})"))
                continue
            if op == "convert":
                fails.append((f"result-aliases-arg:{op}", f"mutating the converted document at {path} ({label}) "
                              f"changed the input document or mapping"))
                continue
            # blame the topmost aliased object on the way to the poked one
            known_paths = [list(q) for q in impl.get("shared_all_paths", impl.get("shared_paths", []))] + \
                          [list(q) for q, _ in impl.get("poked", [])]
            prefixes = [vis_path[:n] for n in range(len(vis_path) + 1) if vis_path[:n] in known_paths]
            blame_path = prefixes[0] if prefixes else vis_path
            site, chain = responsible_site(impl.get("rshape", impl["shape"]), blame_path, modes,
                                           chain=impl.get("chains", {}).get(json.dumps(blame_path)))
            if site is None:
                continue
            if not immutable_output(case) and not all(site_in_scope(op, k) for _, k, _ in chain):
                continue      # (an immutable owner copies everything it is given: every site is in scope there)
            kind, cat = site
            pheno = "retained-arg" if op in INPUT_OPS else "result-aliases-internal"
            if immutable_output(case):
                kind = "immutable-" + kind
            fails.append((f"{pheno}:{op}:{kind}:{cat}",
                          f"{op}: {label} on the object at {path} of the "
                          f"{'argument' if op in INPUT_OPS else 'returned value'} changed the "
                          f"{'class' if op == 'derive' else 'instance'} (site {kind}/{cat})"))
        if "poke_error" in impl:
            msg = msg or ("poke oracle crashed: " + impl["poke_error"])
    return msg, fails


def tags(case, impl, model):
    t = ["op:" + case["op"]]
    if case["op"] == "api":
        t.append("api:" + case["fn"])
    if "unbuildable" in impl:
        return t + ["unbuildable"]
    t.append("real:" + ("ok" if impl.get("ok") else "raises:" + str(impl.get("err"))))
    if impl.get("ok"):
        t.append("shared:" + ("yes" if impl.get("shared") else "no"))
        t.append("poke-changed:" + ("yes" if impl.get("poked") else "no"))
        if isinstance(model, dict) and "out" in model:
            t.append("model-safe-shape:" + str(model["out"].get("safe")))
        for kc in (model.get("unknown") or (model.get("out") or {}).get("unknown") or [])[:3] if isinstance(model, dict) else []:
            t.append("unknown-site:" + ":".join(x.split(".")[-1] for x in kc))
    if not impl.get("args_same", True):
        t.append("ARGS-MUTATED")
    return t


def nontrivial(case):
    return True


def describe(case, impl, model):
    return {"op": case["op"], "cls": case.get("cls", {}).get("name"), "shape": impl.get("shape"),
            "ok": impl.get("ok"), "args_same": impl.get("args_same"), "shared_paths": impl.get("shared_paths"),
            "poked": impl.get("poked"), "model": model}


# ------------------------------------------------------------------ generation

ALIAS_KINDS = ["integer", "number", "float", "string", "boolean", "enumCls", "enumLit", "anything",
               "seqAny", "seqOf", "seqPos", "setAny", "setOf", "tupleOf", "tuplePos", "mapAny", "mapOf",
               "struct", "inline", "anyOf", "oneOf", "allOf", "noneF"]
FAST_KINDS = ["integer", "number", "float", "string", "boolean", "seqAny", "seqOf", "mapAny", "mapOf", "anything",
              "setOf", "tupleOf", "enumLit"]

CONVERT_DOCS = [
    {"version": 1, "a": [1, [2, 3]], "b": {"c": [4], "d": {"e": [5]}}, "s": "x"},
    {"version": 2, "items": [{"p": [1]}, {"p": [2, 3]}], "m": {"k": {"z": []}}},
    {"a": {"b": {"c": [1, 2]}}, "l": [[1], [2]]},
]
CONVERT_MAPPINGS = [
    [["n", {"const": [1, [2]]}], ["a2", {"move": "a"}], ["s", {"del": 1}]],
    [["b", {"sub": [["c2", {"move": "c"}], ["k", {"const": {"q": [1]}}]]}], ["l", {"fn": "ident"}]],
    [["items", {"sub": [["p2", {"move": "p"}]]}], ["m2", {"move": "m.k"}], ["x", {"fn": "ident", "args": ["a", "m"]}]],
    [],
]


def _norm_key(k):
    if isinstance(k, bool) or (isinstance(k, (int, float)) and k in (0, 1)):
        return str(bool(k))
    if isinstance(k, dict) and "f" in k and k["f"][1] == 1 and k["f"][0] in (0, 1):
        return str(bool(k["f"][0]))
    if isinstance(k, dict) and "e" in k:
        return str(k["e"][1])          # an Enum key field turns the member's name into the member
    if isinstance(k, dict) and "t" in k:
        # a Tuple key field normalises every element the same way: ('M', GREEN) and (Size.M, GREEN) merge
        return "(" + ",".join(str(_norm_key(x)) for x in k["t"]) + ")"
    return k if isinstance(k, str) else json.dumps(k, sort_keys=True, default=str)


def colliding_keys(w):
    """a wire value with two dict keys that typedpy's key fields (Boolean maps 'True' to True) or Python itself
    (True == 1) merge: the heap abstraction keys cells by str(key), so such documents are not generated"""
    if isinstance(w, dict):
        if "m" in w:
            ks = [_norm_key(k) for k, _ in w["m"]]
            if len(set(ks)) != len(ks):
                return True
            return any(colliding_keys(v) or colliding_keys(k) for k, v in w["m"])
        return any(colliding_keys(v) for v in w.values())
    if isinstance(w, list):
        return any(colliding_keys(v) for v in w)
    return False


SIMPLE_DEFAULT = {"integer": 0, "string": "d", "boolean": True}


def add_nested_defaults(d, rng, top=True):
    """give nested (inline / referenced) structures a defaulted scalar sub-field that their `required` still
    names — the shape structure_to_schema exports for them (generator post-processing, in place)"""
    if isinstance(d, list):
        for x in d:
            add_nested_defaults(x, rng, top)
        return False
    if not isinstance(d, dict):
        return False
    hit = False
    if d.get("k") == "struct" and not top and rng.random() < 0.6:
        cands = [n for n, fd in d["fields"] if fd["k"] in SIMPLE_DEFAULT and not fd.get("min") and not fd.get("max")
                 and not fd.get("mult") and not fd.get("pattern") and not fd.get("minLength") and fd.get("sign", "any") == "any"]
        if cands:
            n = rng.choice(cands)
            fd = dict(d["fields"])[n]
            d["defaults"] = [[n, SIMPLE_DEFAULT[fd["k"]]]]
            hit = True
    for k, v in d.items():
        if k != "defaults":
            hit = add_nested_defaults(v, rng, False) or hit
    return hit


def gen_cases(rng, tier, n_classes):
    return [c for c in _gen_cases(rng, tier, n_classes)
            if c["op"] == "convert" or not colliding_keys([c.get("kw"), c.get("value"), c.get("doc")])]


def _gen_cases(rng, tier, n_classes):
    cases = []
    depth = 2 if tier == "quick" else 3
    for ci in range(n_classes):
        fast = rng.random() < 0.3
        allow = FAST_KINDS if fast else ALIAS_KINDS
        dg = gen.DeclGen(rng, max_depth=rng.choice([1, 2, depth]), allow=allow)
        vg = gen.ValGen(rng)
        cls = dg.class_decl(0, n_fields=rng.choice([1, 2, 3]))
        cls["name"] = f"A{ci}"
        cls.pop("ignoreNone", None)
        normalize_wrappers(cls)
        if rng.random() < 0.2:
            cls["immutable"] = True
        C.fix_accepts(cls)
        kw = vg.valid_kw(cls)
        if kw is gen.NOVALUE:
            continue
        base = {"suite": "alias", "cls": cls}
        cases.append(dict(base, op="construct", kw=kw))
        # values taken from another instance (typed wrappers as input), both poke directions
        how = rng.choice(["instance", "clone", "from_other_class", "to_other_class", "cast"])
        present = [k for k, _ in kw if k in dict(cls["fields"])]
        cases.append(dict(base, op="construct", kw=kw, src=how, mirror=rng.random() < 0.5, konst=rng.random() < 0.5,
                          ignore=rng.sample(present, rng.randint(0, min(2, len(present))))))
        if rng.random() < 0.4:
            bad = [[k, (vg.corrupt(v) if rng.random() < 0.7 else rng.choice(vg.confusion()))] for k, v in kw]
            cases.append(dict(base, op="construct", kw=bad, stream="corrupt"))
        for via in rng.sample(["Serializer", "function", "compact"], 2):
            cases.append(dict(base, op="serialize", kw=kw, via=via))
        names = [n for n, _ in cls["fields"]]
        fd = dict((n, f) for n, f in cls["fields"])
        for nm in names:
            if nm not in dict(kw):
                continue
            if fd[nm]["k"] not in SCALAR_KINDS:
                cases.append(dict(base, op="fieldSerialize", kw=kw, field=nm))
            v2 = vg.valid(fd[nm])
            if v2 is not gen.NOVALUE and fd[nm]["k"] not in SCALAR_KINDS:
                cases.append(dict(base, op="setattr", kw=kw, field=nm, value=v2))
            if fd[nm]["k"] not in SCALAR_KINDS and rng.random() < 0.5:
                cases.append(dict(base, op="setattr", kw=kw, field=nm, fromInstance=True, mirror=rng.random() < 0.5))
        if fast or rng.random() < 0.3:
            cases.append(dict(base, op="fastSerialize", kw=kw))
        # document for deserialization: the serialized image of the instance (computed at run time is not
        # allowed: cases must determine the run), so use the documented JSON image of the wire value
        from . import serde as SD
        doc = SD.dedupe_doc({"m": [[k, SD.to_doc(fd.get(k), v)] for k, v in kw]})
        cases.append(dict(base, op="deserialize", doc=doc))
        cases.append(dict(base, op="deserialize", doc=doc, keepUndefined=False))
        # the trusted short cut on the same class and document (only the argument snapshot is judged; ineligible classes raise)
        cases.append(dict(base, op="deserialize", doc=doc, trusted=True, via=("function" if ci % 2 else "Deserializer")))
        # the mapper argument in each accepted form x camel_case_convert, class wrappers and function-level API
        form, camel = rng.choice(["dict", "list", "none"]), rng.random() < 0.5
        cases.append(dict(base, op="deserialize", doc=doc, via="function", mapper=form, camel=camel))
        form, camel = rng.choice(["dict", "list", "none"]), rng.random() < 0.5
        cases.append(dict(base, op="serialize", kw=kw, via="function", mapper=form, camel=camel))
        if rng.random() < 0.3:
            cases.append(dict(base, op="deserialize", doc=doc, mapper="dict"))
            cases.append(dict(base, op="serialize", kw=kw, via="Serializer", mapper="dict"))
        # an undeclared key holding a container (kept as additional property or dropped, never edited)
        cases.append(dict(base, op="deserialize", doc={"m": doc["m"] + [["zz_extra", {"l": [{"l": [1]}]}]]},
                          keepUndefined=rng.choice([True, False]), stream="extra-key"))
        if rng.random() < 0.4:
            cases.append(dict(base, op="deserialize", doc=SD.dedupe_doc(SD.corrupt_doc(rng, doc)), stream="corrupt"))
        if rng.random() < 0.5:
            how = rng.choice(["Omit", "Pick", "Extend", "Partial", "AllFieldsRequired"])
            cases.append(dict(base, op="derive", how=how, names=rng.sample(names, rng.randint(1, len(names)))))
        if rng.random() < 0.5:
            cases.append(dict(base, op="toSchema"))
            cases.append(dict(base, op="schemaToCode"))
        if '"struct"' in json.dumps(cls["fields"]):
            # class -> schema -> code with nested structures that have defaulted sub-fields
            c2 = copy.deepcopy(cls)
            c2["name"] = cls["name"] + "D"
            if add_nested_defaults(c2, rng):
                cases.append({"suite": "alias", "cls": C.fix_accepts(c2), "op": "toSchema"})
                cases.append({"suite": "alias", "cls": c2, "op": "schemaToCode"})
    for doc in CONVERT_DOCS:
        for i in range(len(CONVERT_MAPPINGS)):
            ms = [CONVERT_MAPPINGS[j] for j in rng.sample(range(len(CONVERT_MAPPINGS)), rng.randint(1, 3))]
            cases.append({"suite": "alias", "op": "convert", "doc": doc, "mappings": ms})
    return cases + directed_cases()


def _cls(name, fields, required=None, addl=False):
    d = {"k": "struct", "name": name, "required": sorted(required if required is not None else [n for n, _ in fields]),
         "addl": addl, "fields": fields}
    return C.fix_accepts(d)


INT = {"k": "integer"}
STR = {"k": "string"}
ARR_INT = {"k": "seqOf", "item": INT}
INNER = _cls("Inner", [["x", INT], ["l", ARR_INT]])


def item_witness(cat):
    """(declaration, wire value for the constructor, JSON wire doc) of an element of the given category"""
    inst = {"o": ["Inner", [["x", 1], ["l", {"l": [1, 2]}]]]}
    inner_doc = {"m": [["x", 1], ["l", {"l": [1, 2]}]]}
    return {
        "number": (INT, 1, 1), "string": (STR, "s", "s"), "scalar": ({"k": "boolean"}, True, True),
        "any": ({"k": "anything"}, {"l": [1, {"l": [2]}]}, {"l": [1, {"l": [2]}]}),
        "coll": (ARR_INT, {"l": [1, 2]}, {"l": [1, 2]}),
        "struct": (INNER, inst, inner_doc),
        # (an undeclared key holding a container: kept by reference by the inline structure on its own)
        "inline": (dict(_cls("Inl", [["x", INT], ["l", ARR_INT]], addl=True), inline=True),
                   {"m": inner_doc["m"] + [["zz", {"l": [1]}]]}, {"m": inner_doc["m"] + [["zz", {"l": [1]}]]}),
        # a Tuple option (its value is a tuple, an immutable container) with untyped content inside
        "tupl": ({"k": "tuplePos", "items": [{"k": "seqAny"}, INT]}, {"t": [{"l": [1, {"l": [2]}]}, 2]}, {"l": [{"l": [1, {"l": [2]}]}, 2]}),
        # (untyped content inside: a wrapper that copies generically and one that hands the value on can be told apart)
        "wrap": ({"k": "anyOf", "fields": [STR, {"k": "seqAny"}]}, {"l": [1, {"l": [2]}]}, {"l": [1, {"l": [2]}]}),
    }[cat]


COLL_WITNESS = {
    "array": lambda it: ({"k": "seqOf", "item": it[0]}, {"l": [it[1]]}, {"l": [it[2]]}),
    "deque": lambda it: ({"k": "seqOf", "item": it[0], "seq": "deque"}, {"q": [it[1]]}, {"l": [it[2]]}),
    "set": lambda it: ({"k": "setOf", "item": it[0]}, {"s": [it[1]]}, {"l": [it[2]]}),
    "immSet": lambda it: ({"k": "setOf", "item": it[0], "imm": True}, {"s": [it[1]]}, {"l": [it[2]]}),
    "tuple": lambda it: ({"k": "tupleOf", "item": it[0]}, {"t": [it[1]]}, {"l": [it[2]]}),
    "map": lambda it: ({"k": "mapOf", "key": STR, "val": it[0]}, {"m": [["k", it[1]]]}, {"m": [["k", it[2]]]}),
}
UNTYPED_WITNESS = {
    "array": ({"k": "seqAny"}, {"l": [1, {"l": [2]}]}, {"l": [1, {"l": [2]}]}),
    "deque": ({"k": "seqAny", "seq": "deque"}, {"q": [1, {"l": [2]}]}, {"l": [1, {"l": [2]}]}),
    "set": ({"k": "setAny"}, {"s": [1, 2]}, {"l": [1, 2]}),
    "immSet": ({"k": "setAny", "imm": True}, {"s": [1, 2]}, {"l": [1, 2]}),
    "map": ({"k": "mapAny"}, {"m": [["k", {"l": [1]}]]}, {"m": [["k", {"l": [1]}]]}),
}
POS_WITNESS = {
    "arrayPos": ({"k": "seqPos", "items": [ARR_INT, INT], "addl": True}, {"l": [{"l": [1]}, 2]}, {"l": [{"l": [1]}, 2]}),
    "dequePos": ({"k": "seqPos", "items": [ARR_INT, INT], "addl": True, "seq": "deque"}, {"q": [{"l": [1]}, 2]}, {"l": [{"l": [1]}, 2]}),
    "tuplePos": ({"k": "tuplePos", "items": [ARR_INT, INT]}, {"t": [{"l": [1]}, 2]}, {"l": [{"l": [1]}, 2]}),
}
HASHABLE_CATS = ("number", "string", "scalar")


def witness(kind, cat):
    """(field declaration, constructor wire value, wire document) exercising table site (kind, cat); None if
    the combination does not exist"""
    if kind == "any":
        return item_witness("any")
    if kind in ("struct", "inline"):
        return item_witness(kind)
    if kind in POS_WITNESS:
        return POS_WITNESS[kind]
    if kind in COLL_WITNESS:
        if cat == "untyped":
            return UNTYPED_WITNESS.get(kind)
        if kind in ("set", "immSet") and cat == "coll":
            tp = {"k": "tuplePos", "items": [INT, INT]}
            return COLL_WITNESS[kind]((tp, {"t": [1, 2]}, {"l": [1, 2]}))
        if kind in ("set", "immSet") and cat not in HASHABLE_CATS:
            return None
        if cat not in ("number", "string", "scalar", "any", "coll", "struct", "inline", "wrap"):
            return None
        return COLL_WITNESS[kind](item_witness(cat))
    if kind == "notF":
        if cat != "untyped":
            return None
        d, v, doc = item_witness("any")
        return {"k": "notF", "fields": [STR]}, v, doc
    if kind in ("anyOf", "oneOf", "allOf"):
        if cat == "untyped":
            # the option `<wrapper>.serialize` delegates to does not fit the value (output operations only)
            return ({"k": kind, "fields": [STR, ARR_INT] if kind == "allOf" else [ARR_INT, STR]},
                    {"l": [1, 2]}, {"l": [1, 2]}) if kind != "allOf" else None
        if cat == "none":
            return None
        d, v, doc = item_witness(cat)
        if cat == "coll":
            # a collection option with UNTYPED content: the option on its own keeps the inner objects, so whether the
            # wrapper hands the value to the option or copies it generically (OneOf / AllOf: a private deep copy) shows
            d, v, doc = UNTYPED_WITNESS["array"]
        if kind == "allOf":
            return {"k": "allOf", "fields": [d]}, v, doc
        other = STR if cat not in ("string",) else INT
        if cat == "any":
            return {"k": kind, "fields": [d]}, v, doc
        return {"k": kind, "fields": [other, d]}, v, doc
    return None


COLL_KINDS = ["array", "deque", "set", "immSet", "tuple", "map"]
COLL_CATS = ["number", "string", "scalar", "any", "untyped", "coll", "struct", "inline", "wrap"]
WRAP_KINDS = ["anyOf", "oneOf", "allOf", "notF"]
WRAP_CATS = ["number", "string", "scalar", "any", "coll", "struct", "inline", "wrap", "tupl"]


def field_sites():
    sites = [("any", "none"), ("struct", "none"), ("inline", "none"), ("arrayPos", "none"), ("dequePos", "none"),
             ("tuplePos", "none")]
    sites += [(k, c) for k in COLL_KINDS for c in COLL_CATS]
    sites += [(k, c) for k in WRAP_KINDS for c in WRAP_CATS + ["untyped"]]
    sites = [s for s in sites if witness(*s) is not None or (s[0] in ("oneOf", "allOf") and s[1] == "untyped")]
    sites += [("anyOf", "enum"), ("allOf", "enum")] + [("misfit", c) for c in MISFIT_OPTS]
    return sites + [("owner", "none")]


NOFIT = {"m": [["z", {"l": [1]}]]}       # a dict: fits neither Array[Integer] nor String


ENUM_LIT = {"k": "enumLit", "values": [1, 2, "x1"]}
MAP_INT = {"k": "mapOf", "key": STR, "val": INT}
# category of the delegated (last) option -> (option the value is stored through, stored value, delegated option)
MISFIT_OPTS = {"number": (ARR_INT, {"l": [1, 2]}, INT), "string": (ARR_INT, {"l": [1, 2]}, STR),
               "scalar": (ARR_INT, {"l": [1, 2]}, {"k": "boolean"}), "enum": (ARR_INT, {"l": [1, 2]}, ENUM_LIT),
               "coll": (ARR_INT, {"l": [1, 2]}, MAP_INT),
               "inline": (ARR_INT, {"l": [1, 2]}, dict(_cls("InlM", [["x", INT]]), inline=True)),
               "struct": (ARR_INT, {"l": [1, 2]}, INNER),
               "tupl": (MAP_INT, {"m": [["k", 1]]}, {"k": "tupleOf", "item": INT}),
               "wrap": (ARR_INT, {"l": [1, 2]}, {"k": "oneOf", "fields": [STR, MAP_INT]})}


def witness_case(op, kind, cat):
    if kind == "misfit":
        # `AnyOf.serialize` hands every value to its last non-None option: a list stored through the Array option
        # reaches `<option of category cat>.serialize`
        if op not in OUTPUT_FIELD_OPS or cat not in MISFIT_OPTS:
            return None
        first, value, last = MISFIT_OPTS[cat]
        d = {"k": "anyOf", "fields": [copy.deepcopy(first), copy.deepcopy(last)]}
        cls = _cls(f"W_misfit_{cat}", [["f", d]])
        base = {"suite": "alias", "cls": cls, "witness": [op, kind, cat], "pokeLimit": 120, "kw": [["f", value]]}
        return dict(base, op=op, field="f") if op == "fieldSerialize" else dict(base, op=op)
    if kind in ("anyOf", "allOf") and cat == "enum":
        if op not in OUTPUT_FIELD_OPS:
            return None
        d = {"k": kind, "fields": [copy.deepcopy(ENUM_LIT)] if kind == "allOf" else [ARR_INT, copy.deepcopy(ENUM_LIT)]}
        cls = _cls(f"W_{kind}_enum", [["f", d]])
        base = {"suite": "alias", "cls": cls, "witness": [op, kind, cat], "pokeLimit": 120, "kw": [["f", 2]]}
        return dict(base, op=op, field="f") if op == "fieldSerialize" else dict(base, op=op)
    if kind == "owner":
        # the defensive copy of an immutable owner in front of an Anything field (which on its own keeps / hands out
        # the very object): constructor / Deserializer of an ImmutableStructure, first assignment of an immutable=True
        # field, and the three output operations on an ImmutableStructure
        base = {"suite": "alias", "witness": [op, kind, cat], "pokeLimit": 120}
        if op in ("construct", "deserialize"):
            return dict(base, op=op, imm="structure", only=["opt"])
        if op == "setattr":
            return dict(base, op=op, imm="fields", only=["ts"], field="opt", vkey="opt")
        if op in ("serialize", "fastSerialize"):
            return dict(base, op=op, imm="structure", only=["opt"], via="Serializer")
        if op == "fieldSerialize":
            return dict(base, op=op, imm="structure", only=["opt"], field="opt")
        return None
    if kind in ("anyOf", "oneOf", "allOf") and cat == "untyped" and \
            not (op in OUTPUT_FIELD_OPS and delegated_option(kind, [ARR_INT, STR]) != "first"):
        # no option takes the value: input operations are given one (a dict), output operations find one put into
        # the instance behind validation's back (a wrapper whose `serialize` delegates to a FIXED option has the `misfit`
        # sites instead)
        d = {"k": kind, "fields": [ARR_INT] if kind == "allOf" else [ARR_INT, STR]}
        cls = _cls(f"W_{kind}_nofit", [["f", d]])
        base = {"suite": "alias", "cls": cls, "witness": [op, kind, cat], "pokeLimit": 120}
        ok = [["f", {"l": [1, 2]}]]
        if op == "construct":
            return dict(base, op=op, kw=[["f", NOFIT]])
        if op == "setattr":
            return dict(base, op=op, kw=ok, field="f", value=NOFIT)
        if op == "deserialize":
            return dict(base, op=op, doc={"m": [["f", NOFIT]]})
        if op == "serialize":
            return dict(base, op=op, kw=ok, via="Serializer", raw=[["f", NOFIT]])
        if op == "fieldSerialize":
            return dict(base, op=op, kw=ok, field="f", raw=[["f", NOFIT]])
        if op == "fastSerialize":
            return dict(base, op=op, kw=ok, raw=[["f", NOFIT]])
        return None
    w = witness(kind, cat)
    if w is None:
        return None
    d, v, doc = w
    cls = _cls(f"W_{kind}_{cat}", [["f", copy.deepcopy(d)]])
    base = {"suite": "alias", "cls": cls, "witness": [op, kind, cat], "pokeLimit": 120}
    kw = [["f", v]]
    if op == "construct":
        return dict(base, op=op, kw=kw)
    if op == "setattr":
        return dict(base, op=op, kw=kw, field="f", value=v)
    if op == "deserialize":
        return dict(base, op=op, doc={"m": [["f", doc]]})
    if op == "serialize":
        return dict(base, op=op, kw=kw, via="Serializer")
    if op == "fieldSerialize":
        return dict(base, op=op, kw=kw, field="f")
    if op == "fastSerialize":
        return dict(base, op=op, kw=kw)
    return None


def bare_witness_case(op, cat):
    """the option of a wrapper witness on its own (same declaration, same value, no wrapper around it): what the option
    does by itself, to compare the wrapper's behaviour with"""
    d, v, doc = item_witness(cat)
    cls = _cls(f"W_bare_{cat}", [["f", copy.deepcopy(d)]])
    base = {"suite": "alias", "cls": cls, "pokeLimit": 120}
    kw = [["f", v]]
    return {"construct": dict(base, op=op, kw=kw), "setattr": dict(base, op=op, kw=kw, field="f", value=v),
            "deserialize": dict(base, op=op, doc={"m": [["f", doc]]}), "serialize": dict(base, op=op, kw=kw, via="Serializer"),
            "fieldSerialize": dict(base, op=op, kw=kw, field="f"), "fastSerialize": dict(base, op=op, kw=kw)}.get(op)


def directed_cases():
    """one case per table site and operation (the witnesses the extractor probes), plus sharing inside arguments"""
    out = []
    for op in FIELD_OPS:
        for kind, cat in field_sites():
            c = witness_case(op, kind, cat)
            if c is not None:
                out.append(c)
    multi = _cls("Multi", [["a", ARR_INT], ["b", {"k": "seqOf", "item": ARR_INT}], ["m", {"k": "mapOf", "key": STR, "val": ARR_INT}],
                           ["u", {"k": "seqAny"}], ["t", {"k": "tuplePos", "items": [ARR_INT, INT]}], ["i", INNER]], addl=True)
    kw = [["a", {"l": [1, 2]}], ["b", {"l": [{"l": [1]}, {"l": [2]}]}], ["m", {"m": [["k", {"l": [1]}]]}],
          ["u", {"l": [{"l": [1]}, {"m": [["z", {"l": [1]}]]}]}], ["t", {"t": [{"l": [1]}, 2]}],
          ["i", {"o": ["Inner", [["x", 1], ["l", {"l": [1]}]]]}], ["extra", {"l": [{"l": [1]}]}]]
    for op in ("construct", "serialize", "fastSerialize"):
        out.append({"suite": "alias", "op": op, "cls": multi, "kw": kw})
    for how in ("Omit", "Pick", "Extend", "Partial", "AllFieldsRequired"):
        out.append({"suite": "alias", "op": "derive", "cls": multi, "how": how, "names": ["a", "b"]})
    # typed wrappers of one instance given to another, every entry point, both poke directions; depth >= 2
    nestd = _cls("Nested", [["rows", {"k": "seqOf", "item": ARR_INT}],
                            ["cells", {"k": "seqOf", "item": {"k": "mapOf", "key": STR, "val": INT}}],
                            ["m", {"k": "mapOf", "key": STR, "val": ARR_INT}],
                            ["dq", {"k": "seqOf", "item": ARR_INT, "seq": "deque"}],
                            ["t", {"k": "tuplePos", "items": [ARR_INT, INT]}], ["a", ARR_INT]])
    nkw = [["rows", {"l": [{"l": [1, 2]}, {"l": [3]}]}], ["cells", {"l": [{"m": [["k", 1]]}]}], ["m", {"m": [["k", {"l": [1]}]]}],
           ["dq", {"q": [{"l": [1]}]}], ["t", {"t": [{"l": [1]}, 2]}], ["a", {"l": [1, 2]}]]
    for how in ("instance", "clone", "from_other_class", "to_other_class", "cast"):
        for mirror in (False, True):
            out.append({"suite": "alias", "op": "construct", "cls": nestd, "kw": nkw, "src": how, "mirror": mirror})
    # the alternative constructors with a caller-owned ignore list and override kwargs, classes with / without a
    # Constant (declared in a subclass: inheritance)
    for how in ("from_other_class", "to_other_class", "clone"):
        for konst in (False, True):
            for ignore in (["a"], ["rows", "m"]):
                out.append({"suite": "alias", "op": "construct", "cls": nestd, "kw": nkw, "src": how, "konst": konst,
                            "ignore": ignore})
    # schema -> code on schemas with INLINE nested objects (depth 2-3) that carry defaults / required lists / enums,
    # and on definitions: exported from classes with StructureReference fields, and hand-built
    leaf = dict(_cls("InlLeaf", [["p", INT], ["q", STR], ["e", {"k": "enumLit", "values": ["a", "b"]}]], required=["p", "q"]),
                inline=True, defaults=[["q", "dq"]])
    mid = dict(_cls("InlMid", [["leaf", leaf], ["n", INT]], required=["leaf", "n"]), inline=True, defaults=[["n", 7]])
    refd = _cls("RefWithInline", [["in1", copy.deepcopy(leaf)], ["s", STR]], required=["in1"])
    for nm, fields in (("Depth2", [["a", copy.deepcopy(leaf)], ["z", INT]]), ("Depth3", [["m", mid], ["z", INT]]),
                       ("ViaDefs", [["r", refd], ["arr", {"k": "seqOf", "item": copy.deepcopy(refd)}]])):
        cl = _cls(nm, fields, required=[fields[0][0]], addl=True)
        out.append({"suite": "alias", "op": "toSchema", "cls": cl})
        out.append({"suite": "alias", "op": "schemaToCode", "cls": cl})
    obj = lambda props, req, **kw: dict({"type": "object", "properties": props, "required": req}, **kw)
    inner_s = obj({"p": {"type": "integer"}, "q": {"type": "string", "default": "dq"}, "e": {"enum": ["a", "b"]}}, ["p", "q"])
    raw = obj({"a": copy.deepcopy(inner_s), "b": obj({"c": copy.deepcopy(inner_s), "n": {"type": "integer", "default": 1}}, ["c", "n"]),
               "l": {"type": "array", "items": copy.deepcopy(inner_s)}, "r": {"$ref": "#/definitions/D"},
               "t": {"type": "string", "default": "x"}}, ["a", "t"], additionalProperties=False)
    raw_defs = {"D": obj({"in1": copy.deepcopy(inner_s), "s": {"type": "string", "default": "y"}}, ["in1", "s"])}
    out.append({"suite": "alias", "op": "schemaToCode", "schema": raw, "definitions": raw_defs, "n": 1})
    out.append({"suite": "alias", "op": "schemaToCode", "schema": copy.deepcopy(inner_s), "definitions": {}, "n": 2})
    # immutable owners (ImmutableStructure; a Structure whose fields are immutable=True) given tuple-valued data
    # with mutable elements at depth 1-2: Tuple of structures, Anything / untyped Array / Map holding tuples of
    # lists and dicts, additional properties; constructor, Deserializer (JSON lists), first assignment
    for owner in ("structure", "fields"):
        out.append({"suite": "alias", "op": "construct", "imm": owner})
        out.append({"suite": "alias", "op": "deserialize", "imm": owner})
        for only in (["ts"], ["any"], ["tu"], ["ar", "mp"], ["extra_t"]):
            out.append({"suite": "alias", "op": "construct", "imm": owner, "only": only})
    out.append({"suite": "alias", "op": "setattr", "imm": "fields", "only": ["ts"], "field": "opt"})
    out.append({"suite": "alias", "op": "setattr", "imm": "fields", "only": ["any"], "field": "tu"})
    # schema stream over the ext field kinds, with and without defaults (plain value, callable), sibling class
    # over the same kinds re-exported before/after; history "export a class with defaulted fields, then another"
    kinds = ["IPV4", "HostName", "EmailAddress", "DateString", "TimeString", "DateField", "DecimalNumber",
             "JSONString", "String", "Integer", "Array", "Map", "Set", "Enum",
             "UserSerDict", "UserSerList", "UserPlainField", "Integer", "String"]
    n = 0
    for dmode in ("none", "plain", "callable"):
        for i in range(0, len(kinds), 5):
            spec = [[f"f{j}", k, dmode] for j, k in enumerate(kinds[i:i + 5])]
            for op in ("toSchema", "schemaToCode"):
                n += 1
                out.append({"suite": "alias", "op": op, "ext": spec, "n": n})
    for nm, _ in nkw:
        for mirror in (False, True):
            out.append({"suite": "alias", "op": "setattr", "cls": nestd, "kw": nkw, "field": nm, "fromInstance": True,
                        "mirror": mirror})
    # the mapper argument: None / dict / list of chained mappers x camel_case_convert, every entry point
    ndoc2 = {"m": [["rows", {"l": [{"l": [1, 2]}]}], ["cells", {"l": [{"m": [["k", 1]]}]}], ["m", {"m": [["k", {"l": [1]}]]}],
                   ["dq", {"l": [{"l": [1]}]}], ["t", {"l": [{"l": [1]}, 2]}], ["a", {"l": [1, 2]}]]}
    for form in ("none", "dict", "list"):
        for camel in (False, True):
            out.append({"suite": "alias", "op": "deserialize", "cls": nestd, "doc": ndoc2, "via": "function",
                        "mapper": form, "camel": camel})
            out.append({"suite": "alias", "op": "serialize", "cls": nestd, "kw": nkw, "via": "function",
                        "mapper": form, "camel": camel})
    out.append({"suite": "alias", "op": "deserialize", "cls": nestd, "doc": ndoc2, "mapper": "dict"})
    out.append({"suite": "alias", "op": "serialize", "cls": nestd, "kw": nkw, "via": "Serializer", "mapper": "dict"})
    # empty containers (an `if value:` style short cut would keep or hand out exactly these)
    emp = _cls("Emp", [["a", ARR_INT], ["u", {"k": "seqAny"}], ["q", {"k": "seqAny", "seq": "deque"}], ["m", {"k": "mapAny"}],
                       ["s", {"k": "setOf", "item": INT}], ["t", {"k": "mapOf", "key": STR, "val": INT}],
                       ["b", {"k": "seqOf", "item": ARR_INT}]])
    ekw = [["a", {"l": []}], ["u", {"l": []}], ["q", {"q": []}], ["m", {"m": []}], ["s", {"s": []}], ["t", {"m": []}],
           ["b", {"l": [{"l": []}]}]]
    for op in ("construct", "serialize", "fastSerialize"):
        out.append({"suite": "alias", "op": op, "cls": emp, "kw": ekw})
    out.append({"suite": "alias", "op": "deserialize", "cls": emp,
                "doc": {"m": [["a", {"l": []}], ["u", {"l": []}], ["q", {"l": []}], ["m", {"m": []}], ["s", {"l": []}],
                              ["t", {"m": []}], ["b", {"l": [{"l": []}]}]]}})
    for nm, v in ekw:
        out.append({"suite": "alias", "op": "setattr", "cls": emp, "kw": ekw, "field": nm, "value": v})
        out.append({"suite": "alias", "op": "fieldSerialize", "cls": emp, "kw": ekw, "field": nm})
    # an ImmutableStructure: everything goes in and out through deep copies (oracle only)
    imm = dict(_cls("Imm", [["a", ARR_INT], ["b", {"k": "seqOf", "item": ARR_INT}], ["u", {"k": "seqAny"}],
                            ["m", {"k": "mapAny"}], ["s", {"k": "seqOf", "item": STR}]]), immutable=True)
    ikw = [["a", {"l": [1, 2]}], ["b", {"l": [{"l": [1]}]}], ["u", {"l": [{"l": [1]}, 2]}], ["m", {"m": [["k", {"l": [1]}]]}],
           ["s", {"l": ["x"]}]]
    for op in ("construct", "serialize", "fastSerialize"):
        out.append({"suite": "alias", "op": op, "cls": imm, "kw": ikw})
    for nm in ("a", "b", "u", "m", "s"):
        out.append({"suite": "alias", "op": "fieldSerialize", "cls": imm, "kw": ikw, "field": nm})
    # ImmutableStructure + a collection behind AnyOf: the wrapper was built on AnyOf's scratch structure
    immw = dict(_cls("ImmW", [["m", {"k": "anyOf", "fields": [{"k": "mapAny"}]}], ["u", {"k": "anyOf", "fields": [{"k": "seqAny"}]}],
                              ["q", {"k": "anyOf", "fields": [{"k": "seqAny", "seq": "deque"}]}],
                              ["a", {"k": "anyOf", "fields": [ARR_INT]}], ["s", {"k": "anyOf", "fields": [{"k": "seqOf", "item": STR}]}],
                              ["t", {"k": "anyOf", "fields": [{"k": "mapOf", "key": STR, "val": ARR_INT}]}]]), immutable=True)
    wkw = [["m", {"m": [["k", {"l": [1]}]]}], ["u", {"l": [{"l": [1]}, 2]}], ["q", {"q": [1, 2]}], ["a", {"l": [1, 2]}],
           ["s", {"l": ["x"]}], ["t", {"m": [["k", {"l": [1]}]]}]]
    for op in ("construct", "serialize", "fastSerialize"):
        out.append({"suite": "alias", "op": op, "cls": immw, "kw": wkw})
    for nm in ("m", "u", "q", "a", "s", "t"):
        out.append({"suite": "alias", "op": "fieldSerialize", "cls": immw, "kw": wkw, "field": nm})
    # undeclared keys at every level of a document (kept or dropped, never edited), both flag values
    inl = dict(_cls("InlX", [["x", INT], ["l", ARR_INT]], addl=True), inline=True)
    ref = _cls("RefX", [["x", INT]], addl=True)
    nest = _cls("Nest", [["s", inl], ["r", ref], ["arr", {"k": "seqOf", "item": copy.deepcopy(inl)}],
                         ["m", {"k": "mapOf", "key": STR, "val": copy.deepcopy(ref)}]], addl=True)
    sub = lambda: {"m": [["x", 1], ["l", {"l": [1]}], ["zz", {"l": [{"l": [1]}]}]]}
    subr = lambda: {"m": [["x", 1], ["zz", {"l": [{"l": [1]}]}]]}
    ndoc = {"m": [["s", sub()], ["r", subr()], ["arr", {"l": [sub()]}], ["m", {"m": [["k", subr()]]}], ["top", {"l": [1]}]]}
    for ku in (True, False, None):
        out.append({"suite": "alias", "op": "deserialize", "cls": nest, "doc": ndoc, "keepUndefined": ku})
    sch = _cls("Sch", [["e", {"k": "enumLit", "values": [1, 2, 3]}], ["a", ARR_INT], ["s", STR], ["i", INNER]], required=["e", "a"], addl=True)
    out.append({"suite": "alias", "op": "toSchema", "cls": sch})
    out.append({"suite": "alias", "op": "schemaToCode", "cls": sch})
    dflt = dict(_cls("Dflt", [["s", STR], ["n", INT]], required=["n"], addl=True), defaults=[["s", "x"]])
    out.append({"suite": "alias", "op": "toSchema", "cls": dflt})
    out.append({"suite": "alias", "op": "schemaToCode", "cls": dflt})
    # multi-field wrappers with SEVERAL container options, elements of one collection taking different options
    # (the model picks per element by the value's shape), behind AnyOf / OneOf / AllOf, every operation
    mapd = {"k": "mapOf", "key": STR, "val": ARR_INT}
    for wk in ("anyOf", "oneOf"):
        w = {"k": wk, "fields": [ARR_INT, mapd, STR]}
        het = _cls(f"Het_{wk}", [["xs", {"k": "seqOf", "item": copy.deepcopy(w)}], ["one", copy.deepcopy(w)],
                                 ["m", {"k": "mapOf", "key": STR, "val": copy.deepcopy(w)}],
                                 ["opt", {"k": "anyOf", "fields": [{"k": "noneF"}, mapd, ARR_INT]}]])
        hkw = [["xs", {"l": [{"l": [1, 2]}, {"m": [["k", {"l": [3]}]]}, "s", {"l": []}]}], ["one", {"m": [["k", {"l": [1]}]]}],
               ["m", {"m": [["a", {"l": [1]}], ["b", {"m": [["k", {"l": [2]}]]}], ["c", "s"]]}], ["opt", {"l": [7]}]]
        for op in ("construct", "serialize", "fastSerialize"):
            out.append({"suite": "alias", "op": op, "cls": het, "kw": hkw})
        out.append({"suite": "alias", "op": "deserialize", "cls": het, "doc": {"m": hkw}})
        for nm, v in hkw:
            out.append({"suite": "alias", "op": "setattr", "cls": het, "kw": hkw, "field": nm, "value": v})
            out.append({"suite": "alias", "op": "fieldSerialize", "cls": het, "kw": hkw, "field": nm})
        # the same declarations owned by an ImmutableStructure
        out.append({"suite": "alias", "op": "construct", "cls": dict(het, name=f"HetImm_{wk}", immutable=True), "kw": hkw})
        out.append({"suite": "alias", "op": "serialize", "cls": dict(het, name=f"HetImm_{wk}", immutable=True), "kw": hkw})
    # the trusted / short-cut entry points x classes with Enum fields, nested classes, arrays of nested classes x mappers
    for shp in TRUSTED_SHAPES:
        for mp in TRUSTED_MAPPERS:
            for entry in ("Deserializer", "function"):
                out.append({"suite": "alias", "op": "deserialize", "trusted": [shp, mp, entry]})
        for entry in ("from_trusted_data", "from_trusted_kwargs", "trust_supplied_values"):
            out.append({"suite": "alias", "op": "construct", "trusted": [shp, "none", entry]})
    # every public entry point that no operation stream above exercises (harness/suites/alias_api.py)
    out += API.api_cases()
    return out
