"""
Suite `schema` (C08): (class declaration, valid instances, boundary documents) ->
real `structure_to_schema`, real Serializer / Deserializer, `jsonschema.Draft4Validator`
(independent draft-4 implementation) on one side; Sem/Schema.lean (`toSchema`, `dialectFix`),
Spec/JsValid.lean (`jsValidFuel`, `wfDocument`), Spec/SchemaFrag.lean on the other.

Correspondence: model schema == real schema (canonicalised: key order, `required` order, numbers by
value); Lean `wfDocument` == `Draft4Validator.check_schema` + every `$ref` resolves, on the real
schema; Lean `jsValidFuel` == `Draft4Validator.is_valid` on the same (real schema, document) pairs;
model serialization == real serialization.
Oracle on the real code: the property statement executed with jsonschema (see `oracle`).
"""
import copy
import json
import re
from fractions import Fraction

import jsonschema
from jsonschema import Draft4Validator

from typedpy import Deserializer, Serializer
from typedpy.json_schema.json_schema_mapping import structure_to_schema

from .. import dump, gen
from . import construct as C
from . import serde as S

MAPPABLE = ["integer", "number", "float", "string", "boolean", "enumLit", "enumCls", "seqOf", "seqPos", "seqAny",
            "setOf", "setAny", "tupleOf", "tuplePos", "mapOf", "mapAny", "struct", "inline", "anyOf", "oneOf",
            "allOf", "notF"]
RAISING = ["anything", "noneF"]
KEYWORDS = {"type", "enum", "minimum", "maximum", "multipleOf", "minLength", "maxLength", "pattern", "items",
            "additionalItems", "minItems", "maxItems", "uniqueItems", "properties", "patternProperties",
            "additionalProperties", "required", "allOf", "anyOf", "oneOf", "not", "$ref", "default",
            "exclusiveMaximum", "exclusiveMinimum", "definitions", "multiplesOf"}


# ------------------------------------------------------------------ dialect fix (mirror of Sch.dialectFix)

def dialect_fix(s):
    """multiplesOf -> multipleOf, list-valued not -> not:{anyOf:[…]}, at schema positions only"""
    if not isinstance(s, dict):
        return s
    out = {}
    for k, v in s.items():
        if k == "multiplesOf":
            out["multipleOf"] = v
        elif k == "not":
            out[k] = {"anyOf": [dialect_fix(x) for x in v]} if isinstance(v, list) else dialect_fix(v)
        elif k == "items":
            out[k] = [dialect_fix(x) for x in v] if isinstance(v, list) else dialect_fix(v)
        elif k in ("allOf", "anyOf", "oneOf"):
            out[k] = [dialect_fix(x) for x in v] if isinstance(v, list) else v
        elif k in ("properties", "patternProperties", "definitions"):
            out[k] = {n: dialect_fix(x) for n, x in v.items()} if isinstance(v, dict) else v
        elif k in ("additionalProperties", "additionalItems"):
            out[k] = dialect_fix(v)
        else:
            out[k] = v
    return out


def all_refs(s, acc):
    """`$ref` strings at schema positions"""
    if isinstance(s, dict):
        for k, v in s.items():
            if k == "$ref":
                acc.append(v)
            elif k in ("properties", "patternProperties", "definitions") and isinstance(v, dict):
                for x in v.values():
                    all_refs(x, acc)
            elif k in ("items", "allOf", "anyOf", "oneOf", "not", "additionalProperties", "additionalItems"):
                for x in (v if isinstance(v, list) else [v]):
                    all_refs(x, acc)
    return acc


def schema_patterns(s, acc):
    if isinstance(s, dict):
        for k, v in s.items():
            if k == "pattern" and isinstance(v, str):
                acc.add(v)
            if k == "patternProperties" and isinstance(v, dict):
                acc.update(x for x in v if isinstance(x, str))
            schema_patterns(v, acc)
    elif isinstance(s, list):
        for x in s:
            schema_patterns(x, acc)
    return acc


def doc_strings(d, acc):
    if isinstance(d, str):
        acc.add(d)
    elif isinstance(d, dict):
        for k, v in d.items():
            doc_strings(k, acc)
            doc_strings(v, acc)
    elif isinstance(d, (list, tuple)):
        for x in d:
            doc_strings(x, acc)
    return acc


# ------------------------------------------------------------------ canonical form of schemas (wire values)

def canon_schema(w):
    """wire value of a schema -> order-free canonical JSON text (numbers by value, `required` sorted)"""
    def go(x, key=None):
        if x is None or isinstance(x, (bool, str)):
            return x
        if isinstance(x, int):
            return ["n", x, 1]
        if isinstance(x, dict):
            if "f" in x:
                fr = Fraction(x["f"][0], x["f"][1])
                return ["n", fr.numerator, fr.denominator]
            if "l" in x:
                xs = [go(y) for y in x["l"]]
                if key == "required":
                    xs = sorted(xs, key=json.dumps)
                return {"l": xs}
            if "m" in x:
                return {"m": sorted(([go(k), go(v, k if isinstance(k, str) else None)] for k, v in x["m"]),
                                    key=lambda kv: json.dumps(kv[0]))}
        return {"other": json.dumps(x, sort_keys=True, default=str)}
    return json.dumps(go(w), sort_keys=True)


# ------------------------------------------------------------------ generation

def _walk(d, fn):
    if isinstance(d, dict):
        fn(d)
        for v in list(d.values()):
            _walk(v, fn)
    elif isinstance(d, list):
        for x in d:
            _walk(x, fn)


def tweak_decl(rng, cls, vg):
    """steer the generic generator towards the eligibility boundaries of every mapper"""
    def fn(d):
        k = d.get("k")
        if k in ("integer", "number", "float"):
            if rng.random() < 0.04 and d.get("max") is None:
                d["excl"] = True                      # exclusiveMaximum without maximum
            if rng.random() < 0.02:
                d["mult"] = -2
            if rng.random() < 0.15 and d.get("sign") is None:
                d["sign"] = rng.choice(["pos", "neg", "nonpos", "nonneg"])
                if rng.random() < 0.6:
                    d.pop("min", None), d.pop("max", None), d.pop("minFloat", None), d.pop("maxFloat", None), d.pop("excl", None)
        if k == "mapOf":
            r = rng.random()
            if r < 0.6:
                d["key"] = {"k": "string"}
            elif r < 0.85:
                key = {"k": "string"}
                if rng.random() < 0.6:
                    key["pattern"] = rng.choice(gen.PATTERNS)
                if rng.random() < 0.4:
                    key["minLength"] = rng.choice([0, 1])
                if rng.random() < 0.3:
                    key["maxLength"] = rng.choice([3, 5])
                d["key"] = key
        if k == "string" and d.get("pattern") is not None and rng.random() < 0.5:
            d["pattern"] = rng.choice(["^[a-z]+$", "^x", "^.{2,3}$", "^a|b"])
    _walk(cls["fields"], fn)
    # Optional[X] = AnyOf[X, None] on fields that are not required; the neighbouring shapes that are not Optional
    for pair in cls["fields"]:
        n, fd = pair
        if n not in cls["required"] and fd["k"] not in ("noneF", "anything") and rng.random() < 0.3:
            r = rng.random()
            if r < 0.8:
                pair[1] = {"k": "anyOf", "fields": [fd, {"k": "noneF"}]}
            elif r < 0.9:
                pair[1] = {"k": "anyOf", "fields": [fd, {"k": "boolean"}, {"k": "noneF"}]}
            else:
                pair[1] = {"k": "anyOf", "fields": [{"k": "noneF"}, fd]}
    # a nested class used twice (two $refs to one definition), sometimes inside an array
    nested = [fd for _, fd in cls["fields"] if fd.get("k") == "struct" and not fd.get("inline")]
    free = [n for n in ["g", "h7", "k_k"] if n not in [x for x, _ in cls["fields"]]]
    if nested and free and rng.random() < 0.35:
        again = copy.deepcopy(rng.choice(nested))
        cls["fields"].append([free[0], again if rng.random() < 0.6 else {"k": "seqOf", "item": again}])
        if rng.random() < 0.5:
            cls["required"] = sorted(cls["required"] + [free[0]])
    # two different classes under one __name__ (built under distinct names, renamed afterwards)
    if len(nested) >= 2 and nested[0]["name"] != nested[1]["name"] and rng.random() < 0.5:
        cls["collide"] = [nested[1]["name"], nested[0]["name"]]
    # defaults on optional scalar fields
    defaults = []
    for n, fd in cls["fields"]:
        ok_kind = fd["k"] in ("integer", "number", "float", "string", "boolean", "enumCls", "enumLit") or \
            (fd["k"] == "seqOf" and fd.get("seq") != "deque" and
             fd["item"]["k"] in ("integer", "string") + (("enumCls",) if rng.random() < 0.15 else ()))
        if n not in cls["required"] and ok_kind and rng.random() < 0.3:
            v = vg.valid(fd)
            if v is not gen.NOVALUE and v is not None and not (fd["k"] == "boolean" and isinstance(v, str)) \
                    and not (fd["k"] == "enumCls" and isinstance(v, str)):
                if fd["k"] == "float" and isinstance(v, int):
                    v = gen.fl(v)
                if fd["k"] == "seqOf" and fd["item"]["k"] == "enumCls" and isinstance(v, dict) and "l" in v:
                    # a default is given in its normal form: members, not the names an Enum field also accepts
                    # (a list mixing members and name strings makes serialize_val raise inside _default_to_json,
                    # which then keeps the raw value: outside the model's untyped defaultJ)
                    v = {"l": [({"e": [fd["item"]["cls"], x]} if isinstance(x, str) else x) for x in v["l"]]}
                defaults.append([n, v])
    if defaults:
        cls["defaults"] = defaults
    # Optional[X] in ELEMENT position (array / tuple / set item, map value, positional item): a None element is
    # serialized as null, and the element schema is {"anyOf": [X, {"type": "null"}]} since /repo 431f094
    def opt(d):
        k = d.get("k")
        def wrap(x):
            return {"k": "anyOf", "fields": [x, {"k": "noneF"}]}
        def wrappable(x):
            return isinstance(x, dict) and x.get("k") not in ("anyOf", "noneF", "anything", "oneOf", "allOf", "notF")
        if k in ("seqOf", "tupleOf", "setOf") and wrappable(d.get("item")) and rng.random() < 0.12:
            if not (k == "setOf" and d["item"].get("k") not in ("integer", "string", "number", "float", "boolean", "enumCls")):
                d["item"] = wrap(d["item"])
        elif k == "mapOf" and wrappable(d.get("val")) and rng.random() < 0.12:
            d["val"] = wrap(d["val"])
        elif k in ("seqPos", "tuplePos") and d.get("items") and rng.random() < 0.12:
            i = rng.randrange(len(d["items"]))
            if wrappable(d["items"][i]):
                d["items"][i] = wrap(d["items"][i])
    def walk_own(d):
        # not into nested Structure classes: one class can be referenced twice (copies of one declaration)
        if isinstance(d, dict):
            if d.get("k") == "struct" and not d.get("inline"):
                return
            opt(d)
            for v in list(d.values()):
                walk_own(v)
        elif isinstance(d, list):
            for x in d:
                walk_own(x)
    walk_own(cls["fields"])
    return cls


def poke_kw(rng, cls, kw):
    """instances inside the regions where schema and runtime are known to differ: a bool in a numeric
    field, None for a defaulted field"""
    out = []
    fd = dict((n, f) for n, f in cls["fields"])
    for i, (n, v) in enumerate(kw):
        k = fd.get(n, {}).get("k")
        if k in ("integer", "number") and rng.random() < 0.5:
            out.append([[a, (rng.choice([True, False]) if j == i else b)] for j, (a, b) in enumerate(kw)])
            break
    dnames = [n for n, _ in cls.get("defaults", [])]
    if dnames and cls.get("ignoreNone") and rng.random() < 0.7:
        n = rng.choice(dnames)
        out.append([[a, b] for a, b in kw if a != n] + [[n, None]])
    return out


def boundary_docs(rng, cls, vg, doc):
    """documents near the schema's boundary: each bound of each top-level field +-1 (ValGen.boundary),
    missing / extra keys, wrong types, single-point corruptions"""
    out = []
    fields = dict((n, f) for n, f in cls["fields"])
    kvs = doc["m"]
    for i, (k, v) in enumerate(kvs):
        fd = fields.get(k)
        if fd is None:
            continue
        cands = list(vg.boundary(fd))
        rng.shuffle(cands)
        for b in cands[:6]:
            out.append({"m": [[a, (S.to_doc(fd, b) if j == i else x)] for j, (a, x) in enumerate(kvs)]})
        out.append({"m": [kv for j, kv in enumerate(kvs) if j != i]})            # missing key
        for wrong in rng.sample(S.JSON_CONFUSION, 3):
            out.append({"m": [[a, (wrong if j == i else x)] for j, (a, x) in enumerate(kvs)]})
    out.append({"m": kvs + [["zz_extra", rng.choice([1, "x", None])]]})
    for _ in range(3):
        out.append(S.corrupt_doc(rng, doc))
    res, seen = [], set()
    for d in out:
        d = S.dedupe_doc(d)
        key = json.dumps(d, sort_keys=True)
        if key not in seen:
            seen.add(key)
            res.append(d)
    return res[:24]


def base_doc(case):
    """the document the boundary documents of the case were derived from (see gen_cases)"""
    if not case.get("kws"):
        return None
    fd = dict((n, f) for n, f in case["cls"]["fields"])
    return {"m": [[k, S.to_doc(fd.get(k), v)] for k, v in case["kws"][0] if v is not None]}


def changed_keys(base, doc):
    """top-level keys whose value differs between the base document and a boundary document"""
    if not (isinstance(doc, dict) and "m" in doc):
        return None
    a = {json.dumps(k): v for k, v in base["m"]}
    b = {json.dumps(k): v for k, v in doc["m"]}
    return sorted(json.loads(k) for k in set(a) | set(b)
                  if json.dumps(a.get(k, "<absent>"), sort_keys=True) != json.dumps(b.get(k, "<absent>"), sort_keys=True))


def inline_of(fd):
    """the inline StructureReference a field serializes through with its `<field>._mapper` (directly, or
    as the element of an Array / Set / Tuple)"""
    if fd.get("k") == "struct" and fd.get("inline"):
        return fd
    if fd.get("k") in ("seqOf", "setOf", "tupleOf") and isinstance(fd.get("item"), dict):
        return inline_of(fd["item"])
    return None


def struct_of(fd):
    """the nested structure (inline or class reference) a `<field>._mapper` entry applies to"""
    if fd.get("k") == "struct":
        return fd
    if fd.get("k") in ("seqOf", "setOf", "tupleOf") and isinstance(fd.get("item"), dict):
        return struct_of(fd["item"])
    return None


def structs_of(fd):
    """the nested structures (inline or class references) one `<field>._mapper` entry is handed down to: the
    field itself, the elements of an Array / Set / Tuple (homogeneous or positional), arrays of arrays"""
    k = fd.get("k")
    if k == "struct":
        return [fd]
    if k in ("seqOf", "setOf", "tupleOf") and isinstance(fd.get("item"), dict):
        return structs_of(fd["item"])
    if k in ("seqPos", "tuplePos"):
        return [st for x in fd["items"] for st in structs_of(x)]
    return []


def all_class_refs(d, acc):
    """every nested Structure class (non-inline) of a declaration, by name"""
    if isinstance(d, list):
        for x in d:
            all_class_refs(x, acc)
    elif isinstance(d, dict):
        if d.get("k") == "struct" and not d.get("inline"):
            acc.setdefault(d["name"], d)
        for k, v in d.items():
            if k not in ("values", "defaults"):
                all_class_refs(v, acc)
    return acc


def inject_shapes(rng, dg, cls):
    """the sites through which a serialization mapper is handed down (or not): a nested class / an inline
    structure with multi-word keys as Tuple element, in an Array of Arrays, as positional Array item, as Map
    value, as Array element, inside an inline structure"""
    def ref():
        fields = [["in_a", {"k": "integer"}], ["b_b", {"k": "string"}], ["c", {"k": "boolean"}]][:rng.randint(2, 3)]
        return {"k": "struct", "name": dg.fresh("Cls"), "addl": rng.random() < 0.5,
                "required": sorted(n for n, _ in fields if rng.random() < 0.8), "fields": fields}

    def inl():
        d = ref()
        d["name"] = dg.fresh("Inl")
        d["inline"] = True
        return d
    free = [n for n in ["p_q", "r_s", "t_u"] if n not in [x for x, _ in cls["fields"]]]
    for name in free[:rng.choice([1, 1, 2])]:
        st = ref() if rng.random() < 0.55 else inl()
        shape = rng.choice(["tupleOf", "tuplePos", "seqseq", "seqPos", "seqPos", "mapOf", "seqOf", "direct", "inInline"])
        if shape == "tupleOf":
            fd = {"k": "tupleOf", "item": st}
        elif shape == "tuplePos":
            fd = {"k": "tuplePos", "items": [st, {"k": "integer"}]}
        elif shape == "seqseq":
            fd = {"k": "seqOf", "item": {"k": "seqOf", "item": st}}
        elif shape == "seqPos":
            fd = {"k": "seqPos", "items": [st, {"k": "string"}] if rng.random() < 0.5 else [{"k": "integer"}, st]}
            if rng.random() < 0.5:
                fd["addl"] = False
        elif shape == "mapOf":
            fd = {"k": "mapOf", "key": {"k": "string"}, "val": st}
        elif shape == "seqOf":
            fd = {"k": "seqOf", "item": st}
        elif shape == "direct":
            fd = st
        else:
            inner = rng.choice([{"k": "tupleOf", "item": st}, {"k": "seqPos", "items": [st, {"k": "integer"}]},
                                {"k": "seqOf", "item": {"k": "seqOf", "item": st}}, st])
            fd = {"k": "struct", "name": dg.fresh("Inl"), "inline": True, "addl": True, "required": ["w_w"],
                  "fields": [["w_w", inner], ["z", {"k": "integer"}]]}
        cls["fields"].append([name, fd])
        if rng.random() < 0.6:
            cls["required"] = sorted(cls["required"] + [name])


def inject_inline(rng, dg, cls):
    """make sure the key-renaming stream regularly meets an inline nested structure (directly and as
    array element) whose own key and nested keys can both be renamed"""
    if any(inline_of(fd) for _, fd in cls["fields"]) or rng.random() < 0.35:
        return
    free = [n for n in ["g_g", "h_7x", "in_l"] if n not in [x for x, _ in cls["fields"]]]
    if not free:
        return
    inner_fields = [["in_a", {"k": "integer"}], ["b_b", {"k": "string"}], ["c", {"k": "boolean"}]][:rng.randint(2, 3)]
    names = [n for n, _ in inner_fields]
    inl = {"k": "struct", "name": dg.fresh("Inl"), "inline": True, "addl": rng.random() < 0.5,
           "required": sorted(n for n in names if rng.random() < 0.7), "fields": inner_fields}
    if rng.random() < 0.3:
        # one more level
        inl["fields"].append(["d_d", {"k": "struct", "name": dg.fresh("Inl"), "inline": True, "addl": True,
                                      "required": ["x_y"], "fields": [["x_y", {"k": "integer"}]]}])
    cls["fields"].append([free[0], inl if rng.random() < 0.6 else {"k": "seqOf", "item": inl}])
    if rng.random() < 0.6:
        cls["required"] = sorted(cls["required"] + [free[0]])


def _rename(rng, n):
    return rng.choice(["X_" + n.upper(), n + "Key", n.title().replace("_", ""), "k." + n if rng.random() < 0.05 else n[::-1] + "Z"])


def gen_dict_mapper(rng, fields, depth=0):
    names = [n for n, _ in fields]
    chosen = [n for n in names if rng.random() < 0.6] or names[:1]
    m = {n: _rename(rng, n) for n in chosen}
    for n, fd in fields:
        sts = structs_of(fd)
        if sts and rng.random() < (0.85 if any(st.get("inline") for st in sts) else 0.5) and depth < 2:
            merged = {}
            for st in sts:
                for fn, ff in st["fields"]:
                    merged.setdefault(fn, ff)
            m[n + "._mapper"] = gen_dict_mapper(rng, list(merged.items()), depth + 1)
    return m


def gen_mapper(rng, cls):
    style = rng.choice(["dict", "dict", "dict", "camel", "upper"])
    if style == "dict":
        return {"style": "dict", "d": gen_dict_mapper(rng, cls["fields"])}
    return {"style": style}


def py_mapper(m):
    from typedpy import mappers
    if m["style"] == "camel":
        return mappers.TO_CAMELCASE
    if m["style"] == "upper":
        return mappers.TO_LOWERCASE
    return json.loads(json.dumps(m["d"]))


# ------------------------------------------------------------------ inheritance (declarations flattened by the MRO)

HIER_SHAPES = ["chain", "chain3", "two-bases", "diamond", "diamond", "diamond", "diamond+1"]


def gen_hierarchy(rng, dg, ci):
    """a class hierarchy built with type(): chains, several bases, diamonds; a field can be re-declared with
    other constraints at any class (in particular at the second base of a diamond only)"""
    shape = rng.choice(HIER_SHAPES)
    pre = f"H{ci}"
    kinds = ["integer", "number", "float", "string", "integer", "string"]
    pool = ["a", "b", "c", "d", "e1", "f_2"]
    n_root = rng.randint(2, 3)
    root_names = rng.sample(pool, n_root)
    kind_of = {n: rng.choice(kinds) for n in pool}
    root = {"name": pre + "R", "bases": [], "fields": [[n, dg.scalar(kind_of[n])] for n in root_names],
            "required": sorted(n for n in root_names if rng.random() < 0.6), "addl": rng.random() < 0.5}
    classes = [root]

    def sub(name, bases, redeclare_p):
        fields = []
        inherited = [n for n in pool if any(n in [x for x, _ in classes[i]["fields"]] for i in closure(bases))]
        for n in inherited:
            if rng.random() < redeclare_p:
                fields.append([n, dg.scalar(kind_of[n])])
        fresh = [n for n in pool if n not in inherited]
        if fresh and rng.random() < 0.6:
            n = rng.choice(fresh)
            fields.append([n, dg.scalar(kind_of[n])])
        classes.append({"name": name, "bases": bases, "fields": fields})
        return len(classes) - 1

    def closure(bases):
        out, todo = set(), list(bases)
        while todo:
            i = todo.pop()
            if i not in out:
                out.add(i)
                todo += classes[i]["bases"]
        return out
    if shape == "chain":
        sub(pre + "C", [0], 0.5)
    elif shape == "chain3":
        m = sub(pre + "M", [0], 0.4)
        sub(pre + "C", [m], 0.4)
    elif shape == "two-bases":
        other_names = [n for n in pool if n not in root_names][:2]
        classes.append({"name": pre + "O", "bases": [], "fields": [[n, dg.scalar(kind_of[n])] for n in other_names],
                        "required": []})
        sub(pre + "C", [0, 1], 0.3)
    else:
        a = sub(pre + "A", [0], 0.25)          # first base: rarely re-declares
        b = sub(pre + "B", [0], 0.7)           # second base: often the only one that re-declares
        c = sub(pre + "C", [a, b], 0.15)
        if shape == "diamond+1":
            sub(pre + "D", [c], 0.2)
    return {"shape": shape, "classes": classes}


def flatten_hierarchy(h):
    """the declaration of the most derived class as Python resolves it: every field name to the first class of
    the MRO that declares it (computed with plain Python classes, independent of typedpy)"""
    classes = h["classes"]
    dummies = []
    for c in classes:
        dummies.append(type(c["name"], tuple(dummies[i] for i in c["bases"]) or (object,), {}))
    mro = [dummies.index(d) for d in dummies[-1].mro() if d in dummies]
    fields, shadows = {}, {}
    for idx in reversed(mro):
        for n, fd in classes[idx]["fields"]:
            if n in fields:
                shadows.setdefault(n, []).append(fields[n])
            fields[n] = fd
    required = set()
    for idx in mro:
        c = classes[idx]
        required |= set(c["required"]) if "required" in c else {n for n, _ in c["fields"]}
    addl = next((classes[i]["addl"] for i in mro if "addl" in classes[i]), True)
    decl = {"k": "struct", "name": classes[-1]["name"], "required": sorted(required), "addl": addl,
            "fields": [[n, fd] for n, fd in fields.items()]}
    return decl, shadows


def disagreeing_value(vg, eff, shadows):
    """a value the MRO-resolved field accepts and a shadowed declaration of the same name rejects"""
    k = eff["k"]
    if k in ("integer", "number", "float"):
        cands = [x for x in vg.num_candidates(eff) + [y for sh in shadows for y in vg.num_candidates(sh)]
                 if vg.guess_num_ok(eff, x) and any(not vg.guess_num_ok(sh, x) for sh in shadows if sh["k"] == k)]
        vg.rng.shuffle(cands)
        for x in cands:
            w = vg.wire_num(k, x)
            if w is not None:
                return w
    if k == "string":
        pool = [s for s in gen.STRINGS + ["ac", "abc", "xa", "bz", "abz", "xz", "abcdef"]
                if vg.guess_str_ok(eff, s) and any(sh["k"] == "string" and not vg.guess_str_ok(sh, s) for sh in shadows)]
        if pool:
            return vg.rng.choice(pool)
    return gen.NOVALUE


def hierarchy_case(rng, dg, vg, ci):
    h = gen_hierarchy(rng, dg, ci)
    flat, shadows = flatten_hierarchy(h)
    C.fix_accepts(flat)
    kws = []
    for _ in range(5):
        kw = vg.valid_kw(flat)
        if kw is gen.NOVALUE:
            continue
        kw = [kv for kv in kw if not kv[0].startswith("extra_")]
        for n, fd in flat["fields"]:       # every field: which ones the hierarchy ends up requiring is typedpy's rule
            if n not in [k for k, _ in kw]:
                v = vg.valid(fd)
                if v is not gen.NOVALUE:
                    kw.append([n, v])
        # steer towards values on which the resolved and a shadowed declaration of a field disagree
        for n, shs in shadows.items():
            fd = dict((x, f) for x, f in flat["fields"])[n]
            v = disagreeing_value(vg, fd, shs)
            if v is not gen.NOVALUE and rng.random() < 0.8:
                kw = [kv for kv in kw if kv[0] != n] + [[n, v]]
        kws.append(kw)
    cls = flat
    if rng.random() < 0.4 and kws:
        # a class that nests the most derived class (by reference, and as array element)
        cls = {"k": "struct", "name": f"H{ci}Outer", "required": ["n"], "addl": True,
               "fields": [["n", flat], ["arr", {"k": "seqOf", "item": copy.deepcopy(flat)}], ["k", {"k": "integer"}]]}
        C.fix_accepts(cls)
        kws = [[["n", {"o": [flat["name"], kw]}], ["arr", {"l": [{"o": [flat["name"], kw2]} for kw2 in kws[:2]]}]] for kw in kws]
    return {"suite": "schema", "cls": cls, "kws": kws, "bdocs": [], "bkeys": [], "hier": h,
            "re": gen.re_table(cls, kws), "enum_kinds": {}, "history": []}


def build_hierarchy(h, ctx):
    from typedpy import Structure
    built = []
    for c in h["classes"]:
        body = {n: dump.build_field(fd, ctx) for n, fd in c["fields"]}
        if "required" in c:
            body["_required"] = list(c["required"])
        if "addl" in c:
            body["_additional_properties"] = bool(c["addl"])
        built.append(type(c["name"], tuple(built[i] for i in c["bases"]) or (Structure,), body))
        ctx.classes[c["name"]] = built[-1]
    return built[-1]


def gen_cases(rng, tier, n_classes):
    cases = []
    for ci in range(n_classes):
        allow = list(MAPPABLE) + (RAISING if rng.random() < 0.08 else [])
        r = rng.random()
        if r < 0.3:      # the core of the proved fragment more often
            allow = ["integer", "number", "float", "string", "boolean", "enumLit", "enumCls", "seqOf", "seqPos",
                     "setOf", "tupleOf", "tuplePos", "mapOf", "struct", "inline", "anyOf"]
        dg = gen.DeclGen(rng, max_depth=rng.choice([1, 2, 2, 3] if tier == "quick" else [1, 2, 3, 4]), allow=allow)
        vg = gen.ValGen(rng)
        if rng.random() < 0.12:
            cases.append(hierarchy_case(rng, dg, vg, ci))
            continue
        cls = dg.class_decl(0, n_fields=rng.choice([1, 2, 2, 3, 4]))
        cls["name"] = f"K{ci}"
        if rng.random() < 0.15:
            cls["required"] = sorted(n for n, _ in cls["fields"])     # never `required: []`
        tweak_decl(rng, cls, vg)
        mapper_stream = rng.random() < 0.15 and not cls.get("collide")
        if mapper_stream:
            inject_inline(rng, dg, cls)
            inject_shapes(rng, dg, cls)
        C.fix_accepts(cls)
        kws = []
        for _ in range(3):
            kw = vg.valid_kw(cls)
            if kw is not gen.NOVALUE:
                kws.append(kw)
        for kw in list(kws)[:2]:
            kws += poke_kw(rng, cls, kw)
        bdocs = []
        if kws:
            fd = dict((n, f) for n, f in cls["fields"])
            doc = {"m": [[k, S.to_doc(fd.get(k), v)] for k, v in kws[0] if v is not None]}
            bdocs = boundary_docs(rng, cls, vg, doc)
            bkeys = [changed_keys(doc, d) for d in bdocs]
        else:
            bkeys = []
        case = {"suite": "schema", "cls": cls, "kws": kws, "bdocs": bdocs, "bkeys": bkeys,
                "re": gen.re_table(cls, kws, bdocs)}
        # enum classes that are also int / str / float; earlier exports in the same process
        case["enum_kinds"] = {n: rng.choice(["plain", "plain", "int", "flag", "str", "float"]) for n in sorted(gen.ENUMS)}
        r = rng.random()
        case["history"] = [] if r < 0.5 else ["self"] if r < 0.75 else ["sibling"] if r < 0.9 else ["self", "sibling", "self"]
        # oracle-only stream: a key-renaming serialization mapper (not in the Lean model)
        wrapper = len(cls["fields"]) == 1 and set(cls["required"]) == {cls["fields"][0][0]} and cls.get("addl", True) is False
        if mapper_stream and not wrapper:
            if rng.random() < 0.7:
                case["mapper"] = gen_mapper(rng, cls)
            # nested Structure classes with a key-renaming mapper of their own
            own = {}
            for name, st in sorted(all_class_refs(cls["fields"], {}).items()):
                if rng.random() < 0.6:
                    own[name] = gen_mapper(rng, st)
            if own:
                case["own_mappers"] = own
            if case.get("mapper") or own:
                case["bdocs"], case["bkeys"] = [], []
        cases.append(case)
    return cases


# ------------------------------------------------------------------ real code

def _first_error(validator, doc):
    errs = list(validator.iter_errors(doc))
    if not errs:
        return None
    top = sorted(errs, key=lambda e: (len(e.absolute_path), str(e.validator), e.message))[0]
    e = top
    out = _err_dict(e)
    # under a combinator: the most specific reason of every branch (if they all agree, that is the phenomenon)
    if e.context:
        branches = {}
        for c in e.context:
            b = c.relative_schema_path[0] if c.relative_schema_path else 0
            branches.setdefault(b, []).append(c)
        out["branches"] = [_err_dict(_deepest(sorted(cs, key=lambda c: (-len(c.absolute_path), str(c.validator), c.message))[0]))
                           for _, cs in sorted(branches.items(), key=lambda kv: str(kv[0]))]
    return out


DEF_NODE_IDS = set()     # ids of the schema nodes under `definitions` of the schema being judged


def _mark_definitions(node):
    if isinstance(node, dict):
        DEF_NODE_IDS.add(id(node))
        for v in node.values():
            _mark_definitions(v)
    elif isinstance(node, list):
        for v in node:
            _mark_definitions(v)


def _err_dict(e):
    return {"validator": str(e.validator), "value": _js(e.validator_value), "instance": _js(e.instance),
            "path": [str(p) for p in e.absolute_path], "schema": _js(e.schema), "msg": e.message[:200],
            "in_ref": id(e.schema) in DEF_NODE_IDS}


def _deepest(e):
    """descend into the sub-errors of anyOf / oneOf of the meta-schema (deterministically)"""
    while e.context:
        subs = sorted(e.context, key=lambda c: (-len(c.absolute_path), [str(p) for p in c.absolute_path], str(c.validator), c.message))
        e = subs[0]
    return e


def _js(x):
    try:
        json.dumps(x)
        return x
    except Exception:
        return repr(x)[:200]


def wf_error_key(err):
    """stable name of an ill-formedness: the schema keyword under which the meta-schema fails"""
    if err.validator == "dependencies":
        m = re.search(r"is a dependency of '(\w+)'", err.message)
        return f"{m.group(1) if m else 'dependencies'}:dependencies"
    path = list(err.absolute_path)
    last = "root"
    i = 0
    while i < len(path):
        k = path[i]
        if not isinstance(k, str):
            i += 1
            continue
        last = k
        if k in ("properties", "patternProperties", "definitions"):
            i += 2        # skip the member name; a schema follows
            continue
        if k in ("items", "allOf", "anyOf", "oneOf", "not", "additionalProperties", "additionalItems"):
            i += 1
            continue
        break
    return f"{last}:{err.validator}"


def make_ctx(kinds):
    """the enum classes of the case: plain Enum, or IntEnum / IntFlag / str- / float-mixin classes
    (members that are also ints / strs / floats; by-name serialization and export must not change)"""
    import enum as pyenum
    ctx = C.make_ctx()
    for name, kind in (kinds or {}).items():
        members = gen.ENUMS[name]
        if kind == "int":
            ctx.enums[name] = pyenum.IntEnum(name, {m: i + 1 for i, m in enumerate(members)})
        elif kind == "flag":
            ctx.enums[name] = pyenum.IntFlag(name, {m: 2 ** i for i, m in enumerate(members)})
        elif kind == "str":
            ctx.enums[name] = pyenum.Enum(name, {m: "v_" + m.lower() for m in members}, type=str)
        elif kind == "float":
            ctx.enums[name] = pyenum.Enum(name, {m: i + 0.5 for i, m in enumerate(members)}, type=float)
    return ctx


def export(cls, ctx, history):
    """`structure_to_schema(cls, {})` after a history of earlier exports in the same process, each with a
    fresh definitions dict as documented: the class itself, or another top-level class that shares its
    nested classes"""
    for op in history or []:
        try:
            if op == "self":
                structure_to_schema(cls, {})
            elif op == "sibling":
                body = {f"s_{n}": dump.ClassReference(f._ty) for n, f in cls.get_all_fields_by_name().items()
                        if isinstance(f, dump.ClassReference)}
                if body:
                    structure_to_schema(type("Sibling", (dump.Structure,), body), {})
        except Exception:
            pass
    return structure_to_schema(cls, {})


def run_impl(case):
    ctx = make_ctx(case.get("enum_kinds"))
    decl = {k: v for k, v in case["cls"].items() if k != "collide"}
    mismatch = None
    try:
        if case.get("hier"):
            top = build_hierarchy(case["hier"], ctx)      # registered by name: a nesting class refers to it
            cls = top if decl["name"] == top.__name__ else dump.build_class(decl, ctx)
        else:
            cls = dump.build_class(decl, ctx)
    except Exception as e:
        return {"unbuildable": f"class: {type(e).__name__}: {e}"}
    back = dump.normalize_decl(dump.dump_class(cls, ctx))
    if case.get("hier"):
        # how `_required` merges over a hierarchy is not part of this check: take it from the class
        def adopt(want, got):
            if isinstance(want, dict) and isinstance(got, dict):
                if want.get("k") == "struct" and got.get("k") == "struct" and want.get("name") == got.get("name"):
                    want["required"] = got.get("required", want.get("required"))
                for k in want:
                    if k in got:
                        adopt(want[k], got[k])
            elif isinstance(want, list) and isinstance(got, list) and len(want) == len(got):
                for a, b in zip(want, got):
                    adopt(a, b)
        want = dump.normalize_decl(decl)
        adopt(want, back)
        decl_n = want
    else:
        decl_n = dump.normalize_decl(decl)
    if back != decl_n:
        mismatch = {"dumped": back, "declared": decl_n}
        if not case.get("hier"):
            return {"abstraction_mismatch": mismatch}
    if case["cls"].get("collide"):
        old, new = case["cls"]["collide"]
        if old in ctx.classes:
            ctx.classes[old].__name__ = new
    res = {"cls_actual": C.fix_accepts(dump.dump_class(cls, ctx, order="definition"))}
    if mismatch:
        # the hierarchy does not flatten to what Python's MRO says: reported as a disagreement; the oracle goes on
        res["flattening_mismatch"] = mismatch
    for name, m in (case.get("own_mappers") or {}).items():
        if name in ctx.classes:      # before the class is serialized or exported for the first time
            setattr(ctx.classes[name], "_serialization_mapper", py_mapper(m))
    if case.get("mapper"):
        cls = type(cls.__name__, (cls,), {"_serialization_mapper": py_mapper(case["mapper"])})
    names = [n for n, _ in decl["fields"]]
    collapsed = len(names) == 1 and set(decl["required"]) == set(names) and decl.get("addl", True) is False
    res["collapsed"] = collapsed
    try:
        schema, defs = export(cls, ctx, case.get("history"))
        res["schema"] = dump.dump_value(schema, ctx)
        res["defs"] = dump.dump_value(defs, ctx)
    except Exception as e:
        res["schema_err"] = {"err": type(e).__name__, "msg": str(e)[:200]}
        schema = defs = None
    validator = None
    not_json = None
    if schema is not None:
        try:
            json.dumps([schema, defs])
        except Exception as e:
            not_json = str(e)[:200]
    if not_json:
        res.update(wf=False, refs_ok=True, bad_refs=[],
                   wf_err={"key": "default:not-json", "msg": "the returned schema is not JSON: " + not_json, "path": []})
        pats = set()
    elif schema is not None:
        full = dialect_fix(schema) if isinstance(schema, dict) else schema
        fdefs = {n: dialect_fix(s) for n, s in defs.items()}
        if isinstance(full, dict):
            full = dict(full)
            full["definitions"] = fdefs
        try:
            Draft4Validator.check_schema(full)
            res["wf"] = True
        except jsonschema.SchemaError:
            res["wf"] = False
            meta = Draft4Validator(Draft4Validator.META_SCHEMA)
            e = _deepest(sorted(meta.iter_errors(full), key=lambda e: ([str(p) for p in e.absolute_path], e.message))[0])
            res["wf_err"] = {"key": wf_error_key(e), "msg": e.message[:200], "path": [str(p) for p in e.absolute_path]}
        except Exception as e:       # the meta-schema validator itself gave up on the value
            res["wf"] = False
            res["wf_err"] = {"key": f"crash:{type(e).__name__}", "msg": str(e)[:200], "path": []}
        refs = all_refs(full, []) if isinstance(full, dict) else []
        bad = [r for r in refs if not (isinstance(r, str) and r.startswith("#/definitions/")
                                       and r[len("#/definitions/"):] in fdefs)]
        res["refs_ok"] = not bad
        res["bad_refs"] = bad[:5]
        if res["wf"] and res["refs_ok"]:
            validator = Draft4Validator(full)
            DEF_NODE_IDS.clear()
            _mark_definitions(full.get("definitions") if isinstance(full, dict) else None)
        pats = schema_patterns(full, set()) if isinstance(full, dict) else set()
    else:
        pats = set()
    strings = set()
    # instances
    insts = []
    for kwj in case["kws"]:
        try:
            kw = {k: dump.load_value(v, ctx) for k, v in kwj}
            x = cls(**kw)
        except Exception as e:
            insts.append({"unbuildable": f"{type(e).__name__}: {e}"[:200]})
            continue
        r = {"x": C.rename_inline(dump.dump_value(x, ctx), ctx)}
        try:
            doc = Serializer(x).serialize(compact=True) if collapsed else Serializer(x).serialize()
            try:
                json.dumps(doc)
            except Exception as e:          # not pure JSON: C05's business
                r["ser_notjson"] = str(e)[:200]
                insts.append(r)
                continue
            # the document is the JSON text: object keys are strings, a member of an IntEnum is written as its int
            raw = C.rename_inline(dump.dump_value(doc, ctx), ctx)
            doc = json.loads(json.dumps(doc))
            r["doc"] = C.rename_inline(dump.dump_value(doc, ctx), ctx)
            if raw != r["doc"]:
                r["doc_raw"] = raw
            doc_strings(doc, strings)
            if validator is not None:
                try:
                    err = _first_error(validator, doc)
                    r["valid"] = err is None
                    if err:
                        r["error"] = err
                except Exception as e:
                    r["valid_crash"] = f"{type(e).__name__}: {e}"[:200]
        except Exception as e:
            r["ser_err"] = {"err": C.err_name(e), "msg": str(e)[:200]}
        insts.append(r)
    res["insts"] = insts
    # boundary documents
    bres = []
    for dj in case["bdocs"]:
        r = {}
        try:
            doc = dump.load_value(dj, ctx)
        except TypeError as e:
            bres.append({"unbuildable": str(e)})
            continue
        doc_strings(doc, strings)
        if validator is not None:
            try:
                r["valid"] = validator.is_valid(doc)
            except Exception as e:
                r["valid_crash"] = f"{type(e).__name__}: {e}"[:200]
        try:
            Deserializer(cls).deserialize(copy.deepcopy(doc))
            r["deser"] = {"ok": True}
        except Exception as e:
            r["deser"] = {"err": C.err_name(e), "msg": str(e)[:1500]}
        bres.append(r)
    res["bdocs"] = bres
    # the document every boundary document is a variation of (the JSON image of the first instance): if the
    # Deserializer rejects it, the rejection of a variation says nothing about the varied field
    bj = base_doc(case)
    if bj is not None and case["bdocs"]:
        try:
            bdoc = dump.load_value(bj, ctx)
            r = {}
            if validator is not None:
                try:
                    r["valid"] = validator.is_valid(bdoc)
                except Exception as e:
                    r["valid_crash"] = f"{type(e).__name__}: {e}"[:200]
            try:
                Deserializer(cls).deserialize(copy.deepcopy(bdoc))
                r["deser"] = {"ok": True}
            except Exception as e:
                r["deser"] = {"err": C.err_name(e), "msg": str(e)[:1500]}
            res["base"] = r
        except TypeError:
            pass
    res["search"] = [[p, s, _search(p, s)] for p in sorted(pats) for s in sorted(strings)]
    return res


def _json_doc(w):
    """wire value of a JSON document: every object key is a string, at every level (Sch.jsonDoc)"""
    if isinstance(w, dict):
        if "m" in w:
            return all(isinstance(k, str) and _json_doc(v) for k, v in w["m"])
        if "l" in w:
            return all(_json_doc(x) for x in w["l"])
        return "f" in w
    return w is None or isinstance(w, (bool, int, str))


def _match(p, s):
    try:
        return re.match(p, s) is not None
    except re.error:
        return False


def _search(p, s):
    try:
        return re.search(p, s) is not None
    except re.error:
        return False


def line(case, impl):
    l = {"suite": "schema", "cls": impl.get("cls_actual", case["cls"]), "re": case.get("re", []),
         "search": impl.get("search", [])}
    km = key_map(case)
    if km is not None:
        l["km"] = km
    if "schema" in impl:
        l["implSchema"] = impl["schema"]
        l["implDefs"] = impl["defs"]
    insts = []
    for r in impl.get("insts", []):
        if "x" in r:
            e = {"x": r["x"]}
            if "doc" in r:
                e["doc"] = r["doc"]
            insts.append(e)
    l["insts"] = insts
    l["bdocs"] = [d for d, r in zip(case["bdocs"], impl.get("bdocs", [])) if "unbuildable" not in r]
    return l


# ------------------------------------------------------------------ statement-level predicates (scope of the oracle)

def stmt_exact(d, top=True):
    """the statement's exact sub-fragment: no Set, no defaults, start-anchored patterns, no sign-only float
    bounds (date/time formats are not generated)"""
    if isinstance(d, list):
        return all(stmt_exact(x, False) for x in d)
    if not isinstance(d, dict):
        return True
    k = d.get("k")
    if k in ("setOf", "setAny"):
        return False
    if k == "struct" and d.get("defaults"):
        return False
    if k == "string" and d.get("pattern") is not None and not d["pattern"].startswith("^"):
        return False
    if k in ("number", "float") and d.get("sign", "any") != "any":
        return False
    if k in ("anything", "noneF"):
        return False
    return all(stmt_exact(v, False) for kk, v in d.items() if kk not in ("values", "defaults"))


FEATURE_PRIORITY = ["positional-shorter", "map-key-constraint", "oneOf", "notF", "allOf",
                    "sign-with-explicit-bound", "unique-by-python-eq", "enum-null"]


def inexact_features(d, acc):
    """declaration features for which the emitted schema is known to admit more than the runtime"""
    if isinstance(d, list):
        for x in d:
            inexact_features(x, acc)
    elif isinstance(d, dict):
        k = d.get("k")
        if k in ("tuplePos", "seqPos"):
            acc.add("positional-shorter")
        if k == "tupleOf":
            pass
        if k == "mapOf" and d["key"].get("k") == "string" and (d["key"].get("pattern") or d["key"].get("minLength")
                                                                or d["key"].get("maxLength")):
            acc.add("map-key-constraint")
        if k in ("oneOf", "notF", "allOf"):
            acc.add(k)
        if k == "enumLit" and any(v is None for v in d.get("values", [])):
            acc.add("enum-null")        # null is an enum member for the schema and an absent key for the runtime
        if k in ("integer", "number", "float") and d.get("sign", "any") != "any":
            if (d["sign"] in ("pos", "nonneg") and d.get("min") is not None) or \
                    (d["sign"] in ("neg", "nonpos") and d.get("max") is not None):
                acc.add("sign-with-explicit-bound")
        if k in ("seqOf", "seqPos", "seqAny", "tupleOf", "tuplePos") and d.get("uniq"):
            acc.add("unique-by-python-eq")
        if k == "anyOf" and len(d["fields"]) == 2 and d["fields"][1].get("k") == "noneF":
            pass
        if k == "struct" and d.get("inline") and d.get("ignoreNone") is None:
            pass
        for kk, v in d.items():
            if kk not in ("values", "defaults"):
                inexact_features(v, acc)
    return acc


def _norm_key(k):
    return str(k).replace("_", "").lower()


def _rename_pairs(m, acc):
    """every (name, key) pair a dict mapper (with its `._mapper` entries) writes"""
    if isinstance(m, dict):
        if "style" in m:                       # the case's wrapper {"style": ..., "d": {...}}; a converter has no "d"
            m = m.get("d") if isinstance(m.get("d"), dict) else {}
        for k, v in m.items():
            if isinstance(v, str):
                acc.add((k, v))
            elif isinstance(v, dict):
                _rename_pairs(v, acc)
    return acc


def _key_is(p, k, renames=()):
    """document key `p` can be attribute `k`: unchanged, case-converted (camelCase / UPPER), or renamed by a mapper"""
    return p == k or _norm_key(p) == _norm_key(k) or (k, p) in renames


def _node_at(inst, path, renames=()):
    """the instance node a document path leads to (None when the path cannot be followed)"""
    node = inst
    for p in path:
        if isinstance(node, dict) and "o" in node:
            nxt = [v for k, v in node["o"][1] if k == p] or [v for k, v in node["o"][1] if _key_is(p, k, renames)]
            if not nxt:
                return None
            node = nxt[0]
        elif isinstance(node, dict) and any(t in node for t in ("l", "t", "q")):
            xs = node.get("l") or node.get("t") or node.get("q")
            if not p.isdigit() or int(p) >= len(xs):
                return None
            node = xs[int(p)]
        elif isinstance(node, dict) and "m" in node:
            nxt = [v for k, v in node["m"] if k == p]
            if not nxt:
                return None
            node = nxt[0]
        else:
            return None
    return node


def _set_attr_names(inst, acc):
    if isinstance(inst, dict):
        if "o" in inst:
            for k, v in inst["o"][1]:
                if v is not None:
                    acc.add(k)
                _set_attr_names(v, acc)
        else:
            for v in inst.values():
                _set_attr_names(v, acc)
    elif isinstance(inst, list):
        for v in inst:
            _set_attr_names(v, acc)
    return acc


def holds_value(inst, path, name, renamed=False, wrapper=False, renames=()):
    """does the instance hold a non-None value for the attribute the schema reports as missing?
    (then the missing member is not the `None is dropped` phenomenon)"""
    if inst is None or name is None:
        return False
    if wrapper and isinstance(inst, dict) and "o" in inst and len(inst["o"][1]) == 1:
        inst = inst["o"][1][0][1]          # compact serialization: the document is the only field's value
    node = _node_at(inst, path, renames if renamed else ())
    if isinstance(node, dict) and "o" in node:
        return any((k == name or (renamed and _key_is(name, k, renames))) and v is not None for k, v in node["o"][1])
    if node is not None:
        return False
    # keys renamed by a mapper in a way the path cannot be followed with: look for the attribute anywhere
    return renamed and name in _set_attr_names(inst, set())


def has_class_ref(d):
    if isinstance(d, list):
        return any(has_class_ref(x) for x in d)
    if isinstance(d, dict):
        if d.get("k") == "struct" and not d.get("inline"):
            return True
        return any(has_class_ref(v) for k, v in d.items() if k not in ("values", "defaults"))
    return False


def mapped_key(name, mapper):
    """the document key of a top-level field under the case's serialization mapper"""
    if not mapper:
        return name
    if mapper.get("style") == "upper":
        return name.upper()
    if mapper.get("style") == "camel":
        words = name.split("_")
        return words[0] + "".join(w.title() for w in words[1:])
    v = (mapper.get("d") or {}).get(name, name)
    return v if isinstance(v, str) else name


def ref_sites(fd, prefix=""):
    """where the class references of a field sit: the chain of container kinds from the field down to each
    nested Structure class (`direct`, `seqOf`, `seqPos`, `tupleOf`, `seqOf/seqOf`, `inline/tuplePos`, ...)"""
    k = fd.get("k")
    out = set()
    if k == "struct":
        if not fd.get("inline"):
            return {prefix + "direct" if prefix == "" or prefix.endswith("inline/") else prefix.rstrip("/")}
        for _, f in fd["fields"]:
            out |= ref_sites(f, prefix + "inline/")
    elif k in ("seqOf", "setOf", "tupleOf"):
        out |= ref_sites(fd["item"], prefix + k + "/")
    elif k in ("seqPos", "tuplePos"):
        for x in fd["items"]:
            out |= ref_sites(x, prefix + k + "/")
    elif k == "mapOf":
        out |= ref_sites(fd["val"], prefix + "mapOf/")
    elif k in ("anyOf", "oneOf", "allOf", "notF"):
        for x in fd["fields"]:
            out |= ref_sites(x, prefix + k + "/")
    return out


def norm_site(site):
    """a bounded vocabulary of sites: the container kind that directly holds the class reference, and whether an
    inline structure lies on the way (`seqOf/inline/direct` -> `inline/direct`, `seqOf/seqOf` -> `seqOf`)"""
    parts = [p for p in site.split("/") if p]
    inl = "inline/" if "inline" in parts else ""
    last = [p for p in parts if p not in ("inline",)]
    last = last[-1] if last else "direct"
    if parts and parts[-1] == "direct" and len(parts) >= 2 and parts[-2] != "inline":
        last = parts[-2]
    return inl + last


def site_on_path(fd, path, prefix=""):
    """the site (see ref_sites) of the class reference a document path runs into; None if it cannot be followed"""
    k = fd.get("k")
    if k == "struct" and not fd.get("inline"):
        return prefix + "direct" if prefix == "" or prefix.endswith("inline/") else prefix.rstrip("/")
    if k == "struct":
        refs = [(n, f) for n, f in fd["fields"] if ref_sites(f)]
        if len(refs) == 1:          # nested keys may be renamed: follow the only field that holds a reference
            return site_on_path(refs[0][1], path[1:], prefix + "inline/")
        return None
    if not path:
        return None
    if k in ("seqOf", "setOf", "tupleOf"):
        return site_on_path(fd["item"], path[1:], prefix + k + "/")
    if k in ("seqPos", "tuplePos"):
        if path[0].isdigit() and int(path[0]) < len(fd["items"]):
            return site_on_path(fd["items"][int(path[0])], path[1:], prefix + k + "/")
        return None
    if k == "mapOf":
        return site_on_path(fd["val"], path[1:], prefix + "mapOf/")
    return None


def submapper_reaches_ref(fd, sub):
    """a `._mapper` entry that is handed down to a class reference (through arrays / tuples / positional items
    and nested inline structures)"""
    if not isinstance(sub, dict):
        return False
    for st in structs_of(fd):
        if not st.get("inline"):
            return True
        if any(submapper_reaches_ref(f, sub.get(n + "._mapper")) for n, f in st["fields"]):
            return True
    return False


def _outer_reaches(cls, mapper, err):
    """the top-level class's mapper reaches a class reference under the field the error path starts in"""
    if not (err.get("path") or len(cls["fields"]) == 1):
        return False
    for n, fd in cls["fields"]:
        if (len(cls["fields"]) == 1 or mapped_key(n, mapper) == err["path"][0]) and has_class_ref(fd) and \
                (mapper.get("style") in ("camel", "upper")
                 or submapper_renames_ref(fd, (mapper.get("d") or {}).get(n + "._mapper"))):
            return True
    return False


def submapper_renames_ref(fd, sub):
    """a `._mapper` entry that really renames a key of a class reference it is handed down to"""
    if not isinstance(sub, dict):
        return False
    for st in structs_of(fd):
        names = [n for n, _ in st["fields"]]
        if not st.get("inline") and any(k in names and isinstance(v, str) and v != k for k, v in sub.items()):
            return True
        if any(submapper_renames_ref(f, sub.get(n + "._mapper")) for n, f in st["fields"]):
            return True
    return False


def admit_key(err, cls=None, inst=None, mapper=None, mixin=False, renamed=False, own=None):
    """stable name of the phenomenon behind a validation error of a serialized valid instance"""
    if own and cls is not None and err.get("in_ref"):
        # the same phenomenon one level down: a NESTED class has a mapper of its own (converter or `._mapper`
        # entry) that the serializer hands on to the classes nested in it, whose definitions have their own keys
        refs = all_class_refs(cls["fields"], {})
        for name, m in sorted(own.items()):
            st = refs.get(name)
            if st is None or not has_class_ref(st["fields"]):
                continue
            conv = m.get("style") in ("camel", "upper")
            entry = any(has_class_ref(fd) and submapper_renames_ref(fd, (m.get("d") or {}).get(n + "._mapper"))
                        for n, fd in st["fields"])
            if (conv or entry) and not (mapper and _outer_reaches(cls, mapper, err)):
                return f"outer-mapper-not-applied-to-definitions:{'converter' if conv else 'entry'}:nested-class"
    if mapper and cls is not None and has_class_ref(cls["fields"]):
        # the outer class's mapper (TO_CAMELCASE / TO_LOWERCASE, or a `<field>._mapper` entry) also renames the keys
        # of nested Structure classes when serializing, while their `$ref` definitions are exported with the nested
        # class's own keys
        if err.get("in_ref") and (err.get("path") or len(cls["fields"]) == 1):
            for n, fd in cls["fields"]:
                if (len(cls["fields"]) == 1 or mapped_key(n, mapper) == err["path"][0]) and has_class_ref(fd) and \
                        (mapper.get("style") in ("camel", "upper")
                         or submapper_renames_ref(fd, (mapper.get("d") or {}).get(n + "._mapper"))):
                    rest = (err.get("path") or [])[0 if len(cls["fields"]) == 1 and not err.get("path") else 1:]
                    site = site_on_path(fd, rest)
                    sites = {norm_site(site)} if site else {norm_site(x) for x in ref_sites(fd)}
                    # how the sub-mapper got there: a case converter (TO_CAMELCASE / TO_LOWERCASE: the base mapper
                    # creates `<field>._mapper` entries for class references, arrays and sets, not for tuples) or an
                    # explicit `<field>._mapper` entry (handed down through every collection the serializer iterates)
                    how = "converter" if mapper.get("style") in ("camel", "upper") else "entry"
                    return f"outer-mapper-not-applied-to-definitions:{how}:" + "+".join(sorted(sites))
    if err.get("instance") in ("True", "False") and '"boolean"' in json.dumps(err.get("schema")):
        return "raw-boolean-string"
    if mixin and cls is not None and (err.get("path") or len(cls["fields"]) == 1):
        fd0 = cls["fields"][0][1] if len(cls["fields"]) == 1 else \
            dict((mapped_key(n, mapper), f) for n, f in cls["fields"]).get(err["path"][0])
        if fd0 is not None and has_multifield(fd0) and enum_classes_used(fd0, set()):
            return "mixin-enum-member-in-multifield"
    if cls is not None and (err.get("path") or len(cls["fields"]) == 1):
        fd = cls["fields"][0][1] if len(cls["fields"]) == 1 else \
            dict((mapped_key(n, mapper), f) for n, f in cls["fields"]).get(err["path"][0])
        if fd is not None and "nested-field-wrapper" in inexact_features(fd, set()):
            return "nested-field-wrapper"
    if err.get("validator") == "required" and not err.get("branches") and not err.get("path") and cls is not None \
            and mapper and mapper.get("style") == "dict":
        # the schema requires the key of a field that is neither required nor defaulted: `required` was renamed in
        # place while the fields were walked, and an entry renamed onto a later field's name was renamed again
        m = re.match(r"'(.*)' is a required property", err["msg"])
        names = [n for n, _ in cls["fields"]]
        holders = [n for n in names if m and mapped_key(n, mapper) == m.group(1)]
        dnames = [n for n, _ in cls.get("defaults", [])]
        if holders and all(h not in cls["required"] and h not in dnames for h in holders) \
                and any(mapped_key(n, mapper) in names and mapped_key(n, mapper) != n for n in cls["required"]):
            return "mapper-required-renamed-in-place"
    if err.get("validator") == "required" and not err.get("branches"):
        m = re.match(r"'(.*)' is a required property", err["msg"])
        wrapper = cls is not None and len(cls["fields"]) == 1 and set(cls["required"]) == {cls["fields"][0][0]} \
            and cls.get("addl", True) is False
        renames = _rename_pairs(mapper or {}, set())
        for om in (own or {}).values():
            _rename_pairs(om, renames)
        if m and holds_value(inst, err.get("path") or [], m.group(1), bool(mapper) or renamed, wrapper, renames):
            return "required-member-missing-although-set"
    if err.get("branches"):
        keys = {admit_key(b) for b in err["branches"]}
        if len(keys) == 1 and not (keys & {"type", "enum", "required"}):
            return keys.pop()
        return err["validator"]
    return _admit_key(err)


def _admit_key(err):
    v, inst, sch = err["validator"], err["instance"], err["schema"] if isinstance(err["schema"], dict) else {}
    if v == "type" and isinstance(inst, bool) and err["value"] in ("integer", "number"):
        return "bool-as-number"
    if v == "enum" and isinstance(inst, bool):
        return "bool-as-number"
    if v == "enum" and isinstance(inst, (int, float)) and isinstance(err["value"], list) \
            and any(isinstance(x, bool) and x == inst for x in err["value"]):
        return "bool-as-number"
    if v == "type" and isinstance(inst, dict) and err["value"] != "object":
        return "nested-field-wrapper"
    if v == "enum" and isinstance(inst, dict):
        return "nested-field-wrapper"
    if v == "type" and inst in ("True", "False") and err["value"] == "boolean":
        return "raw-boolean-string"
    if v == "type" and inst is None:
        return "null-in-container"
    if v in ("enum", "allOf", "anyOf", "oneOf", "not", "$ref") and isinstance(inst, dict) and "properties" not in sch \
            and sch.get("type") == "object" and len(inst) == 1:
        return "nested-field-wrapper"
    if v == "minimum" and err["value"] == 0.000001:
        return "sign-only-float-bound"
    if v == "maximum" and err["value"] == -0.000001:
        return "sign-only-float-bound"
    if v == "required":
        m = re.match(r"'(.*)' is a required property", err["msg"])
        name = m.group(1) if m else None
        if name and isinstance(sch.get("properties", {}).get(name), dict) and "default" in sch["properties"][name]:
            return "default-marked-required"
        return "required-holds-none"
    if v == "uniqueItems":
        return "uniqueItems"
    return v


# ------------------------------------------------------------------ judging

def tags(case, impl, model):
    out = []
    if "unbuildable" in impl or "abstraction_mismatch" in impl:
        return ["impl:skipped"]
    if renaming(case):
        out.append("stream:key-renaming-mapper(" + ("oracle only" if oracle_only(case) else "modelled: top-level dict mapper") + ")")
    if case.get("hier"):
        out.append("stream:inheritance:" + case["hier"]["shape"] + (":nested" if case["cls"]["name"].endswith("Outer") else ""))
    out.append("schema:" + ("raises:" + impl["schema_err"]["err"] if "schema_err" in impl else
                            ("wf" if impl.get("wf") and impl.get("refs_ok") else "ill-formed:" + (impl.get("wf_err") or {}).get("key", "ref"))))
    m = (model or {}).get("out", model) or {}
    out.append("fragment:" + ("admits" if m.get("inFrag") else "-") + ("+wf" if m.get("inWfFrag") else "") +
               ("+exact" if m.get("inExact") else ""))
    if impl.get("collapsed"):
        out.append("field-wrapper")
    for r in impl.get("insts", []):
        if "valid" in r:
            out.append("instance:" + ("valid" if r["valid"] else "rejected:" + admit_key(r["error"], case["cls"], r.get("x"), case.get("mapper"))))
    nv = sum(1 for r in impl.get("bdocs", []) if r.get("valid"))
    out.append(f"boundary-docs-admitted:{min(nv, 9)}")
    for fd in {fd["k"] for _, fd in case["cls"]["fields"]}:
        out.append("kind:" + fd)
    return out


def nontrivial(case):
    return C.nontrivial(case) or len(case["cls"]["fields"]) > 1


def describe(case, impl, model):
    return {"cls": case["cls"], "schema": impl.get("schema"), "defs": impl.get("defs"),
            "wf": impl.get("wf"), "instances": [{k: r.get(k) for k in ("doc", "valid")} for r in impl.get("insts", [])][:2]}


def renaming(case):
    """a key-renaming serialization mapper is in play (on the class or on a nested class)"""
    return bool(case.get("mapper") or case.get("own_mappers"))


def key_map(case):
    """the part of the key-renaming stream that the Lean model covers (Sch.classSchemaM): ONE dict mapper on the
    top-level class that renames its own keys to strings (no `<field>._mapper` entry, no case converter, no nested
    class with a mapper of its own), with pairwise different mapped keys.  Returns [[field, key], ...] or None."""
    m = case.get("mapper")
    if not m or case.get("own_mappers") or m.get("style") != "dict":
        return None
    d = m.get("d") or {}
    names = [n for n, _ in case["cls"]["fields"]]
    if any(not isinstance(v, str) or k not in names for k, v in d.items()):
        return None
    mapped = [d.get(n, n) for n in names]
    if len(set(mapped)) != len(mapped):
        return None          # `properties[mapped_key] = ...` overwrites: outside the model
    return [[n, d[n]] for n in names if n in d]


def oracle_only(case):
    """renaming cases outside the Lean model: no model correspondence, no Lean predicate is used"""
    return renaming(case) and key_map(case) is None


def enum_classes_used(d, acc):
    if isinstance(d, list):
        for x in d:
            enum_classes_used(x, acc)
    elif isinstance(d, dict):
        if d.get("k") == "enumCls":
            acc.add(d["cls"])
        for k, v in d.items():
            if k not in ("values", "defaults"):
                enum_classes_used(v, acc)
    return acc


def uses_mixin_enum(case):
    """the class has an Enum field over an IntEnum / IntFlag / str- / float-mixin class: its members are also
    numbers / strings for Python, which the Lean value model (members are a kind of their own) does not say"""
    kinds = case.get("enum_kinds") or {}
    return any(kinds.get(c, "plain") != "plain" for c in enum_classes_used(case["cls"]["fields"], set()))


def has_multifield(d):
    if isinstance(d, list):
        return any(has_multifield(x) for x in d)
    if isinstance(d, dict):
        if d.get("k") in ("anyOf", "oneOf", "allOf", "notF") and not \
                (d["k"] == "anyOf" and len(d["fields"]) == 2 and d["fields"][1].get("k") == "noneF"):
            return True
        return any(has_multifield(v) for k, v in d.items() if k not in ("values", "defaults"))
    return False


def correspondence(case, impl, model):
    if "unbuildable" in impl or oracle_only(case):
        return None
    if "abstraction_mismatch" in impl:
        return "dump(build(decl)) != decl: " + json.dumps(impl["abstraction_mismatch"])[:600]
    if "flattening_mismatch" in impl:
        return "get_all_fields_by_name() of the most derived class is not the MRO-resolved declaration: " + \
            json.dumps(impl["flattening_mismatch"])[:600]
    if model["raises"] != ("schema_err" in impl):
        return f"model raises={model['raises']}, real code: {impl.get('schema_err') or 'returns a schema'}"
    if "schema" in impl:
        if canon_schema(model["schema"]) != canon_schema(impl["schema"]):
            return "schemas differ: model " + canon_schema(model["schema"])[:400] + " impl " + canon_schema(impl["schema"])[:400]
        if canon_schema(model["defs"]) != canon_schema(impl["defs"]):
            return "definitions differ: model " + canon_schema(model["defs"])[:400] + " impl " + canon_schema(impl["defs"])[:400]
        # (`dialectFix (emit false) = emit true` is a theorem for every declaration — Props/C08
        # dialect_fix_is_emit_true; the driver's structural comparison `fixAgrees` is informational: it is false
        # when a default is not a JSON value, which structEq does not compare)
        want = bool(impl["wf"] and impl["refs_ok"])
        if model["wfImpl"] != want and not (impl.get("wf_err") or {}).get("key", "").startswith("crash"):
            return f"well-formedness: Lean wfDocument={model['wfImpl']}, Draft4Validator.check_schema+refs={want} ({impl.get('wf_err')}, {impl.get('bad_refs')})"
        if model["wfModel"] != model["wfImpl"]:
            return "wfDocument differs between model schema and real schema"
    scope = S.in_model_scope(case["cls"]) and not uses_mixin_enum(case)
    mi = iter(model.get("insts", []))
    for r in impl.get("insts", []):
        if "x" not in r:
            continue
        m = next(mi)
        if "doc" in r and "valid" in r and "validImpl" in m and m["validImpl"] != r["valid"]:
            return f"validator verdicts differ on a serialized instance: Lean jsValid={m['validImpl']}, Draft4Validator={r['valid']} ({r.get('error')}); doc " + json.dumps(r["doc"])[:300]
        # the serializer model (Sem/Serde.lean, C05's) is compared where the C08 theorems rely on it
        if scope and model.get("inFrag") and not impl.get("collapsed") and "ser_notjson" not in r \
                and m.get("renameSafe", True):
            ms = m.get("ser")
            if ms and not str(ms.get("err", "")).startswith("outside-model"):
                if ("ok" in ms) != ("doc" in r):
                    if not ("err" in ms and "ser_err" in r):
                        return f"serialization: model {json.dumps(ms)[:200]}, real {json.dumps(r.get('doc', r.get('ser_err')))[:200]}"
                elif "ok" in ms and not S._same(S.canon_doc(case["cls"], ms["ok"]),
                                                S.canon_doc(case["cls"], r.get("doc_raw", r["doc"]))):
                    return "serializations differ: model " + json.dumps(ms["ok"])[:250] + " real " + json.dumps(r.get("doc_raw", r["doc"]))[:250]
    mb = iter(model.get("bdocs", []))
    for dj, r in zip(case["bdocs"], impl.get("bdocs", [])):
        if "unbuildable" in r:
            continue
        m = next(mb)
        if "valid" in r and "validImpl" in m and m["validImpl"] != r["valid"]:
            return f"validator verdicts differ on a boundary document: Lean jsValid={m['validImpl']}, Draft4Validator={r['valid']}; doc " + json.dumps(dj)[:300]
        if model.get("inExact") and "deser" in r and "deser" in m and not uses_mixin_enum(case):
            if ("ok" in m["deser"]) != ("ok" in r["deser"]):
                return f"deserialization verdicts differ on a boundary document: model {m['deser']}, real {r['deser']}; doc " + json.dumps(dj)[:300]
    return None


def oracle(case, impl, model):
    """the property statement, executed on the real code's results"""
    fails = []
    if "unbuildable" in impl or "abstraction_mismatch" in impl:
        return fails
    kinds = "+".join(sorted({fd["k"] for _, fd in case["cls"]["fields"]}))[:60]
    if oracle_only(case):
        # the Lean predicates describe the mapper-free class: use none of them
        model = {"raises": model.get("raises")}
    if "schema_err" in impl:
        if not model.get("raises"):
            fails.append((f"unexpected-raise:{impl['schema_err']['err']}:{kinds}",
                          f"structure_to_schema raised {impl['schema_err']} on a mappable class"))
        return fails
    if model.get("inWfFrag") and not (impl["wf"] and impl["refs_ok"]):
        fails.append(("ill-formed:inside-the-proved-region",
                      f"schema_wellformed_partial covers this class, yet the real schema is ill-formed: {impl.get('wf_err')} {impl.get('bad_refs')}"))
    if not impl["wf"]:
        e = impl["wf_err"]
        fails.append((f"ill-formed:{e['key']}", f"not a well-formed draft-4 schema after the dialect fix: {e['msg']} at {'/'.join(e['path'])}"))
    if not impl["refs_ok"]:
        fails.append(("unresolved-ref", f"$ref does not resolve inside the returned definitions: {impl['bad_refs']}"))
    if model.get("refsFaithful") is False and impl["refs_ok"]:
        fails.append(("definitions-name-collision", "two different classes share a __name__: one definition overwrites the other"))
    mi = iter(model.get("insts", []))
    for r in impl.get("insts", []):
        m = next(mi, {}) if "x" in r else {}
        # (a serialization whose JSON text differs from the Python document — non-string Map keys — is not the
        # document the theorem speaks about)
        if r.get("valid") is False and model.get("inFrag") and model.get("refsFaithful") and m.get("inRegion") \
                and m.get("renameSafe", True) and not uses_mixin_enum(case) and "doc_raw" not in r:
            fails.append(("admits:inside-the-proved-region",
                          "schema_admits_partial covers this (class, instance), yet the real schema rejects the real "
                          f"serialization: {r['error']['msg']}; doc " + json.dumps(r["doc"])[:200]))
        if r.get("valid") is False and model.get("refsFaithful") is not False and "doc_raw" in r \
                and r["error"].get("validator") == "minProperties":
            # Python keys that are different (1 and "1") become one JSON member name
            fails.append(("admits:map-size-key-collision",
                          f"a sized Map whose keys collide in JSON: {r['error']['msg']} at {'/'.join(r['error']['path'])}; doc " + json.dumps(r["doc"])[:200]))
        elif r.get("valid") is False and model.get("refsFaithful") is not False:
            fails.append((f"admits:{admit_key(r['error'], case['cls'], r.get('x'), case.get('mapper'), uses_mixin_enum(case), renaming(case), case.get('own_mappers'))}",
                          f"serialization of a valid instance is rejected by the schema: {r['error']['msg']} at {'/'.join(r['error']['path'])}; doc " + json.dumps(r["doc"])[:200]))
        if "valid_crash" in r:
            fails.append(("validator-crash", "Draft4Validator raised on the emitted schema: " + r["valid_crash"]))
    if stmt_exact(case["cls"]) and impl["wf"] and impl["refs_ok"] and not impl.get("collapsed"):
        names = dict((n, f) for n, f in case["cls"]["fields"])
        # the base document itself (image of a valid instance) is judged like a boundary document; when the
        # Deserializer rejects it, a variation that is rejected for the same reason is the same phenomenon and a
        # variation whose rejection names no field is attributed to the base's culprit, never to the varied field
        base = impl.get("base") or {}
        base_rejected = "err" in base.get("deser", {})
        base_culprit = culprit_field(case["cls"], base["deser"].get("msg", "")) if base_rejected else None
        todo = list(zip(case["bdocs"], impl.get("bdocs", []), case.get("bkeys") or [None] * len(case["bdocs"])))
        if base_rejected and base.get("valid"):
            todo.insert(0, (base_doc(case), base, []))
        # hypothesis of the exactness theorems, evaluated on the case: search => match for start-anchored patterns
        hs_ok = all((not sr) or _match(p, t) for p, t, sr in impl.get("search", []) if p.startswith("^"))
        for bi, (dj, r, ck) in enumerate(todo):
            if r.get("valid") and "err" in r.get("deser", {}) and model.get("inExact") and hs_ok \
                    and model.get("refsFaithful") and not uses_mixin_enum(case) and isinstance(dj, dict) \
                    and "m" in dj and _json_doc(dj):
                fails.append(("exact:inside-the-proved-region",
                              "schema_exact_class_partial covers this (class, document), yet the real Deserializer rejects a document "
                              f"the real schema admits ({r['deser']['err']}: {r['deser'].get('msg')}): " + json.dumps(dj)[:250]))
            if r.get("valid") and "err" in r.get("deser", {}):
                # the field(s) in which the document differs from the image of a valid instance
                msg = r["deser"].get("msg", "")
                base_ok = bool(impl.get("insts")) and "x" in impl["insts"][0] and not base_rejected
                f1 = culprit_field(case["cls"], msg)
                if base_rejected and r is not base:
                    if f1 is None or f1 is base_culprit or base_culprit is None:
                        continue        # reported once, with the base document
                suspects = [f1] if f1 is not None else \
                    ([names[k] for k in (ck or []) if isinstance(k, str) and k in names] if base_ok else [])
                if not suspects:
                    suspects = [fd for _, fd in case["cls"]["fields"]]
                ff = inexact_features(suspects, set())
                # a positional array that is not shorter than its item list is not the known phenomenon
                if "positional-shorter" in ff and len(suspects) == 1 and suspects[0]["k"] in ("tuplePos", "seqPos") \
                        and isinstance(dj, dict) and "m" in dj:
                    val = dict((k, v) for k, v in dj["m"] if isinstance(k, str)).get((ck or [None])[0])
                    if isinstance(val, dict) and "l" in val and len(val["l"]) >= len(suspects[0]["items"]):
                        ff.discard("positional-shorter")
                        ff |= inexact_features(suspects[0]["items"], set())
                ff = [x for x in FEATURE_PRIORITY if x in ff][:1]
                if len(suspects) == 1 and suspects[0]["k"] in ("oneOf", "notF", "allOf"):
                    ff = [suspects[0]["k"]]       # the wrapper itself (raw stored input, exactly-one / none-of in JSON terms)
                why = ff[0] if ff else "unexplained:" + "+".join(sorted({f["k"] for f in suspects}))[:40]
                fails.append((f"exact:{why}",
                              f"the schema admits a document the Deserializer rejects ({r['deser']['err']}: {r['deser'].get('msg')}): " + json.dumps(dj)[:250]))
    return fails


def culprit_field(cls, msg):
    names = dict((n, f) for n, f in cls["fields"])
    m = re.match(r"^(?:\w+: |\w+\.)?(\w+):", msg or "")       # the whole name first: `f_2` is a field, not `f` + `_2`
    if m and m.group(1) in names:
        return names[m.group(1)]
    m = re.match(r"^(?:\w+: |\w+\.)?(\w+?)(?:_\d+|_key|_value)?:", msg or "")
    if m and m.group(1) in names:
        return names[m.group(1)]
    m = re.match(r"^(\w+):", msg or "")
    if m and m.group(1) in names:
        return names[m.group(1)]
    # the message names a nested class ("Cls2: missing a required argument"): the field that holds it
    m = re.match(r"^(\w+)[:.]", msg or "")
    if m:
        holders = [f for f in names.values() if ('"name": "%s"' % m.group(1)) in json.dumps(f)]
        if len(holders) == 1:
            return holders[0]
        if holders:
            return {"k": "fields-holding-" + m.group(1), "items": holders}
    return None
