"""
Suite `sched` (C20): 2-3 real threads run construct / deserialize / setattr / serialize on DISTINCT instances of
shared typedpy classes under a `sys.settrace`-based scheduler (one Condition; exactly one thread runs at a time and only
between yield points), through enumerated or sampled schedules with a bounded number of pre-emptions.

Per schedule the result / exception of every thread is compared with
  * its sequential result (oracle = the statement of C20, executed), and
  * for the collection-validation calls the Lean model covers (stream "A"): the prediction of `Sem/Sched.run` for the
    event-level schedule (order of write-shared / new-temp / store / read-back events) observed in that very run.

Streams:
  A  flat collection fields with Integer items; yield points = the event lines of the site functions found by
     extract/shared_writes.py; ALL schedules with <= max_pre pre-emptions; model correspondence + oracle
  E  any shape (nested, multi-field wrappers, shared item instances); same exhaustive event-line schedules; oracle only
  B  any shape, any operation; yield points = EVERY line of every typedpy file; sampled schedules; oracle only
A non-sequential outcome is keyed by the site(s) at which conflicting shared writes were observed in that run
(`shared-_name:array.py:extract_field_value` ...), or `nonsequential:<shape>:<op>` when no known site was involved.
"""
import collections
import datetime
import enum as pyenum
import json
import os
import random
import re
import sys
import threading

import typedpy
from typedpy import (AllOf, AnyOf, Array, Deque, Deserializer, ImmutableSet, Integer, Map, NotField, Number, OneOf,
                     Serializer, Set, String, Structure, Tuple)

from typedpy.structures import Field, TypedPyDefaults
from typedpy import DateField, DateTime, Enum, ImmutableStructure, mappers
from typedpy import DecimalNumber
from typedpy.extfields import TimeField
import decimal
from typedpy import serialize as tp_serialize

from extract import shared_writes as SW

TP = os.path.dirname(os.path.abspath(typedpy.__file__)) + os.sep
REPO = os.path.dirname(os.path.dirname(TP))

# ------------------------------------------------------------------ site table (from the translator)

ROWS = SW.scan()
_SELF = compile("self", "<site-self>", "eval")
EVOPS = {}          # (abs path, first line of the function) -> [(letter, span, target_code, value_code, key)]
EVLINES = {}        # (abs path, line) -> [(order, letter, target_code, value_code, key)]
SITEFUNCS = set()   # (abs path, first line of the function)
STMT_END = {}       # (abs path, first line of a multi-line statement in a site function) -> last line


def _build_tables():
    seen = set()
    for r in ROWS:
        if r["valueKind"] in ("keyedCache", "publishedIncomplete", "transientEntries", "checkThenGet", "modeToggle",
                              "readModifyWrite") and r.get("first_line"):
            # functions that fill a module-level cache: every line is a yield point in the "sitelines" scope
            SITEFUNCS.add((os.path.abspath(os.path.join(SW.repo_dir(), r["path"])), r["first_line"]))
        if not r.get("events") or r["valueKind"] not in ("perCall", "ownerName"):
            continue
        if not r["readBack"]:
            # a name left behind in the shared Field object that no validator reads back (the validators work on private
            # copies): the site function stays a yield-point region, but its write is not an event of the model
            SITEFUNCS.add((os.path.abspath(os.path.join(SW.repo_dir(), r["path"])), r["first_line"]))
            continue
        path = os.path.join(SW.repo_dir(), r["path"])
        path = os.path.abspath(path)
        key = SW.key_of(r)
        SITEFUNCS.add((path, r["first_line"]))
        tgt = compile(r["target"], "<site-target>", "eval")
        val = compile(r["value"], "<site-value>", "eval")
        ev = r["events"]
        for a, b in ev.get("spans", []):
            STMT_END[(path, a)] = b

        def add(line, order, letter, t, v):
            sig = (path, line, letter, r["target"] if letter != "N" else "")
            if sig in seen:
                return
            seen.add(sig)
            EVLINES.setdefault((path, line), []).append((order, letter, t, v, key))

        for letter, *span in ev.get("ops", []):
            sig = (path, tuple(span), letter, r["target"] if letter != "N" else "")
            if sig not in seen:
                seen.add(sig)
                EVOPS.setdefault((path, r["first_line"]), []).append(
                    (letter, tuple(span), tgt if letter != "N" else None, val if letter == "W" else None, key))
        add(ev["W"], (0, 0, 0), "W", tgt, val)
        for l in ev["S"]:
            add(l, (0, 0, 0), "S", tgt, None)
        for l, order in ev["R"]:
            add(l, tuple(order), "R", tgt, None)
        for l in ev["N"]:
            add(l, (0, 0, 0), "N", None, None)
        for l, expr, *span in ev.get("Sx", []):
            sig = (path, l, "S", expr)
            if sig not in seen:
                seen.add(sig)
                xt = compile(expr, "<site-target>", "eval")
                EVLINES.setdefault((path, l), []).append(((0, 0, 0), "S", xt, None, key))
                EVOPS.setdefault((path, r["first_line"]), []).append(("S", tuple(span), xt, None, key))
        for l in ev.get("Sself", []):
            # the function reads its OWN name there: an event only when `self` is one of the modelled cells (nested wrapper)
            sig = (path, l, "s", "self")
            if sig not in seen:
                seen.add(sig)
                EVLINES.setdefault((path, l), []).append(((0, 0, 1), "s", _SELF, None, key))
    for k in EVLINES:
        EVLINES[k].sort(key=lambda e: e[0])


_build_tables()

# CPython pre-empts between BYTECODES: the instructions through which a function can read or write state that other
# threads see (attributes, items, globals, `in` tests, calls - setattr / getattr / dict methods / callees)
import dis as _dis
HOT_OPS = frozenset(_dis.opmap[n] for n in (
    "LOAD_ATTR", "STORE_ATTR", "DELETE_ATTR", "BINARY_SUBSCR", "STORE_SUBSCR", "DELETE_SUBSCR", "CALL", "CALL_FUNCTION_EX",
    "STORE_GLOBAL", "DELETE_GLOBAL", "CONTAINS_OP", "LOAD_SUPER_ATTR", "BINARY_SLICE", "STORE_SLICE", "FOR_ITER", "LOAD_DEREF",
    "STORE_DEREF") if n in _dis.opmap)

# ------------------------------------------------------------------ values on the wire


def mk(j):
    """JSON description -> Python value"""
    if isinstance(j, dict):
        if "l" in j:
            return [mk(x) for x in j["l"]]
        if "t" in j:
            return tuple(mk(x) for x in j["t"])
        if "q" in j:
            return collections.deque(mk(x) for x in j["q"])
        if "s" in j:
            return set(mk(x) for x in j["s"])
        if "fs" in j:
            return frozenset(mk(x) for x in j["fs"])
        if "m" in j:
            return {mk(k): mk(v) for k, v in j["m"]}
        if "d" in j:
            return {k: mk(v) for k, v in j["d"].items()}
        if "date" in j:
            return datetime.date.fromisoformat(j["date"])
        if "datetime" in j:
            return datetime.datetime.fromisoformat(j["datetime"])
        if "enum" in j:
            return Color[j["enum"]]
    return j


class Color(pyenum.Enum):
    RED = 1
    GREEN = 2
    BLUE = 3


def plain(j):
    """JSON description -> JSON-like document for the deserializer"""
    if isinstance(j, dict):
        for k in ("l", "t", "q", "s", "fs"):
            if k in j:
                return [plain(x) for x in j[k]]
        if "m" in j:
            return {plain(k): plain(v) for k, v in j["m"]}
        if "d" in j:
            return {k: plain(v) for k, v in j["d"].items()}
        if "date" in j:
            return j["date"]
        if "datetime" in j:
            return datetime.datetime.fromisoformat(j["datetime"]).strftime("%m/%d/%y %H:%M:%S")
        if "enum" in j:
            return j["enum"]
    return j


def canon(v):
    if isinstance(v, datetime.datetime):
        return {"datetime": v.isoformat()}
    if isinstance(v, datetime.date):
        return {"date": v.isoformat()}
    if isinstance(v, pyenum.Enum):
        return {"enum": v.name}
    if isinstance(v, datetime.time):
        return {"time": v.isoformat()}
    if isinstance(v, decimal.Decimal):
        return {"decimal": str(v)}
    if isinstance(v, Structure):
        return {"struct": type(v).__name__,
                "fields": {k: canon(getattr(v, k, None)) for k in sorted(type(v).get_all_fields_by_name())}}
    if isinstance(v, bool) or v is None or isinstance(v, (int, str, float)):
        return v
    if isinstance(v, collections.deque):
        return {"q": [canon(x) for x in v]}
    if isinstance(v, list):
        return {"l": [canon(x) for x in v]}
    if isinstance(v, tuple):
        return {"t": [canon(x) for x in v]}
    if isinstance(v, frozenset):
        return {"fs": sorted((canon(x) for x in v), key=lambda x: json.dumps(x, sort_keys=True))}
    if isinstance(v, set):
        return {"s": sorted((canon(x) for x in v), key=lambda x: json.dumps(x, sort_keys=True))}
    if isinstance(v, dict):
        return {"m": [[canon(k), canon(x)] for k, x in v.items()]}
    return {"other": type(v).__name__}


_ADDR = re.compile(r"0x[0-9a-fA-F]+")
_FIELD = re.compile(r"^(?:[A-Za-z_][A-Za-z0-9_]*\.)?([A-Za-z_][A-Za-z0-9_]*): ")
_NOATTR = re.compile(r"has no attribute '([^']+)'")


_NAMETOK = re.compile(r"\b[A-Za-z_][A-Za-z0-9_]*(?:\.[A-Za-z_][A-Za-z0-9_]*)?: ")


_GOT = re.compile(r"Got [^;]*; ")


def _strip_names(msg):
    """the text of a message without the `<name>: ` / `<name>: Got <v>; ` prefixes that render a field's `_name`"""
    return _GOT.sub("", _NAMETOK.sub("", msg))


def outcome_of(fn):
    try:
        return {"ok": canon(fn())}
    except Exception as e:  # the operation's own exception is its result
        msg = _ADDR.sub("0x", str(e))
        m = _NOATTR.search(msg) if isinstance(e, AttributeError) else _FIELD.match(msg)
        return {"err": type(e).__name__, "field": m.group(1) if m else None, "msg": msg[:300]}


# ------------------------------------------------------------------ shapes (classes shared by the threads)


class Shape:
    def __init__(self, name, cls, model=None, cells=(), racy=False, extra=None, classes=None):
        self.name = name
        self.cls = cls
        self.classes = classes or [cls]   # thread spec "cls": index into this list (default 0)
        self.model = model or {}       # field -> ("homog", initW) | ("set",) | ("map",) | ("pos", n)
        self.cells = {}                # field -> [cell objects]
        self.cell_ids = {}
        for f, objs in cells:
            nums = []
            for o in objs:
                if id(o) not in self.cell_ids:
                    self.cell_ids[id(o)] = len(self.cell_ids)
                nums.append(self.cell_ids[id(o)])
            self.cells[f] = nums
        self.racy = racy
        self.extra = extra or {}
        # cell -> key of the validator site that renames that Field object (the owner collection / wrapper field)
        self.sites = {}
        for c in self.classes:
            for f, objs in cells:
                owner = c.__dict__.get(f) if isinstance(c.__dict__.get(f), Field) else None
                if owner is None:
                    continue
                for o in objs:
                    if _reaches(owner, o):
                        self.sites.setdefault(self.cell_ids[id(o)], set()).update(site_keys(owner))


def site_keys(owner):
    """the shared-write table keys of the sites at which the collection / wrapper field `owner` renames its item objects"""
    t = type(owner).__name__
    if t == "ImmutableSet":     # ImmutableSet.__set__ validates, then hands the frozenset to Set.__set__
        return [site_key(owner), "shared-_name:set_field.py:Set.__set__"]
    return [site_key(owner)]


def site_key(owner):
    t = type(owner).__name__
    its = getattr(owner, "items", None)
    if t in ("Array", "Deque") and isinstance(its, Field):
        return "shared-_name:array.py:extract_field_value"
    where = {"Array": "array.py", "Deque": "deque_field.py", "Tuple": "tuple_field.py", "Set": "set_field.py",
             "ImmutableSet": "set_field.py", "Map": "map_field.py", "AllOf": "multified_wrappers.py",
             "AnyOf": "multified_wrappers.py", "OneOf": "multified_wrappers.py", "NotField": "multified_wrappers.py"}
    return f"shared-_name:{where.get(t, '?')}:{t}.__set__"


def _reaches(owner, obj):
    its = getattr(owner, "items", None)
    subs = list(its) if isinstance(its, (list, tuple)) else [its]
    subs += list(getattr(owner, "_fields", None) or [])
    return any(x is obj for x in subs)


def _nn():
    return Integer(minimum=0)


def _build_shape(name):
    if name == "scalar":
        class Sc(Structure):
            a = Integer(minimum=0)
            b = String(minLength=1)
            _required = []
        return Shape(name, Sc)
    if name in ("array_int", "deque_int", "tuple_homog"):
        F = {"array_int": Array, "deque_int": Deque, "tuple_homog": Tuple}[name]

        class Hm(Structure):
            a = F[Integer(minimum=0)]
            _required = []
        items = Hm.a.items[0] if name == "tuple_homog" else Hm.a.items
        return Shape(name, Hm, {"a": ("homog", name != "tuple_homog")}, [("a", [items])], racy=True)
    if name == "array_two_fields":
        class Tw(Structure):
            a = Array[Integer(minimum=0)]
            c = Array[Integer(minimum=0)]
            _required = []
        return Shape(name, Tw, {"a": ("homog", True), "c": ("homog", True)},
                     [("a", [Tw.a.items]), ("c", [Tw.c.items])])
    if name in ("set_int", "shared_set"):
        it = _nn()

        class St(Structure):
            a = Set[it]
            b = Set[it if name == "shared_set" else _nn()]
            _required = []
        return Shape(name, St, {"a": ("set",), "b": ("set",)}, [("a", [St.a.items]), ("b", [St.b.items])],
                     racy=name == "shared_set")
    if name in ("map_int", "shared_map"):
        kf, vf = _nn(), _nn()
        sh = name == "shared_map"

        class Mp(Structure):
            a = Map[kf, vf]
            b = Map[(kf if sh else _nn()), (vf if sh else _nn())]
            _required = []
        return Shape(name, Mp, {"a": ("map",), "b": ("map",)},
                     [("a", list(Mp.a.items)), ("b", list(Mp.b.items))], racy=sh)
    m = re.match(r"^(shared_)?pos_(array|deque|tuple)$", name)
    if m:
        sh = bool(m.group(1))
        F = {"array": Array, "deque": Deque, "tuple": Tuple}[m.group(2)]
        i0, i1 = _nn(), _nn()

        class Ps(Structure):
            a = F(items=[i0, i1])
            b = F(items=[i0, i1] if sh else [_nn(), _nn()])
            _required = []
        return Shape(name, Ps, {"a": ("pos", 2), "b": ("pos", 2)},
                     [("a", list(Ps.a.items)), ("b", list(Ps.b.items))], racy=sh)
    if name in ("anyof", "oneof", "allof", "notfield"):
        W = {"anyof": AnyOf[Integer(minimum=0), String], "oneof": OneOf[Integer(minimum=0), String],
             "allof": AllOf[Integer, Number(minimum=0)], "notfield": NotField[String]}[name]

        class Mu(Structure):
            a = W
            _required = []
        return Shape(name, Mu, {"a": ("wrap", WKIND[name])}, [("a", list(Mu.a._fields))])
    m = re.match(r"^shared_(anyof|oneof|allof|notfield)$", name)
    if m:
        opt = _nn()
        mkw = {"anyof": lambda: AnyOf[opt, String], "oneof": lambda: OneOf[opt, String],
               "allof": lambda: AllOf[opt, Number], "notfield": lambda: NotField[opt]}[m.group(1)]

        class Sm(Structure):
            a = mkw()
            b = mkw()
            _required = []
        return Shape(name, Sm, {f: ("wrap", WKIND[m.group(1)]) for f in "ab"},
                     [("a", list(Sm.a._fields)), ("b", list(Sm.b._fields))], racy=True)
    m = re.match(r"^array_(anyof|oneof|allof|notfield|set|immset|map|array|pos|dequepos|tuple)$", name)
    if m:
        inner = {"anyof": lambda: AnyOf[Integer(minimum=0), String], "oneof": lambda: OneOf[Integer(minimum=0), String],
                 "allof": lambda: AllOf[Integer, Number(minimum=0)], "notfield": lambda: NotField[String],
                 "set": lambda: Set[Integer(minimum=0)], "immset": lambda: ImmutableSet[Integer(minimum=0)],
                 "map": lambda: Map[String, Integer(minimum=0)], "array": lambda: Array[Integer(minimum=0)],
                 "pos": lambda: Array(items=[_nn(), String()]), "dequepos": lambda: Deque(items=[_nn(), String()]),
                 "tuple": lambda: Tuple[Integer(minimum=0), String]}[m.group(1)]()

        class Ne(Structure):
            a = Array[inner]
            _required = []
        if m.group(1) in WKIND:
            # modelled: the wrapper object is the scratch cell of the outer loop, its options are cells of the wrapper's site
            sh = Shape(name, Ne, {"a": ("nest", WKIND[m.group(1)])}, [("a", [inner] + list(inner._fields))], racy=True,
                       extra={"inner": m.group(1)})
            sh.sites = {sh.cell_ids[id(inner)]: {site_key(Ne.a)}}
            for o in inner._fields:
                sh.sites[sh.cell_ids[id(o)]] = {site_key(inner)}
            return sh
        return Shape(name, Ne, racy=True, extra={"inner": m.group(1)})
    if name in ("immset", "shared_immset"):
        it = _nn()

        class Im(Structure):
            a = ImmutableSet[it]
            b = ImmutableSet[it if name == "shared_immset" else _nn()]
            _required = []
        return Shape(name, Im, {"a": ("iset",), "b": ("iset",)}, [("a", [Im.a.items]), ("b", [Im.b.items])],
                     racy=name == "shared_immset")
    if name in SER_SHAPES:
        # SerializableField items (custom deserialization: DateField / DateTime / Enum) inside collections
        decl = {"ser_map_date": lambda: Map[String, DateField], "ser_map_enumkey": lambda: Map[Enum[Color], DateTime],
                "ser_set_enum": lambda: Set[Enum[Color]], "ser_set_date": lambda: Set[DateField],
                "ser_tuple_date": lambda: Tuple[DateField, Integer], "ser_pos_array_date": lambda: Array(items=[DateField, Integer]),
                "ser_pos_deque_enum": lambda: Deque(items=[Enum[Color], Integer]),
                "ser_array_date": lambda: Array[DateField]}[name]

        class Sr(Structure):
            a = decl()
            n = Integer
            _required = []
        return Shape(name, Sr, racy=name == "ser_array_date")
    if name in ENUM_SHAPES:
        decl = {"enum_scalar": lambda: Enum[Color], "enum_anyof": lambda: AnyOf[Enum[Color], Integer],
                "enum_map_value": lambda: Map[String, Enum[Color]], "enum_tuple": lambda: Tuple[Enum[Color], Integer]}[name]

        class En(Structure):
            a = decl()
            n = Integer
            _required = []
        return Shape(name, En)
    if name == "multi_nested":
        # multi-field wrappers with a nested-structure option next to plain fields that can be invalid together
        class Customer(Structure):
            name = String(minLength=1)
            age = Integer(minimum=0)
            _required = ["name"]

        class Doc(Structure):
            who = AnyOf[Customer, String]
            alt = OneOf[Customer, Integer]
            x = Integer(minimum=0)
            y = String(minLength=2)
            _required = []
        return Shape(name, Doc)
    if name == "shared_ref":
        # reference data: many owners refer to one nested instance
        class Currency(ImmutableStructure):
            code = String
            digits = Integer

        class Price(Structure):
            amount = Integer
            currency = Currency
            fallback = Currency
            _required = []
        return Shape(name, Price)
    if name == "shared_default":
        # a non-callable Structure default: every owner built without the field refers to the default instance
        ns = {}
        exec("from typedpy import Structure\n"
             "class Address(Structure):\n    city: str\n    zip_code: str\n"
             "class Customer(Structure):\n    name: str\n    visits: int = 0\n"
             "    address: Address = Address(city='Paris', zip_code='75001')\n", ns)  # pylint: disable=exec-used
        return Shape(name, ns["Customer"])
    if name == "fast_anyof":
        # <field>.serialize(value), the field-level API (AnyOf.serialize tries the options - and renames them - since fix
        # ab026bd); one option object shared by the fields a and b
        opt = _nn()

        class Fa(Structure):
            a = AnyOf[opt, String]
            b = AnyOf[opt, String]
            _required = []
        return Shape(name, Fa, racy=True)
    if name == "unique_field":
        # the opt-in uniqueness feature (TypedPyDefaults.uniqueness_features_enabled): a registry on the shared Field object
        class Person(Structure):
            ssid = String(is_unique=True)
            n = Integer
            _required = []
        return Shape(name, Person, extra={
            "joint_key": "shared-<container>:structures.py:UniqueMixin.__manage_uniqueness_for_field__"})
    if name == "warm_ser":
        # scalar SerializableFields: their deserialize / serialize / __set__ run on the field object shared by all instances
        class Booking(Structure):
            day = DateField
            at = DateTime
            t = TimeField
            amount = DecimalNumber
            color = Enum[Color]
            n = Integer
            _required = []
        return Shape(name, Booking)
    if name == "mapper_hist":
        class Order(Structure):
            order_id = Integer
            total = Integer
            note = String
            _required = []
        return Shape(name, Order)
    if name in COLD_SHAPES:
        # classes with a non-trivial mapper; rebuilt for EVERY schedule, so every run starts with cold per-class caches
        class Address(Structure):
            street_name = String
            zip_code = Integer
            _required = []
            if name == "cold_nested_mappers":
                _serialization_mapper = mappers.TO_LOWERCASE

        class Person(Structure):
            first_name = String
            lucky_numbers = Array[Integer]
            home_address = Address
            other_addresses = Array[Address]
            _required = []
            _serialization_mapper = {"cold_camel": mappers.TO_CAMELCASE, "cold_lower": mappers.TO_LOWERCASE,
                                     "cold_dict": {"first_name": "fn", "lucky_numbers": "nums", "home_address": "addr"},
                                     "cold_nested_mappers": {"first_name": "name", "home_address": "home"}}[name]
        return Shape(name, Person, racy=False)
    if name == "mapper_struct":
        class Mq(Structure):
            a = Array[Integer(minimum=0)]
            b = Integer
            _required = []
            _serialization_mapper = {"a": "items", "b": "count"}
        return Shape(name, Mq, racy=True)
    if name == "nested_struct":
        class Inner(Structure):
            x = Integer(minimum=0)
            tags = Array[String]
            _required = ["x"]

        class Outer(Structure):
            a = Inner
            b = Array[Inner]
            m = Map[String, Inner]
            _required = []
        return Shape(name, Outer, racy=True)
    raise KeyError(name)


# "twin" shapes: the SAME declaration spelling written out freshly (source text) for two differently named fields x, y of
# one class and for field z of a second class.  Threads work on DIFFERENT declarations, so these are the conflict-free
# scenario of C20_partial / distinct_declarations_linearizable: any deviation from the sequential result is a violation
# (it means the library made different declarations share a Field object, or shares other scratch state).
TWINS = {   # key -> (how, right-hand side, value kind)
    "optional_field": ("ann", "typing.Optional[String]", "opt-str"),
    "optional_int": ("ann", "typing.Optional[int]", "opt-int"),
    "anyof_none": ("ann", "AnyOf[Integer, None]", "opt-int"),
    "anyof_none_assign": ("asg", "AnyOf[Integer(minimum=0), None]", "opt-int"),
    "anyof_three_none": ("asg", "AnyOf[Integer, String, None]", "opt-int-str"),
    "pep604_none": ("ann", "int | None", "opt-int"),
    "union_none": ("ann", "typing.Union[int, str, None]", "opt-int-str"),
    "optional_array": ("ann", "typing.Optional[Array[Integer]]", "opt-arr"),
    "list_of_optional": ("ann", "list[typing.Optional[int]]", "arr-opt"),
    "map_of_optional": ("ann", "dict[str, typing.Optional[int]]", "map-opt"),
    "anyof": ("asg", "AnyOf[Integer(minimum=0), String]", "int-str"),
    "allof": ("asg", "AllOf[Integer, Number(minimum=0)]", "int"),
    "array": ("asg", "Array[Integer(minimum=0)]", "arr"),
    "set": ("asg", "Set[Integer(minimum=0)]", "set"),
    "map": ("asg", "Map[Integer(minimum=0), Integer(minimum=0)]", "map"),
    "tuple": ("asg", "Tuple[Integer(minimum=0), Integer(minimum=0)]", "tup2"),
    "builtin_int": ("ann", "int", "int"),
}
# differently SPELLED optional fields side by side (the usual shape of a record class)
OPTMIX = [("p", "ann", "typing.Optional[String]", "opt-str"), ("q", "ann", "typing.Optional[Integer]", "opt-int"),
          ("r", "ann", "AnyOf[Integer, None]", "opt-int"), ("s", "ann", "int | None", "opt-int"),
          ("t", "asg", "AnyOf[Integer, String, None]", "opt-int-str")]
TWIN_MODEL = {"array": ("homog", True), "set": ("set",), "map": ("map",), "tuple": ("pos", 2)}


def _build_twin(name):
    from extract import field_aliases as FA
    ns = {}
    exec(FA.PRELUDE, ns)  # pylint: disable=exec-used
    if name == "twin_optmix":
        exec(FA._class_src("Tx", [(f, how, rhs) for f, how, rhs, _ in OPTMIX]), ns)  # pylint: disable=exec-used
        exec(FA._class_src("Tz", [("z", "ann", "typing.Optional[String]")]), ns)  # pylint: disable=exec-used
        vk = {f: k for f, _, _, k in OPTMIX}
        vk["z"] = "opt-str"
        return Shape(name, ns["Tx"], classes=[ns["Tx"], ns["Tz"]], extra={"vk": vk,
                     "roster": [(0, f) for f, _, _, _ in OPTMIX] + [(1, "z")]})
    key = name[len("twin_"):]
    how, rhs, kind = TWINS[key]
    exec(FA._class_src("Tx", [("x", how, rhs), ("y", how, rhs)]), ns)  # pylint: disable=exec-used
    exec(FA._class_src("Tz", [("z", how, rhs)]), ns)  # pylint: disable=exec-used
    model, cells = None, ()
    if key in TWIN_MODEL:
        model = {f: TWIN_MODEL[key] for f in "xyz"}
        objs = {f: getattr(ns["Tx" if f != "z" else "Tz"], f) for f in "xyz"}
        cells = [(f, list(o.items) if isinstance(o.items, (list, tuple)) else [o.items]) for f, o in objs.items()]
    return Shape(name, ns["Tx"], model, cells, classes=[ns["Tx"], ns["Tz"]],
                 extra={"vk": {f: kind for f in "xyz"}, "roster": [(0, "x"), (0, "y"), (1, "z")]})


def _stores_through(cls_name):
    """does <cls_name>.__set__ hand one of its options the REAL instance (`option.__set__(instance, value)` through an alias /
    an index: the translator's Sx events)?  Then the model's store-through program variant applies."""
    return any(r["func"] == f"{cls_name}.__set__" and r.get("events", {}).get("Sx") for r in ROWS)


WKIND = {"anyof": "anyOf", "notfield": "notField",
         "oneof": "oneOfThrough" if _stores_through("OneOf") else "oneOf",
         "allof": "allOfThrough" if _stores_through("AllOf") else "allOf"}
_SHAPES = {}


def run_shape(name):
    """the shape a schedule is run on: cold shapes get brand-new classes (nothing about them is cached anywhere yet)"""
    return _build_shape(name) if name.startswith("cold_") else shape(name)


def shape(name):
    if name not in _SHAPES:
        _SHAPES[name] = _build_twin(name) if name.startswith("twin_") else _build_shape(name)
    return _SHAPES[name]


SER_SHAPES = ["ser_map_date", "ser_map_enumkey", "ser_set_enum", "ser_set_date", "ser_tuple_date", "ser_pos_array_date",
              "ser_pos_deque_enum", "ser_array_date"]
ENUM_SHAPES = ["enum_scalar", "enum_anyof", "enum_map_value", "enum_tuple"]
COLD_SHAPES = ["cold_camel", "cold_lower", "cold_dict", "cold_nested_mappers"]
A_SHAPES = ["array_int", "deque_int", "tuple_homog", "array_two_fields", "set_int", "shared_set", "map_int",
            "shared_map", "pos_array", "pos_deque", "pos_tuple", "shared_pos_array", "shared_pos_deque",
            "shared_pos_tuple"]
# multi-field wrappers over scalar options and ImmutableSet: modelled since round 2 (stream A with INTEGER values only)
A2_SHAPES = ["anyof", "oneof", "allof", "notfield", "shared_anyof", "shared_oneof", "shared_allof", "shared_notfield",
             "immset", "shared_immset"]
# a multi-field wrapper as the single items object of a homogeneous Array (its own _name is the outer loop's scratch)
# (array_allof stays oracle-only: since fix 95931f6 AllOf reads its own name in two separate statements - load, then
# store - which the model's single `move` step cannot separate when that name is itself a scratch cell)
A3_SHAPES = ["array_anyof", "array_oneof", "array_notfield"]
E_SHAPES = ["shared_anyof", "shared_allof", "shared_oneof", "shared_notfield", "array_anyof", "array_oneof",
            "array_allof", "array_notfield", "array_set", "array_immset", "array_map", "array_array", "array_pos",
            "array_dequepos", "array_tuple", "immset", "shared_immset", "anyof", "oneof", "allof", "notfield",
            "nested_struct", "scalar"]
ALL_SHAPES = A_SHAPES + E_SHAPES + ["mapper_struct"]
TWIN_SHAPES = ["twin_" + k for k in TWINS] + ["twin_optmix"]
TWIN_A_SHAPES = ["twin_" + k for k in TWIN_MODEL]

# ------------------------------------------------------------------ value generation (JSON descriptions)


_BASE = [0]   # thread index: every thread draws its integers from its own range, so a foreign value is recognisable


def _int(rng, bad=0.2):
    t = _BASE[0]
    return -(10 * t + rng.randint(1, 9)) if rng.random() < bad else 100 * t + rng.randint(0, 99)


def ints_in(j, acc=None):
    acc = set() if acc is None else acc
    if isinstance(j, bool):
        return acc
    if isinstance(j, int):
        acc.add(j)
    elif isinstance(j, dict):
        for v in j.values():
            ints_in(v, acc)
    elif isinstance(j, (list, tuple)):
        for v in j:
            ints_in(v, acc)
    return acc


def gen_twin_value(rng, kind, bad):
    """explicit None, a valid value, or a value the earlier options reject (so that a later / the None option is consulted)"""
    if kind == "opt-str":
        return rng.choice([None, None, "s" + str(_BASE[0]), _int(rng, 0.0), 2.5])
    if kind == "opt-int":
        return rng.choice([None, None, _int(rng, bad), "s", 2.5])
    if kind == "opt-int-str":
        return rng.choice([None, None, _int(rng, bad), "s" + str(_BASE[0]), 2.5])
    if kind == "opt-arr":
        return rng.choice([None, {"l": [_int(rng, 0.0) for _ in range(rng.randint(1, 2))]}, "s", {"l": ["s"]}])
    if kind == "arr-opt":
        return {"l": [rng.choice([None, _int(rng, 0.0), "s"] if rng.random() < 0.3 else [None, _int(rng, 0.0)])
                      for _ in range(rng.randint(1, 3))]}
    if kind == "map-opt":
        return {"m": [[k, rng.choice([None, _int(rng, 0.0)])] for k in sorted({rng.choice("pqr") for _ in range(rng.randint(1, 2))})]}
    if kind == "int-str":
        return rng.choice([_int(rng, bad), "s" + str(_BASE[0]), 2.5, None])
    if kind == "int":
        return rng.choice([_int(rng, bad), "s", None])
    if kind == "arr":
        return {"l": [_int(rng, bad) for _ in range(rng.randint(1, 3))]}
    if kind == "set":
        return {"s": sorted({_int(rng, bad) for _ in range(rng.randint(1, 3))})}
    if kind == "map":
        return {"m": [[k, _int(rng, bad / 2)] for k in sorted({_int(rng, bad / 2) for _ in range(rng.randint(1, 2))})]}
    if kind == "tup2":
        return {"t": [_int(rng, bad), _int(rng, bad)]}
    raise KeyError(kind)


def _date(rng):
    return {"date": "2021-%02d-%02d" % (1 + _BASE[0], rng.randint(1, 28))}


def _enum(rng):
    return {"enum": rng.choice(["RED", "GREEN", "BLUE"])}


def gen_ser_value(rng, sname, field, bad):
    if field == "n":
        return _int(rng, 0.0)
    if sname == "ser_map_date":
        return {"m": [[k + str(_BASE[0]), _date(rng)] for k in sorted({rng.choice("pqr") for _ in range(rng.randint(1, 2))})]}
    if sname == "ser_map_enumkey":
        return {"m": [[{"enum": k}, {"datetime": "2021-%02d-%02dT01:02:03" % (1 + _BASE[0], rng.randint(1, 28))}]
                      for k in sorted({rng.choice(["RED", "GREEN", "BLUE"]) for _ in range(rng.randint(1, 2))})]}
    if sname == "ser_set_enum":
        return {"s": [{"enum": k} for k in sorted({rng.choice(["RED", "GREEN", "BLUE"]) for _ in range(rng.randint(1, 2))})]}
    if sname == "ser_set_date":
        return {"s": [{"date": d} for d in sorted({_date(rng)["date"] for _ in range(rng.randint(1, 2))})]}
    if sname == "ser_tuple_date":
        return {"t": [_date(rng), _int(rng, 0.0)]}
    if sname == "ser_pos_array_date":
        return {"l": [_date(rng), _int(rng, 0.0)]}
    if sname == "ser_pos_deque_enum":
        return {"q": [_enum(rng), _int(rng, 0.0)]}
    if sname == "ser_array_date":
        return {"l": [_date(rng) for _ in range(rng.randint(1, 3))]}
    raise KeyError(sname)


def gen_cold_value(rng, sname, field):
    def addr():
        return {"d": {"street_name": "st" + str(_BASE[0]), "zip_code": _int(rng, 0.0)}}
    if field == "first_name":
        return "nm" + str(_BASE[0])
    if field == "lucky_numbers":
        return {"l": [_int(rng, 0.0) for _ in range(rng.randint(1, 2))]}
    if field == "home_address":
        return addr()
    if field == "other_addresses":
        return {"l": [addr() for _ in range(rng.randint(1, 2))]}
    raise KeyError(field)


def gen_value(rng, sname, field, bad=0.2):
    """a JSON value description for `field` of shape `sname`"""
    if sname in ENUM_SHAPES:
        if field == "n":
            return _int(rng, 0.0)
        # every thread its OWN member (thread index picks it), given as the member or as its name
        name = ["RED", "GREEN", "BLUE"][_BASE[0] % 3]
        one = {"enum": name} if rng.random() < 0.5 else name
        return {"enum_scalar": one, "enum_anyof": one, "enum_map_value": {"m": [["k" + str(_BASE[0]), one]]},
                "enum_tuple": {"t": [one, _int(rng, 0.0)]}}[sname]
    if sname == "multi_nested":
        def cust(bad_p):
            return {"d": {"name": "" if rng.random() < bad_p else "c" + str(_BASE[0]), "age": _int(rng, bad_p)}}
        if field == "who":
            return rng.choice([cust(0.0), cust(0.5), "w" + str(_BASE[0]), 5])
        if field == "alt":
            return rng.choice([cust(0.0), cust(0.5), _int(rng, 0.0), "s"])
        if field == "x":
            return _int(rng, bad)
        return "" if rng.random() < bad else "yy" + str(_BASE[0])
    if sname == "shared_ref":
        return {"d": {"code": "C" + str(_BASE[0]), "digits": _int(rng, 0.0)}} if field in ("currency", "fallback") else _int(rng, 0.0)
    if sname == "shared_default":
        return {"name": "n" + str(_BASE[0]), "visits": _int(rng, 0.0)}[field]
    if sname == "fast_anyof":
        return rng.choice([_int(rng, 0.0), "s" + str(_BASE[0])])
    if sname == "unique_field":
        return "id%d" % rng.randint(0, 2) if field == "ssid" else _int(rng, 0.0)
    if sname == "warm_ser":
        # documents: everything as the strings / numbers a JSON document carries
        return {"day": lambda: "2024-%02d-%02d" % (rng.randint(1, 12), rng.randint(1, 28)),
                "at": lambda: "%02d/%02d/24 01:02:03" % (rng.randint(1, 12), rng.randint(1, 28)),
                "t": lambda: "%02d:%02d:00" % (rng.randint(0, 23), rng.randint(0, 59)),
                "amount": lambda: "%d.%02d" % (rng.randint(0, 99), rng.randint(0, 99)),
                "color": lambda: rng.choice(["RED", "GREEN", "BLUE"]),
                "n": lambda: _int(rng, 0.0)}[field]()
    if sname == "mapper_hist":
        return "nt" + str(_BASE[0]) if field == "note" else _int(rng, 0.0)
    if sname in SER_SHAPES:
        return gen_ser_value(rng, sname, field, bad)
    if sname in COLD_SHAPES:
        return gen_cold_value(rng, sname, field)
    if sname.startswith("twin_"):
        return gen_twin_value(rng, shape(sname).extra["vk"][field], bad)
    if sname == "scalar":
        return _int(rng, bad) if field == "a" else rng.choice(["x", "yz", "", 5])
    if sname in ("array_int", "array_two_fields"):
        return {"l": [_int(rng, bad) for _ in range(rng.randint(1, 3))]}
    if sname == "deque_int":
        return {"q": [_int(rng, bad) for _ in range(rng.randint(1, 3))]}
    if sname == "tuple_homog":
        return {"t": [_int(rng, bad) for _ in range(rng.randint(1, 3))]}
    if sname in ("set_int", "shared_set"):
        return {"s": sorted({_int(rng, bad) for _ in range(rng.randint(0, 3))})}
    if sname in ("immset", "shared_immset"):
        return {"fs": sorted({_int(rng, bad) for _ in range(rng.randint(0, 3))})}
    if sname in ("map_int", "shared_map"):
        ks = sorted({_int(rng, bad / 2) for _ in range(rng.randint(0, 3))})
        return {"m": [[k, _int(rng, bad / 2)] for k in ks]}
    if "pos_" in sname:
        tag = {"array": "l", "deque": "q", "tuple": "t"}[sname.rsplit("_", 1)[1]]
        return {tag: [_int(rng, bad), _int(rng, bad)]}
    if sname in ("anyof", "oneof", "shared_anyof", "shared_oneof"):
        return rng.choice([_int(rng, bad), "s", -3, 2.5])
    if sname in ("allof", "shared_allof"):
        return rng.choice([_int(rng, bad), -1, "s", 7])
    if sname == "notfield":
        return rng.choice([1, "s", 2])
    if sname == "shared_notfield":
        return rng.choice([-1, "s", 2, -5])
    if sname.startswith("array_"):
        inner = sname.split("_", 1)[1]
        n = rng.randint(1, 3)
        one = {
            "anyof": lambda: rng.choice([_int(rng, bad), "s"]),
            "oneof": lambda: rng.choice([_int(rng, bad), "s"]),
            "allof": lambda: _int(rng, bad),
            "notfield": lambda: rng.choice([1, "s", 2]),
            "set": lambda: {"s": sorted({_int(rng, bad / 2) for _ in range(rng.randint(0, 2))})},
            "immset": lambda: {"fs": sorted({_int(rng, bad / 2) for _ in range(rng.randint(0, 2))})},
            "map": lambda: {"m": [[k, _int(rng, bad / 2)] for k in sorted({rng.choice("pqr") for _ in range(rng.randint(0, 2))})]},
            "array": lambda: {"l": [_int(rng, bad / 2) for _ in range(rng.randint(0, 2))]},
            "pos": lambda: {"l": [_int(rng, bad / 2), "s"]},
            "dequepos": lambda: {"q": [_int(rng, bad / 2), "s"]},
            "tuple": lambda: {"t": [_int(rng, bad / 2), "s"]},
        }[inner]
        return {"l": [one() for _ in range(n)]}
    if sname == "mapper_struct":
        return {"l": [_int(rng, bad) for _ in range(rng.randint(1, 3))]} if field == "a" else _int(rng, 0.0)
    if sname == "nested_struct":
        def inner():
            return {"d": {"x": _int(rng, bad / 2), "tags": {"l": [rng.choice("uvw") for _ in range(rng.randint(0, 2))]}}}
        if field == "a":
            return inner()
        if field == "b":
            return {"l": [inner() for _ in range(rng.randint(1, 2))]}
        return {"m": [[k, inner()] for k in sorted({rng.choice("kl") for _ in range(rng.randint(1, 2))})]}
    raise KeyError(sname)


def fields_of(sname, cls=0):
    return sorted(shape(sname).classes[cls].get_all_fields_by_name())


def roster(sname):
    """the (class index, field) declarations of a shape"""
    sh = shape(sname)
    return sh.extra.get("roster") or [(0, f) for f in fields_of(sname)]


# ------------------------------------------------------------------ operations


def mk_typed(field, j):
    """like mk(), but a {"d": ...} description for a nested-class field becomes an instance of that class"""
    ty = getattr(field, "_ty", None)
    if isinstance(j, dict) and "d" in j and isinstance(ty, type) and issubclass(ty, Structure):
        fs = ty.get_all_fields_by_name()
        try:
            return ty(**{k: mk_typed(fs.get(k), v) for k, v in j["d"].items()})
        except Exception:       # an invalid nested value: hand the plain dict to the operation, which rejects it itself
            return mk(j)
    if isinstance(j, dict) and "l" in j and isinstance(getattr(field, "items", None), Field):
        return [mk_typed(field.items, x) for x in j["l"]]
    return mk(j)


def mk_kw(cls, kw):
    fs = cls.get_all_fields_by_name()
    return {k: mk_typed(fs.get(k), v) for k, v in kw.items()}


def reference_doc(case, th):
    """the document a `deserialize` thread is given when the case asks for the serialized image of its kwargs: produced by
    serializing a reference instance of a SEPARATE build of the shape (the classes under test stay cold)"""
    ref = _build_shape(case["shape"]) if case["shape"].startswith("cold_") else shape(case["shape"])
    try:
        rc = ref.classes[th.get("cls", 0)]
        return Serializer(rc(**mk_kw(rc, th["kw"]))).serialize()
    except Exception:
        return {k: plain(v) for k, v in th["kw"].items()}


def build_ops(case, sh=None):
    """per thread: a zero-argument callable (run under the scheduler); instances for setattr/serialize are pre-built"""
    sh = sh or shape(case["shape"])
    ops = []
    shared = {}
    for th in case["threads"]:
        op = th["op"]
        cls = sh.classes[th.get("cls", 0)]
        if op == "construct":
            kw = mk_kw(cls, th["kw"])
            ops.append(lambda kw=kw, cls=cls: cls(**{k: _copy(v) for k, v in kw.items()}))
        elif op == "deserialize":
            doc = reference_doc(case, th) if th.get("doc") == "serialized" else {k: plain(v) for k, v in th["kw"].items()}
            ops.append(lambda doc=doc, cls=cls: Deserializer(cls).deserialize(json.loads(json.dumps(doc)), keep_undefined=False))
        elif op == "setattr":
            inst = cls()
            f, v = th["field"], mk(th["value"])

            def do(inst=inst, f=f, v=v):
                setattr(inst, f, _copy(v))
                return getattr(inst, f)
            ops.append(do)
        elif op == "fieldser":
            fld, v = cls.__dict__[th["field"]], mk(th["value"])
            ops.append(lambda fld=fld, v=v: {"ser": fld.serialize(_copy(v))})
        elif op == "serialize":
            kw = mk_kw(cls, th["kw"])
            for f in case.get("share", []):      # every thread's instance refers to ONE nested instance
                if f in kw:
                    kw[f] = shared.setdefault(f, kw[f])
            try:
                inst = cls(**kw)
            except Exception:
                inst = cls()
            if th.get("fn"):        # the generic serialize() function, optionally with an ad-hoc mapper
                ops.append(lambda inst=inst, m=th.get("mapper"): {"ser": tp_serialize(inst, mapper=m) if m else tp_serialize(inst)})
            else:
                ops.append(lambda inst=inst: {"ser": Serializer(inst).serialize()})
        else:
            raise ValueError(op)
    return ops


def _copy(v):
    if isinstance(v, (list, set, dict, collections.deque)):
        return type(v)(v)
    return v


def reset_caches(sh):
    """put lazily filled caches back to their first-use state so that cache-filling races are exercised"""
    seen = set()

    def walk(f, top):
        if f is None or id(f) in seen or not isinstance(f, Field):
            return
        seen.add(id(f))
        if not top:
            f._name = None          # the state right after the class definition
        if getattr(f, "_serialize", None) is not None:
            f._serialize = None
        if isinstance(getattr(f, "_ALL_INSTANCES", None), dict):
            f._ALL_INSTANCES.clear()        # the uniqueness registry of an is_unique field: empty, as after the definition
        its = getattr(f, "items", None)
        for x in (its if isinstance(its, (list, tuple)) else [its]):
            walk(x, False)
        for x in getattr(f, "_fields", None) or []:
            walk(x, False)
        ty = getattr(f, "_ty", None)
        if isinstance(ty, type) and issubclass(ty, Structure):
            for g in ty.get_all_fields_by_name().values():
                walk(g, True)
    for c in sh.classes:
        for f in c.get_all_fields_by_name().values():
            walk(f, True)
    _m = sys.modules.get("typedpy.serialization.mappers")   # the module (the package exports an enum of that name)
    cache = getattr(_m, "aggregated_mapper_by_class", None)
    if isinstance(cache, dict):
        cache.clear()


# ------------------------------------------------------------------ the scheduler


class Run:
    """one execution of the thread operations under a schedule {"first": t, "pre": [[d, j], ...]}:
    thread `first` starts; the k-th pre-emption fires at the d-th yield point after the previous one and hands control
    to thread j; a thread that finishes hands control to the lowest-numbered unfinished thread."""

    def __init__(self, ops, sched, scope, cell_ids=None):
        self.ops = ops
        self.n = len(ops)
        self.cond = threading.Condition()
        self.current = sched["first"]
        self.pre = [tuple(p) for p in sched["pre"]]
        self.k = 0
        self.since = 0
        self.done = [False] * self.n
        self.results = [None] * self.n
        self.scope = scope            # "events" | "all"
        self.cell_ids = cell_ids or {}
        self.ylog = []                # per yield point: (tid, interesting?, alive others)
        self.fired = []               # global yield index at which each pre-emption fired
        self.events = []              # (tid, event string)
        self.writes = []              # (key, id(obj), value, tid)
        self.timeout = False
        self._codes = {}
        self._opmaps = {}

    # -- tracing
    def _in_scope(self, code):
        r = self._codes.get(code)
        if r is None:
            fn = code.co_filename
            if not fn.startswith(TP):
                r = 0
            elif self.scope == "all":
                r = 1
            elif self.scope == "fieldlines":
                # every line of the field implementations and of the generic __set__ / _validate / __setattr__ code
                r = 1 if (os.sep + "fields" + os.sep in fn or os.sep + "extfields" + os.sep in fn
                          or code.co_name in ("__set__", "_validate", "__setattr__", "deserialize", "serialize")
                          or "uniqueness" in code.co_name) else 0
            elif self.scope == "serlines":
                # the code that runs ON a shared SerializableField object: extfields/, every deserialize / serialize method
                r = 1 if (os.sep + "extfields" + os.sep in fn or code.co_name in ("deserialize", "serialize")
                          or (fn, code.co_firstlineno) in SITEFUNCS) else 0
            else:
                r = 1 if (fn, code.co_firstlineno) in SITEFUNCS else 0
            self._codes[code] = r
        return r

    def tracer(self, tid):
        evlines = EVLINES
        events_only = self.scope == "events"   # "sitelines": every line of a site function is a yield point
        opcodes = self.scope == "siteops"      # "siteops": additionally every bytecode of a site function that can touch
        hot = HOT_OPS                          # shared state (attribute / item / global access, calls) is a yield point

        last = [None, 0]

        def local(frame, event, arg):
            if event == "line":
                key = (frame.f_code.co_filename, frame.f_lineno)
                prev_frame, prev_line = last
                last[0], last[1] = frame, frame.f_lineno
                evs = evlines.get(key)
                if evs is not None and prev_frame is frame:
                    end = STMT_END.get(key)
                    if end is not None and key[1] < prev_line <= end:
                        evs = None      # back on the first line of a multi-line statement: not a new statement
                        if events_only:
                            return local
                if evs is None and events_only:
                    return local
                # bytecode mode: the events are logged at the very instruction that performs the access, not at the line
                self.yield_point(tid, frame, None if opcodes else evs)
            elif event == "opcode":
                code = frame.f_code
                evs = self._opmap(code).get(frame.f_lasti)
                if evs is not None or code.co_code[frame.f_lasti] in hot:
                    self.yield_point(tid, frame, evs)
            elif event == "return":
                last[0] = None
            return local

        def g(frame, event, arg):
            if not self._in_scope(frame.f_code):
                return None
            if opcodes:
                frame.f_trace_opcodes = True
            return local
        return g

    def _opmap(self, code):
        """instruction offset -> events, for the CALL / STORE instructions whose source span is an event node of the table"""
        m = self._opmaps.get(code)
        if m is None:
            m = {}
            evs = EVOPS.get((code.co_filename, code.co_firstlineno))
            if evs:
                for ins in _dis.get_instructions(code):
                    if ins.opname not in ("CALL", "CALL_FUNCTION_EX", "STORE_ATTR", "STORE_SUBSCR") or ins.positions is None:
                        continue
                    pos = (ins.positions.lineno, ins.positions.col_offset, ins.positions.end_lineno, ins.positions.end_col_offset)
                    for letter, span, tgt, val, key in evs:
                        if span == pos:
                            m.setdefault(ins.offset, []).append((0, letter, tgt, val, key))
            self._opmaps[code] = m
        return m

    def yield_point(self, tid, frame, evs):
        with self.cond:
            fn = frame.f_code.co_filename
            interesting = (evs is not None or (os.sep + "fields" + os.sep in fn) or (os.sep + "serialization" + os.sep in fn)
                           or frame.f_code.co_name in ("__set__", "_validate", "__get__"))
            self.ylog.append((tid, interesting, [j for j in range(self.n) if j != tid and not self.done[j]]))
            self.since += 1
            if self.k < len(self.pre) and self.since == self.pre[self.k][0]:
                j = self.pre[self.k][1]
                self.k += 1
                self.since = 0
                self.fired.append(len(self.ylog))
                if j != tid and j < self.n and not self.done[j]:
                    self.current = j
                    self.cond.notify_all()
            self._wait_turn(tid)
            if evs is not None:
                for _, letter, tgt, val, key in evs:
                    try:
                        if letter == "N":
                            self.events.append((tid, "N"))
                            continue
                        obj = eval(tgt, frame.f_globals, frame.f_locals)
                        c = self.cell_ids.get(id(obj), -1)
                        if letter == "s":
                            if c >= 0:
                                self.events.append((tid, f"S{c}"))
                            continue
                        if letter == "W":
                            v = eval(val, frame.f_globals, frame.f_locals)
                            self.events.append((tid, f"W{c}={v}"))
                            self.writes.append((key, id(obj), v, tid))
                        else:
                            self.events.append((tid, f"{letter}{c}"))
                    except Exception as e:  # the site's expressions no longer evaluate: the code changed shape
                        self.events.append((tid, f"?{letter}:{type(e).__name__}"))

    def _wait_turn(self, tid):
        """(holding the condition) block until it is this thread's turn.  A genuine dead stop - the running thread is
        blocked outside a yield point - shows as NO progress (no new yield point, no thread finished) over several
        consecutive waits; a stall of the whole process (machine load) does not count."""
        stale = 0
        while self.current != tid:
            seen = (len(self.ylog), sum(self.done))
            if self.cond.wait(5):
                stale = 0
                continue
            stale = stale + 1 if (len(self.ylog), sum(self.done)) == seen else 0
            if stale >= 4:
                self.timeout = True
                self.current = tid

    def body(self, tid):
        with self.cond:
            self._wait_turn(tid)
        sys.settrace(self.tracer(tid))
        try:
            r = outcome_of(self.ops[tid])
        finally:
            sys.settrace(None)
        with self.cond:
            self.results[tid] = r
            self.done[tid] = True
            for j in range(self.n):
                if not self.done[j]:
                    self.current = j
                    break
            self.cond.notify_all()

    def run(self):
        ts = [threading.Thread(target=self.body, args=(i,), daemon=True) for i in range(self.n)]
        for t in ts:
            t.start()
        for t in ts:
            t.join(60)
        if self.timeout or any(t.is_alive() for t in ts):
            import traceback
            frames = sys._current_frames()
            where = []
            for i, t in enumerate(ts):
                f = frames.get(t.ident)
                where.append(f"thread {i} alive={t.is_alive()} done={self.done[i]} at " +
                             (" <- ".join(f"{os.path.basename(fs.filename)}:{fs.lineno}:{fs.name}"
                                          for fs in reversed(traceback.extract_stack(f)[-6:])) if f else "-"))
            raise RuntimeError(f"scheduler timeout (thread blocked outside a yield point); current={self.current} "
                               f"yield points so far={len(self.ylog)}; " + "; ".join(where))
        return self

    def conflicts(self):
        """site keys at which two threads wrote DIFFERENT values into the same shared attribute"""
        by = {}
        for key, oid, v, tid in self.writes:
            by.setdefault(oid, []).append((key, v, tid))
        out = set()
        for ws in by.values():
            for k1, v1, t1 in ws:
                for k2, v2, t2 in ws:
                    if t1 != t2 and v1 != v2:
                        out.add(k1)
        return sorted(out)


def tracked_containers():
    """the module-level containers of the translator table (caches, registries): (path, name) -> live object"""
    out = {}
    by_file = {os.path.abspath(getattr(m, "__file__", None) or ""): m for m in list(sys.modules.values()) if m is not None}
    for r in ROWS:
        if r["target"] != "<module>":
            continue
        mod = by_file.get(os.path.abspath(os.path.join(SW.repo_dir(), r["path"])))
        obj = getattr(mod, r["attr"], None)
        if isinstance(obj, (dict, set, list)):
            out[(r["path"], r["attr"])] = obj
    return out


def _restore(conts, snap):
    for k, c in conts.items():
        if isinstance(c, list):
            c[:] = snap[k]
        else:
            c.clear()
            c.update(snap[k])


_HISTORY = {}


def warm_history(case):
    """a warm-up HISTORY before the scheduled operations: the plain serialization of every thread's instance, then
    serializations with many distinct ad-hoc mappers, which fill the process-wide caches.  If a tracked container ever
    shrinks while it is being filled (a bounded / evicting cache), the history is rebuilt so that the container sits at
    its peak size - the next new entry evicts.  The resulting container contents are snapshotted and restored before
    every schedule and every sequential order."""
    key = json.dumps(case, sort_keys=True)
    if key in _HISTORY:
        return _HISTORY[key]
    sh = shape(case["shape"])
    conts = tracked_containers()
    limit = case["warmup"]["adhoc"]
    warm = sh.cls()
    fname = fields_of(case["shape"])[-1]

    def plain():
        reset_caches(sh)
        for c in conts.values():
            c.clear() if not isinstance(c, list) else c.__delitem__(slice(None))
        for op in build_ops(case, sh):
            pass
        for th in case["threads"]:
            if th["op"] == "serialize" and not th.get("mapper"):
                try:
                    tp_serialize(sh.classes[th.get("cls", 0)](**mk_kw(sh.classes[th.get("cls", 0)], th["kw"])))
                except Exception:
                    pass

    def step(i):
        try:
            tp_serialize(warm, mapper={fname: f"w{i}"})
        except Exception:
            pass
    plain()
    sizes = {k: len(c) for k, c in conts.items()}
    peak = dict(sizes)
    shrunk = None
    for i in range(limit):
        step(i)
        for k, c in conts.items():
            if len(c) < sizes[k]:
                shrunk = k
            sizes[k] = len(c)
            peak[k] = max(peak[k], len(c))
        if shrunk:
            break
    if shrunk:
        plain()
        i = 0
        while len(conts[shrunk]) < peak[shrunk] and i < limit:
            step(i)
            i += 1
    snap = {k: (list(c) if isinstance(c, list) else type(c)(c)) for k, c in conts.items()}
    _HISTORY[key] = (conts, snap, {"evicting": list(shrunk) if shrunk else None,
                                   "sizes": {k[1]: len(v) for k, v in snap.items()}})
    return _HISTORY[key]


def get_modes():
    """the process-wide configuration flags"""
    m = {"fail_fast": Structure.failing_fast()}
    m.update({k: v for k, v in vars(TypedPyDefaults).items()
              if not k.startswith("_") and isinstance(v, (bool, int, str, type(None)))})
    return m


def set_modes(m):
    for k, v in m.items():
        if k == "fail_fast":
            Structure.set_fail_fast(v)
        else:
            setattr(TypedPyDefaults, k, v)


def run_history(case, sh):
    """operations that ran (sequentially, to completion) before the concurrent ones: whatever they left in shared objects"""
    if case.get("history"):
        for op in build_ops({"shape": case["shape"], "threads": case["history"]}, sh):
            outcome_of(op)


def run_schedule(case, sched, scope):
    for attempt in (0, 1):
        sh = run_shape(case["shape"])
        reset_caches(sh)
        run_history(case, sh)
        if case.get("warmup"):
            conts, snap, _ = warm_history(case)
            _restore(conts, snap)
        base = get_modes()
        try:
            set_modes(case.get("modes", {}))       # e.g. collect-all error mode for the whole schedule
            want = get_modes()
            ops = build_ops(case, sh)
            run = Run(ops, sched, scope, sh.cell_ids).run()
            # the operations must leave the process-wide configuration as they found it
            run.mode_dev = {k: v for k, v in get_modes().items() if want.get(k) != v}
            return run
        except RuntimeError:        # scheduler timeout: once is retried (infrastructure), twice is reported
            if attempt:
                raise
        finally:
            set_modes(base)


def sequential(case):
    """oracle: the operations run one after the other, in every order, each order from the fresh class state;
    returns (results with each operation run first = "alone", per thread the set of its results over all orders)"""
    import itertools
    n = len(case["threads"])
    alone = [None] * n
    allowed = [[] for _ in range(n)]
    vectors = []        # the result vector of every sequential order: a concurrent run must reproduce ONE of them as a whole
    for perm in itertools.permutations(range(n)):
        sh = run_shape(case["shape"])
        reset_caches(sh)
        run_history(case, sh)
        if case.get("warmup"):
            conts, snap, _ = warm_history(case)
            _restore(conts, snap)
        base = get_modes()
        set_modes(case.get("modes", {}))
        try:
            ops = build_ops(case, sh)
            outs = [(i, outcome_of(ops[i])) for i in perm]
        finally:
            set_modes(base)
        for pos, (i, r) in enumerate(outs):
            if pos == 0:
                alone[i] = r
            if r not in allowed[i]:
                allowed[i].append(r)
        vec = [r for _, r in sorted(outs, key=lambda x: x[0])]
        if vec not in vectors:
            vectors.append(vec)
    _VECTORS[id(allowed)] = vectors
    return alone, allowed


_VECTORS = {}


def enumerate_runs(case, scope, max_pre, cap, rng):
    """all schedules with <= max_pre pre-emptions (breadth first; a level larger than `cap` is subsampled)"""
    n = len(case["threads"])
    level = [{"first": f, "pre": []} for f in range(n)]
    runs = []
    for depth in range(max_pre + 1):
        nxt = []
        for sch in level:
            r = run_schedule(case, sch, scope)
            runs.append((sch, r))
            if depth < max_pre and len(r.fired) == len(sch["pre"]):
                start = r.fired[-1] if r.fired else 0
                for g in range(start + 1, len(r.ylog) + 1):
                    tid, _, alive = r.ylog[g - 1]
                    for j in alive:
                        nxt.append({"first": sch["first"], "pre": sch["pre"] + [[g - start, j]]})
        if len(nxt) > cap:
            nxt = rng.sample(nxt, cap)
        level = nxt
        if not level:
            break
    return runs


def sample_runs(case, max_pre, nsched, rng):
    """line-level schedules over all of typedpy: the non-preemptive orders plus `nsched` sampled schedules"""
    n = len(case["threads"])
    base = run_schedule(case, {"first": 0, "pre": []}, "all")
    runs = [({"first": 0, "pre": []}, base)]
    alone = {t: [i for (tid, i, _) in base.ylog if tid == t] for t in range(n)}
    for _ in range(nsched):
        first = rng.randrange(n)
        k = rng.randint(1, max_pre)
        pos = {t: 0 for t in range(n)}
        cur = first
        pre = []
        for _ in range(k):
            tr = alone[cur]
            rest = list(range(pos[cur] + 1, len(tr) + 1))
            if not rest:
                break
            hot = [p for p in rest if tr[p - 1]]
            p = rng.choice(hot) if hot and rng.random() < 0.8 else rng.choice(rest)
            j = rng.choice([t for t in range(n) if t != cur])
            pre.append([p - pos[cur], j])
            pos[cur] = p
            cur = j
        sch = {"first": first, "pre": pre}
        runs.append((sch, run_schedule(case, sch, "all")))
    return runs


# ------------------------------------------------------------------ dynamic probe: who writes shared Field objects?


def reachable_fields(sh):
    out, seen = [], set()

    def walk(f):
        if f is None or id(f) in seen or not isinstance(f, Field):
            return
        seen.add(id(f))
        out.append(f)
        its = getattr(f, "items", None)
        for x in (its if isinstance(its, (list, tuple)) else [its]):
            walk(x)
        for x in getattr(f, "_fields", None) or []:
            walk(x)
        ty = getattr(f, "_ty", None)
        if isinstance(ty, type) and issubclass(ty, Structure):
            for g in ty.get_all_fields_by_name().values():
                walk(g)
    for c in sh.classes:
        for f in c.get_all_fields_by_name().values():
            walk(f)
    return out


def probe_writers(case, wide=True):
    """run the operations of the case ONE AFTER THE OTHER under a line tracer and report every typedpy line after which the
    attribute dictionary of a Field object reachable from the classes had changed: [(relative path, function, line)].
    Independent of the translator: whatever idiom performs the write (setattr, assignment, __dict__, object.__setattr__,
    a container method), the change is seen."""
    sh = run_shape(case["shape"])
    reset_caches(sh)
    run_history(case, sh)
    objs = reachable_fields(sh)
    # besides the Field objects: the module-level containers of every typedpy module and the attributes of the classes
    # involved (the Structure classes of the shape, their typedpy bases, the classes of their fields)
    conts = []
    for mname, mod in sorted(sys.modules.items()) if wide else []:
        if mod is not None and (mname == "typedpy" or mname.startswith("typedpy.")):
            for var, v in sorted(vars(mod).items()):
                if isinstance(v, (dict, list, set)) and not var.startswith("__"):
                    conts.append(v)
    klasses = []
    for c in sh.classes if wide else []:
        for b in c.__mro__:
            if b is not object and b not in klasses and (b.__module__ or "").startswith(("typedpy", __name__.split(".")[0])) or b is c:
                klasses.append(b)
    for o in objs if wide else []:
        for b in type(o).__mro__:
            if b is not object and b not in klasses and (b.__module__ or "").startswith("typedpy"):
                klasses.append(b)

    def atom(v):
        if isinstance(v, (str, int, float, bool, type(None))):
            return v
        if isinstance(v, (dict, list, set)):
            return (id(v), len(v))
        return id(v)

    def digest():
        return ([sorted((k, atom(v)) for k, v in vars(o).items()) for o in objs],
                [(id(v), len(v)) for v in conts],
                [[(k, atom(v)) for k, v in vars(b).items()] for b in klasses])
    state = {"d": digest(), "prev": None}
    writers = set()

    def local(frame, event, arg):
        if event in ("line", "return"):
            d = digest()
            if d != state["d"]:
                if state["prev"]:
                    writers.add(state["prev"])
                state["d"] = d
            if event == "line":
                state["prev"] = (os.path.relpath(frame.f_code.co_filename, REPO), frame.f_code.co_name, frame.f_lineno)
        return local

    def g(frame, event, arg):
        return local if frame.f_code.co_filename.startswith(TP) else None
    base = get_modes()
    set_modes(case.get("modes", {}))
    try:
        ops = build_ops(case, sh)
        sys.settrace(g)
        try:
            for op in ops:
                outcome_of(op)
        finally:
            sys.settrace(None)
    finally:
        set_modes(base)
    return sorted(writers)


_PROBED_SHAPES = set()


def untabled_writers(writers):
    """dynamic writers that no row of the shared-write table covers (same file, same function, line inside it)"""
    out = []
    for path, func, line in writers:
        if not any(r["path"] == path and r["func"].split(".")[-1] == func and
                   r.get("first_line", 0) <= line <= r.get("last_line", 10 ** 9) for r in ROWS):
            out.append([path, func, line])
    return out


# ------------------------------------------------------------------ model side


def model_call(sh, th):
    """the validation call of this thread as the Lean model sees it (stream A: one collection field per thread)"""
    if th["op"] == "setattr":
        f, v = th["field"], th["value"]
    else:
        (f, v), = th["kw"].items()
    kind = sh.model[f]
    cells = sh.cells[f]

    def el(x):
        return [x, isinstance(x, int) and not isinstance(x, bool) and x >= 0]
    if kind[0] == "homog":
        xs = v.get("l", v.get("q", v.get("t")))
        return {"k": "homog", "cell": cells[0], "name": f, "initW": kind[1], "elems": [el(x) for x in xs]}
    if kind[0] in ("set", "iset"):
        order = list(mk(v))   # iteration order of the real set
        return {"k": kind[0], "cell": cells[0], "name": f, "elems": [el(x) for x in order]}
    if kind[0] == "nest":
        owner = sh.classes[th.get("cls", 0)].__dict__[f].items
        xs = v["l"]
        return {"k": "nest", "cell": cells[0], "name": f, "kind": kind[1],
                "elems": [[x, [[c, _accepts(o, x)] for c, o in zip(cells[1:], owner._fields)]] for x in xs]}
    if kind[0] == "wrap":
        owner = sh.classes[th.get("cls", 0)].__dict__[f]
        return {"k": "wrap", "kind": kind[1], "name": f, "v": v, "opts": [[c, _accepts(o, v)] for c, o in zip(cells, owner._fields)]}
    if kind[0] == "map":
        return {"k": "map", "kc": cells[0], "vc": cells[1], "name": f, "entries": [[el(k), el(x)] for k, x in v["m"]]}
    if kind[0] == "pos":
        xs = v.get("l", v.get("q", v.get("t")))
        return {"k": "pos", "base": cells[0], "name": f, "n": kind[1], "elems": [el(x) for x in xs]}
    raise KeyError(kind)


def _accepts(option, v):
    """does the option field accept the value (decided on a scratch structure, as the wrappers do)"""
    try:
        option.__set__(Structure(), v)
        return True
    except (TypeError, ValueError):
        return False


def real_as_model(sh, th, res):
    """abstract a real thread outcome to the model's outcome vocabulary"""
    if "err" in res:
        if res["err"] == "AttributeError":
            return {"missing": res["field"]}
        if res["err"] == "KeyError":
            m = re.search(r"'([^']*)'\"?$", res["msg"])
            return {"missing": m.group(1) if m else res["msg"]}
        if res["err"] in ("TypeError", "ValueError"):
            return {"invalid": res["field"]}
        return {"other": res["err"]}
    v = res["ok"]
    if th["op"] != "setattr":
        f = list(th["kw"])[0]
        v = v["fields"][f]
    else:
        f = th["field"]
    kind = sh.model[f][0]
    if kind in ("homog", "pos", "nest"):
        return {"ok": list(v.get("l", v.get("q", v.get("t"))))}
    if kind == "set":
        return {"okset": sorted(v["s"])}
    if kind == "iset":
        return {"okset": sorted(v["fs"])}
    if kind == "wrap":
        return {"ok": [v]}
    if kind == "map":
        return {"okmap": [[k, x] for k, x in v["m"]]}
    raise KeyError(kind)


def model_as_canon(sh, th, mo):
    if mo is None or "ok" not in mo:
        return mo
    f = th["field"] if th["op"] == "setattr" else list(th["kw"])[0]
    kind = sh.model[f][0]
    if kind in ("set", "iset"):
        return {"okset": sorted(set(mo["ok"]))}
    if kind == "map":
        d = {}
        xs = mo["ok"]
        for i in range(0, len(xs) - 1, 2):
            d[xs[i + 1]] = xs[i]          # the model emits value, key per entry
        return {"okmap": [[k, x] for k, x in d.items()]}
    return mo


# ------------------------------------------------------------------ suite interface


def run_impl(case):
    rng = random.Random(case["sseed"])
    seq, allowed = sequential(case)
    vectors = _VECTORS.pop(id(allowed))
    stream = case["stream"]
    if stream in ("A", "E"):
        runs = enumerate_runs(case, case.get("yield", "events"), case["max_pre"], case["cap"], rng)
    else:
        runs = sample_runs(case, case["max_pre"], case["nsched"], rng)
    distinct = {}
    nonseq = 0
    for sch, r in runs:
        bad = [i for i in range(len(seq)) if r.results[i] not in allowed[i]]
        joint = not bad and r.results not in vectors     # every thread explainable, but by DIFFERENT sequential orders
        if joint:
            bad = list(range(len(seq)))
        nonseq += 1 if bad else 0
        msched = [tid for tid, _ in r.events] if stream == "A" else None
        mode_dev = getattr(r, "mode_dev", None) or None
        k = json.dumps([msched, r.results], sort_keys=True) if stream == "A" else json.dumps([r.results, r.conflicts(), mode_dev], sort_keys=True)
        if k not in distinct:
            per_thread = [[e for t, e in r.events if t == i] for i in range(len(seq))] if stream == "A" else None
            distinct[k] = {"sched": sch, "res": r.results, "bad": bad, "joint": joint, "conflicts": r.conflicts(), "mode": mode_dev,
                           "msched": msched, "events": per_thread, "count": 0,
                           "wsites": sorted({(r.cell_ids.get(oid, -1), key) for key, oid, _, _ in r.writes}) if stream == "A" else None}
        distinct[k]["count"] += 1
    # the dynamic probe runs for every stream-A case and once per shape (and operation mix) for the other streams
    pkey = (case["shape"], tuple(sorted(th["op"] for th in case["threads"])), json.dumps(case.get("modes", {}), sort_keys=True))
    gaps = []
    if stream == "A":
        gaps = untabled_writers(probe_writers(case, wide=False))
    elif pkey not in _PROBED_SHAPES:
        _PROBED_SHAPES.add(pkey)
        # wide probe (module-level containers and class attributes too): every first occurrence in the thorough tier, a
        # third of them in the quick tier
        gaps = untabled_writers(probe_writers(case, wide=case.get("probe") == "wide"))
    return {"seq": seq, "allowed": allowed, "vectors": vectors, "runs": len(runs), "nonseq": nonseq,
            "outcomes": list(distinct.values()), "untabled": gaps}


def line(case, impl):
    l = {"suite": "sched", "calls": [], "schedules": []}
    if case["stream"] == "A" and "outcomes" in impl:
        sh = shape(case["shape"])
        l["calls"] = [model_call(sh, th) for th in case["threads"]]
        l["sites"] = [[c, k] for c, ks in sorted(sh.sites.items()) for k in sorted(ks)]
        l["schedules"] = [o["msched"] for o in impl["outcomes"]]
    return l


def correspondence(case, impl, model):
    if impl.get("untabled"):
        # the tie between the translator and the code: a write to a shared Field object that the AST scan did not list
        return ("shared Field object written at " + ", ".join(f"{p}:{l} ({f})" for p, f, l in impl["untabled"]) +
                " but the shared-write table has no row for that function (translator gap: the model would treat the "
                "object as private)")
    if case["stream"] != "A":
        return None
    sh = shape(case["shape"])
    ths = case["threads"]
    for i, th in enumerate(ths):
        want = model_as_canon(sh, th, model["seq"][i])
        got = real_as_model(sh, th, impl["seq"][i])
        if want != got:
            return f"sequential result of thread {i}: model {want} real {got}"
    if (model.get("conflictFree") or model.get("sameValue")) and impl.get("nonseq"):
        return ("the programs satisfy the hypotheses of a linearizability theorem (conflict free / same-value writes), but "
                f"{impl['nonseq']} schedules of the real code were not sequential")
    for o, mrun in zip(impl["outcomes"], model["runs"]):
        for c, key in o.get("wsites") or []:
            if c >= 0 and key not in sh.sites.get(c, ()):
                return (f"Field object (cell {c}) was renamed at site {key} but the model attributes it to "
                        f"{sorted(sh.sites.get(c, ()))} (schedule {json.dumps(o['sched'])})")
        for i, th in enumerate(ths):
            steps = [s for s in model["progs"][i] if s != "E"]
            ev = o["events"][i]
            # a write whose value is read from another cell at that moment is spelled W<c>=@<source> by the model
            ev = [e.split("=")[0] + "=@" + st.split("=@")[1] if "=@" in st and e.startswith("W") else e
                  for e, st in zip(ev, steps + [""] * len(ev))]
            if ev != steps[:len(ev)]:
                return (f"thread {i} performed events {ev} but its model program is {steps} "
                        f"(schedule {json.dumps(o['sched'])})")
            want = model_as_canon(sh, th, mrun[i])
            got = real_as_model(sh, th, o["res"][i])
            if want != got:
                return (f"schedule {json.dumps(o['sched'])} (events {o['msched']}): thread {i} model {want} real {got}")
    return None


def thread_fields(th):
    return {th["field"]} if th["op"] in ("setattr", "fieldser") else set(th["kw"])


def case_racy(case):
    """may the threads of this case write DIFFERENT values into one shared cell? (then a deviation is attributed to the
    known racy site at which the conflicting writes were observed)"""
    if case["shape"] == "array_two_fields":   # homogeneous arrays with private item objects: racy iff a field is shared
        fs = [thread_fields(th) for th in case["threads"]]
        return any(fs[i] & fs[j] for i in range(len(fs)) for j in range(i + 1, len(fs)))
    return shape(case["shape"]).racy


def oracle(case, impl):
    """every thread's result must equal its sequential result"""
    fails = []
    seen = set()
    for o in impl.get("outcomes", []):
        if o.get("mode"):
            key = f"mode-flag-changed:{case['shape']}"
            if key not in seen:
                seen.add(key)
                fails.append((key, f"shape {case['shape']} threads {json.dumps(case['threads'])} schedule "
                                   f"{json.dumps(o['sched'])}: process-wide configuration after the operations differs from "
                                   f"before: {json.dumps(o['mode'])}"))
        for i, th in enumerate(case["threads"]):
            r = o["res"][i]
            own = ints_in(th)
            for f in case.get("share", []):     # a deliberately shared nested instance belongs to every owner
                own |= ints_in(case["threads"][0]["kw"].get(f))
            if "ok" in r and not ints_in(r["ok"]) <= own:
                key = f"foreign-value:{case['shape']}"
                if key not in seen:
                    seen.add(key)
                    fails.append((key, f"shape {case['shape']} threads {json.dumps(case['threads'])} schedule "
                                       f"{json.dumps(o['sched'])}: the instance of thread {i} contains a value that is "
                                       f"not in its own input: {json.dumps(r['ok'])[:200]}"))
        if not o["bad"]:
            continue
        i = o["bad"][0]
        th = case["threads"][i]
        got = o["res"][i]
        if o.get("joint"):
            # each thread's result occurs in SOME sequential order, but no single order produces all of them together
            # (e.g. two operations that both behave as if they had been first)
            def stripped(vec):
                return [dict(r, msg=_strip_names(r["msg"]), field=None) if "err" in r else r for r in vec]
            only_names = stripped(o["res"]) in [stripped(v) for v in impl.get("vectors", [])]
            j = next((j for j, r in enumerate(o["res"]) if "err" in r and r != impl["seq"][j]), i)
            key = (f"residual-name-in-message:{case['threads'][j]['op']}" if only_names else
                   shape(case["shape"]).extra.get("joint_key") or f"no-common-order:{case['shape']}")
            if key not in seen:
                seen.add(key)
                fails.append((key, f"shape {case['shape']} threads {json.dumps(case['threads'])} schedule "
                                   f"{json.dumps(o['sched'])}: results {json.dumps(o['res'])[:300]} occur in sequential orders, "
                                   f"but in no single one together (sequential result vectors: {json.dumps(impl.get('vectors'))[:300]})"))
            continue
        if (not o["conflicts"] and "err" in got
                and any("err" in a and a["err"] == got["err"] and _strip_names(a["msg"]) == _strip_names(got["msg"])
                        for a in impl["allowed"][i])):
            # right exception, right text, but a field name embedded in the text is the residue of another operation:
            # the code read a shared `_name` it had not written (e.g. deserializer calling item._validate())
            keys = [f"residual-name-in-message:{th['op']}"]
        else:
            # shapes whose threads only ever write EQUAL values into a shared cell (same field, private item objects)
            # must be sequential: there a deviation is never attributed to a known racy site
            keys = (o["conflicts"] if case_racy(case) else []) or [f"nonsequential:{case['shape']}:{th['op']}"]
        for key in keys:
            if key in seen:
                continue
            seen.add(key)
            fails.append((key, f"shape {case['shape']} threads {json.dumps(case['threads'])} schedule "
                               f"{json.dumps(o['sched'])} ({'event' if case['stream'] != 'B' else 'line'}-level yield points): "
                               f"thread {i} got {json.dumps(o['res'][i])[:200]} but alone it gives "
                               f"{json.dumps(impl['seq'][i])[:200]}"))
    return fails


def tags(case, impl, model):
    t = [f"stream:{case['stream']}", f"shape:{case['shape']}", f"threads:{len(case['threads'])}"]
    t += [f"op:{th['op']}" for th in case["threads"]]
    if case["stream"] == "A" and isinstance(model, dict) and "conflictFree" in model:
        t.append("theorem:" + ("conflict-free (C20_partial / private copies)" if model["conflictFree"] else
                               "same-value-writes" if model.get("sameValue") else "none (racy: counter-schedules)"))
    if "outcomes" in impl:
        t.append("case:nonsequential-seen" if impl["nonseq"] else "case:all-sequential")
        t.append("seq:" + "+".join(sorted("ok" if "ok" in s else s["err"] for s in impl["seq"])))
        n = impl["runs"]
        t.append("schedules-per-case:" + ("<50" if n < 50 else "<200" if n < 200 else "<1000" if n < 1000 else ">=1000"))
        for o in impl["outcomes"]:
            for i in o["bad"]:
                r = o["res"][i]
                t.append("deviation:" + ("wrong-value" if "ok" in r and "ok" in impl["seq"][i] else
                                         "spurious-" + r.get("err", "ok") if "ok" in impl["seq"][i] else
                                         "wrong-field-named" if "err" in r else "missed-error"))
    return t


def nontrivial(case):
    return len(case["threads"]) >= 2 and case["shape"] != "scalar"


def describe(case, impl, model):
    return {"shape": case["shape"], "stream": case["stream"], "threads": case["threads"],
            "schedules_run": impl.get("runs"), "distinct_outcomes": len(impl.get("outcomes", [])),
            "nonsequential_schedules": impl.get("nonseq"), "sequential": impl.get("seq")}


# ------------------------------------------------------------------ case generation


def gen_thread(rng, sname, stream, field=None, tid=0, cls=0):
    th = _gen_thread(rng, sname, stream, field, tid, cls)
    if cls:
        th["cls"] = cls
    return th


def _gen_thread(rng, sname, stream, field, tid, cls):
    _BASE[0] = tid
    fs = fields_of(sname, cls)
    f = field or rng.choice(fs)
    if stream in ("A", "E"):
        op = rng.choice(["setattr", "construct"])
    else:
        op = rng.choice(["setattr", "construct", "deserialize", "serialize", "construct"])
    if stream == "A" and sname in A3_SHAPES:
        v = {"l": [_int(rng, 0.25) for _ in range(rng.randint(1, 3))]}
        return {"op": op, "field": f, "value": v} if op == "setattr" else {"op": op, "kw": {f: v}}
    if stream == "A" and sname in A2_SHAPES and shape(sname).model[f][0] == "wrap":
        # the model's values are integers: valid (>= 0) / rejected by the Integer(minimum=0) / Number(minimum=0) options
        v = _int(rng, 0.35)
        return {"op": op, "field": f, "value": v} if op == "setattr" else {"op": op, "kw": {f: v}}
    if op == "setattr":
        return {"op": op, "field": f, "value": gen_value(rng, sname, f)}
    if op == "serialize":
        return {"op": op, "kw": {g: gen_value(rng, sname, g, bad=0.0) for g in fs
                                 if g == f or (rng.random() < 0.5 and not sname.startswith("twin_"))}}
    if stream == "A" or sname.startswith("twin_"):
        return {"op": op, "kw": {f: gen_value(rng, sname, f)}}     # one declaration per thread
    return {"op": op, "kw": {g: gen_value(rng, sname, g) for g in fs if g == f or rng.random() < 0.5}}


def pick_fields(rng, sname, n):
    """which field each thread works on: shared-item shapes need different fields, same-field shapes the same"""
    fs = fields_of(sname)
    if sname.startswith("shared_") or sname == "array_two_fields":
        return [fs[i % len(fs)] for i in range(n)]
    return [rng.choice(fs) if sname in ("scalar", "nested_struct", "mapper_struct") else fs[0] for _ in range(n)]


CANONICAL = [
    ("array_int", {"l": [10]}, {"l": [20, 21, 22]}),
    ("array_int", {"l": [-1]}, {"l": [20, 21, 22]}),
    ("deque_int", {"q": [10]}, {"q": [20, 21, 22]}),
    ("tuple_homog", {"t": [10]}, {"t": [20, 21, 22]}),
    ("shared_set", {"s": [1]}, {"s": [2]}),
    ("shared_map", {"m": [[1, 2]]}, {"m": [[3, 4]]}),
    ("shared_pos_array", {"l": [1, 2]}, {"l": [3, 4]}),
    ("shared_pos_deque", {"q": [1, 2]}, {"q": [3, 4]}),
    ("shared_pos_tuple", {"t": [1, 2]}, {"t": [3, 4]}),
    ("array_two_fields", {"l": [10]}, {"l": [20, 21]}),
    ("shared_anyof", 5, 7),
    ("shared_allof", -1, 7),
    ("shared_immset", {"fs": [1, 2]}, {"fs": [3]}),
    ("array_oneof", {"l": [-4]}, {"l": [7]}),
    ("array_notfield", {"l": [10]}, {"l": [20, 21, 22]}),
]


CANONICAL_B = [
    ("mapper_struct", ["serialize", "serialize"]),
    ("mapper_struct", ["serialize", "deserialize"]),
    ("array_int", ["serialize", "serialize"]),
    ("array_set", ["serialize", "serialize"]),
    ("scalar", ["setattr", "setattr"]),
    ("scalar", ["construct", "construct"]),
    ("anyof", ["setattr", "setattr"]),
    ("oneof", ["setattr", "construct"]),
    ("nested_struct", ["construct", "deserialize"]),
    ("nested_struct", ["serialize", "serialize"]),
]

CANONICAL_E = [
    ("shared_immset", {"fs": [1, 2]}, {"fs": [3]}),
]


def gen_cases(rng, tier, scale=1.0):
    quick = tier == "quick"
    cases = []

    def add(stream, sname, n, **kw):
        if sname == "array_two_fields":
            n = 2           # one thread per field: the shape is the conflict-free (C20_partial) scenario
        fl = pick_fields(rng, sname, n)
        ths = [gen_thread(rng, sname, stream, fl[i], i) for i in range(n)]
        c = {"stream": stream, "shape": sname, "threads": ths, "sseed": rng.randrange(1 << 30)}
        c.update(kw)
        cases.append(c)

    max_pre = 2 if quick else 3
    reps_a = max(1, int((2 if quick else 4) * scale))
    # the inputs of the kernel-checked counter-schedule theorems of Props/C20.lean, replayed on the real code
    for sname, v0, v1 in CANONICAL:
        fl = pick_fields(rng, sname, 2)
        cases.append({"stream": "A", "shape": sname, "sseed": 1, "max_pre": 2, "cap": 400,
                      "threads": [{"op": "setattr", "field": fl[0], "value": v0},
                                  {"op": "setattr", "field": fl[1], "value": v1}]})
    for sname in A_SHAPES:
        for _ in range(reps_a if (not quick or shape(sname).racy) else 1):
            add("A", sname, 2, max_pre=max_pre, cap=120 if quick else 650)
        if sname in ("array_int", "shared_set", "map_int") or not quick:
            add("A", sname, 3, max_pre=2, cap=120 if quick else 600)
    for sname in A2_SHAPES:
        for _ in range(1 if quick else reps_a):
            add("A", sname, 2, max_pre=max_pre, cap=100 if quick else 500)
        if not quick:
            add("A", sname, 3, max_pre=2, cap=400)
    # the same correspondence at BYTECODE granularity: yield points = every attribute / item / call instruction of the site
    # functions, events logged at the very CALL / STORE instruction that performs the shared access (so the two loads of
    # Map's read-back statement, or a load and a store inside one statement, can be separated)
    flat_canon = [c for c in CANONICAL if c[0] not in A3_SHAPES]   # own-name reads are line-level events only
    for sname, v0, v1 in (rng.sample(flat_canon, 4) if quick else flat_canon):
        fl = pick_fields(rng, sname, 2)
        cases.append({"stream": "A", "shape": sname, "sseed": 1, "max_pre": 1 if quick else 2, "cap": 120 if quick else 300,
                      "yield": "siteops",
                      "threads": [{"op": "setattr", "field": fl[0], "value": v0},
                                  {"op": "setattr", "field": fl[1], "value": v1}]})
    for sname in (rng.sample(A_SHAPES + A2_SHAPES, 2) if quick else A_SHAPES + A2_SHAPES):
        add("A", sname, 2, max_pre=1 if quick else 2, cap=120 if quick else 150, **{"yield": "siteops"})
    for sname in A3_SHAPES:
        for _ in range(1 if quick else reps_a):
            add("A", sname, 2, max_pre=max_pre, cap=100 if quick else 500)
    for sname, v0, v1 in CANONICAL_E:
        fl = pick_fields(rng, sname, 2)
        cases.append({"stream": "E", "shape": sname, "sseed": 1, "max_pre": 2, "cap": 400, "yield": "sitelines",
                      "threads": [{"op": "setattr", "field": fl[0], "value": v0},
                                  {"op": "setattr", "field": fl[1], "value": v1}]})
    reps_e = max(1, int((1 if quick else 3) * scale))
    for sname in (rng.sample(E_SHAPES, 10) if quick else E_SHAPES):
        for _ in range(reps_e):
            flat = sname in ("anyof", "oneof", "allof", "notfield") or sname.startswith("shared_")
            add("E", sname, 2, max_pre=max_pre, cap=100 if quick else 320, **({"yield": "sitelines"} if flat else {}))
    # twin declarations: every thread on a DIFFERENT declaration (other field / other class) of the same spelling
    def add_twin(stream, sname, n, directed=None, **kw):
        decls = roster(sname)
        picks = rng.sample(decls, min(n, len(decls)))
        ths = []
        for i, (ci, f) in enumerate(picks):
            th = gen_thread(rng, sname, stream, f, i, ci)
            if directed is not None and th["op"] in ("setattr", "construct"):
                _BASE[0] = i
                v = directed[i % len(directed)]
                v = gen_value(rng, sname, f) if v == "any" else v
                if th["op"] == "setattr":
                    th["value"] = v
                else:
                    th["kw"] = {f: v}
            ths.append(th)
        c = {"stream": stream, "shape": sname, "threads": ths, "sseed": rng.randrange(1 << 30)}
        c.update(kw)
        cases.append(c)

    for sname in TWIN_SHAPES:
        flat = sname not in ("twin_list_of_optional", "twin_map_of_optional", "twin_optional_array")
        ykw = {"yield": "sitelines"} if flat else {}
        vk = set(shape(sname).extra["vk"].values())
        if any(k.startswith("opt-") for k in vk):
            # directed: one thread passes an explicit None, the other None / a value the earlier options reject
            add_twin("E", sname, 2, directed=[None, None], max_pre=2, cap=60 if quick else 250, **ykw)
            if not quick or rng.random() < 0.5:
                add_twin("E", sname, 2, directed=[None, 2.5], max_pre=2, cap=60 if quick else 250, **ykw)
        for _ in range(max(1, int((1 if quick else 2) * scale)) if (not quick or rng.random() < 0.5) else 0):
            add_twin("E", sname, 2, max_pre=max_pre, cap=60 if quick else 250, **ykw)
        if not quick and any(k.startswith("opt-") for k in vk):
            add_twin("E", sname, 3, max_pre=2, cap=200, **ykw)
    for sname in TWIN_A_SHAPES:
        for _ in range(max(1, int((1 if quick else 2) * scale))):
            add_twin("A", sname, 2, max_pre=max_pre, cap=100 if quick else 400)
    for sname in (rng.sample(TWIN_SHAPES, 4) if quick else TWIN_SHAPES):
        add_twin("B", sname, 2, max_pre=max_pre, nsched=20 if quick else 30)
    # SerializableField items in collections: a constructing / assigning thread against a deserializing one (the
    # deserializer's pre-pass works on the same shared item Field objects), all on the same field
    def add_ops(stream, sname, ops, **kw):
        ths = []
        for i, op in enumerate(ops):
            _BASE[0] = i
            fs = fields_of(sname)
            if op == "setattr":
                ths.append({"op": op, "field": "a" if "a" in fs else fs[0], "value": gen_value(rng, sname, "a" if "a" in fs else fs[0])})
            else:
                kws = {g: gen_value(rng, sname, g, bad=0.0) for g in fs if g == "a" or rng.random() < 0.7}
                if sname in COLD_SHAPES:
                    # the homogeneous-array fields are dealt out to the threads (no two threads validate the same
                    # Array field: the known extract_field_value race is not in play, these shapes must be sequential)
                    arrays = [g for g in fs if g in ("lucky_numbers", "other_addresses")]
                    kws = {g: v for g, v in kws.items() if g not in arrays or arrays.index(g) % len(ops) == i}
                th = {"op": op, "kw": kws}
                if op == "deserialize":
                    th["doc"] = "serialized"
                ths.append(th)
        c = {"stream": stream, "shape": sname, "threads": ths, "sseed": rng.randrange(1 << 30)}
        c.update(kw)
        cases.append(c)

    for sname in SER_SHAPES:
        add_ops("E", sname, ["construct", "deserialize"], max_pre=2, cap=80 if quick else 300)
        if not quick or rng.random() < 0.5:
            add_ops("E", sname, [rng.choice(["setattr", "construct", "deserialize"]) for _ in range(2)], max_pre=max_pre,
                    cap=60 if quick else 300)
        if not quick:
            add_ops("E", sname, ["deserialize", "deserialize", "construct"], max_pre=2, cap=200)
    for sname in (rng.sample(SER_SHAPES, 3) if quick else SER_SHAPES):
        add_ops("B", sname, [rng.choice(["construct", "deserialize", "serialize", "setattr"]) for _ in range(2)],
                max_pre=max_pre, nsched=20 if quick else 40)
    # classes with mappers from a COLD start (fresh classes for every schedule): first (de)serializations race
    cold_e = rng.sample(COLD_SHAPES, 2) if quick else COLD_SHAPES
    for sname in COLD_SHAPES:
        mixes = [["deserialize", "deserialize"]] if quick else \
            [["deserialize", "deserialize"], ["serialize", "deserialize"], ["serialize", "serialize"],
             ["construct", "deserialize"], ["deserialize", "serialize", "deserialize"]]
        for ops in mixes:
            add_ops("B", sname, ops, max_pre=max_pre, nsched=15 if quick else 35)
        if sname in cold_e:
            # exhaustively at every line of the functions that fill a module-level cache (translator rows); the
            # serialization and the deserialization side have separate caches: same-direction pairs
            add_ops("E", sname, ["deserialize", "deserialize"], max_pre=1 if quick else 2, cap=400 if quick else 200, **{"yield": "sitelines"})
            add_ops("E", sname, ["serialize", "serialize"], max_pre=1 if quick else 2, cap=400 if quick else 200, **{"yield": "sitelines"})
    # Enum fields: every thread a DIFFERENT member (as member or by name); exhaustive single pre-emption at EVERY line of
    # the field implementations / generic __set__, _validate (table independent) + line-level sampling
    for sname in ENUM_SHAPES:
        add_ops("E", sname, [rng.choice(["setattr", "construct"]) for _ in range(2)], max_pre=1 if quick else 2,
                cap=100 if quick else 300, **{"yield": "fieldlines"})
        if not quick or rng.random() < 0.5:
            add_ops("B", sname, [rng.choice(["setattr", "construct", "deserialize"]) for _ in range(3 if not quick else 2)],
                    max_pre=max_pre, nsched=20 if quick else 40)
    # the same exhaustive every-field-line stream on a few of the other flat shapes
    # (racy shapes included: there the schedules do NOT depend on what the translator found, so a shared write it missed
    # still produces a failing input)
    for sname in rng.sample(["scalar", "anyof", "oneof", "allof", "notfield", "set_int", "map_int", "pos_tuple",
                             "twin_optional_field", "twin_anyof_none", "ser_set_date", "ser_map_date"], 2 if quick else 8) + \
            rng.sample(["array_int", "deque_int", "tuple_homog", "shared_set", "shared_map", "shared_pos_array",
                        "shared_pos_tuple", "shared_anyof", "shared_allof", "shared_immset"], 2 if quick else 10):
        if sname.startswith("twin_"):
            add_twin("E", sname, 2, max_pre=1, cap=200, **{"yield": "fieldlines"})
        else:
            add("E", sname, 2, max_pre=1, cap=120 if quick else 200, **{"yield": "fieldlines"})
    # collect-all error mode for the whole schedule: a deserializing thread (multi-field wrapper with a nested-structure
    # option) against a constructing thread whose input has several invalid fields; exception class and full message are
    # compared with the sequential result, and the process-wide mode flags must be what they were
    for modes in ({"fail_fast": False}, {}):
        for stream in ("B", "E"):
            _BASE[0] = 0
            a = {"op": "deserialize", "kw": {"who": {"d": {"name": "c0", "age": _int(rng, 0.3)}}, "alt": gen_value(rng, "multi_nested", "alt"),
                                             "x": _int(rng, 0.0)}}
            _BASE[0] = 1
            b = {"op": rng.choice(["construct", "construct", "deserialize"]), "kw": {"x": -(10 + rng.randint(1, 9)), "y": "",
                                                                                    "who": gen_value(rng, "multi_nested", "who")}}
            c = {"stream": stream, "shape": "multi_nested", "threads": [a, b], "modes": modes, "sseed": rng.randrange(1 << 30),
                 "max_pre": 1 if (quick or stream == "E") else max_pre}
            c.update({"cap": 200, "yield": "sitelines"} if stream == "E" else {"nsched": 25 if quick else 80})
            if stream == "B" or modes:
                cases.append(c)
    if not quick:
        for _ in range(4):
            add("B", "multi_nested", 2, max_pre=max_pre, nsched=40, modes={"fail_fast": False})
    # two top-level instances that SHARE a nested Structure instance, serialized through the generic serialize() path
    def add_shared(stream, sname, share, n=2, **kw):
        ths = []
        for i in range(n):
            _BASE[0] = i
            fs = [g for g in fields_of(sname) if g != "address"]
            ths.append({"op": "serialize", "fn": True, "kw": {g: gen_value(rng, sname, g, bad=0.0) for g in fs}})
        c = {"stream": stream, "shape": sname, "threads": ths, "share": share, "sseed": rng.randrange(1 << 30)}
        c.update(kw)
        cases.append(c)

    for sname, share in (("shared_ref", ["currency"]), ("shared_ref", ["currency", "fallback"]), ("shared_default", [])):
        add_shared("B", sname, share, max_pre=max_pre, nsched=20 if quick else 50)
        if not quick:
            add_shared("B", sname, share, n=3, max_pre=max_pre, nsched=40)
        add_shared("E", sname, share, max_pre=1 if quick else 2, cap=200, **{"yield": "sitelines"})
    # a warm-up history that fills the process-wide caches (many ad-hoc mappers), then a cached serialization against one
    # with a not-yet-cached ad-hoc mapper; exhaustive at every line of the cache functions + line-level sampling
    for stream in ("E", "B"):
        ths = []
        for i in range(2):
            _BASE[0] = i
            th = {"op": "serialize", "fn": True, "kw": {g: gen_value(rng, "mapper_hist", g, bad=0.0) for g in fields_of("mapper_hist")}}
            if i == 1:
                th["mapper"] = {"total": "adhoc" + str(rng.randrange(1000))}
            ths.append(th)
        c = {"stream": stream, "shape": "mapper_hist", "threads": ths, "warmup": {"adhoc": 300 if quick else 1100},
             "sseed": rng.randrange(1 << 30), "max_pre": 1 if (quick or stream == "E") else max_pre}
        c.update({"cap": 300, "yield": "sitelines"} if stream == "E" else {"nsched": 20 if quick else 80})
        cases.append(c)
    # fixed operation mixes (values still random): cold-cache serialization races, scalar assignment, wrappers
    for sname, ops in CANONICAL_B:
        ths = []
        for i, op in enumerate(ops):
            _BASE[0] = i
            fs = fields_of(sname)
            if op == "setattr":
                ths.append({"op": op, "field": fs[0], "value": gen_value(rng, sname, fs[0], bad=0.1)})
            else:
                ths.append({"op": op, "kw": {g: gen_value(rng, sname, g, bad=0.0 if op == "serialize" else 0.1) for g in fs}})
        cases.append({"stream": "B", "shape": sname, "threads": ths, "sseed": rng.randrange(1 << 30),
                      "max_pre": max_pre, "nsched": 30 if quick else 100})
    # scalar SerializableFields (DateField / DateTime / TimeField / DecimalNumber / Enum): both threads handle EQUAL inputs
    # (the records of one day) after a HISTORY in which the same fields handled other values; exhaustive single
    # pre-emption at every line of extfields/ and of every deserialize / serialize method
    for k in range(3 if quick else 10):
        fs = [f for f in fields_of("warm_ser") if f != "n"]
        pick = rng.sample(fs, 3 if quick else rng.randint(1, 4))
        _BASE[0] = 0
        same = {f: gen_value(rng, "warm_ser", f) for f in pick}
        hist = {f: gen_value(rng, "warm_ser", f) for f in pick}
        ths = []
        for i in range(2):
            _BASE[0] = i
            op = rng.choice(["construct", "deserialize"])
            ths.append({"op": op, "kw": dict(same, n=_int(rng, 0.0))})
        cases.append({"stream": "E", "shape": "warm_ser", "threads": ths, "sseed": rng.randrange(1 << 30), "max_pre": 1,
                      "cap": 400, "yield": "serlines",
                      "history": [{"op": rng.choice(["construct", "deserialize"]), "kw": dict(hist, n=0)}]})
    # <field>.serialize(value) against assignment on a class whose AnyOf fields share an option
    for k in range(1 if quick else 3):
        _BASE[0] = 0
        t0 = {"op": "setattr", "field": rng.choice("ab"), "value": _int(rng, 0.0)}
        _BASE[0] = 1
        t1 = {"op": "fieldser", "field": "b" if t0["field"] == "a" else "a", "value": gen_value(rng, "fast_anyof", "a")}
        cases.append({"stream": "E", "shape": "fast_anyof", "threads": [t0, t1], "sseed": rng.randrange(1 << 30), "max_pre": 1 if quick else 2,
                      "cap": 200, "yield": "sitelines"})
    # is_unique fields with the uniqueness feature switched on: EQUAL (and different) values in the threads; every line of
    # the field implementations and of the registry functions is a yield point (independent of the table); the result
    # VECTOR must be that of one sequential order
    for k in range(1 if quick else 4):
        ths = []
        same = "id%d" % rng.randint(0, 2)
        for i in range(2 if k < 3 else 3):
            _BASE[0] = i
            ths.append({"op": rng.choice(["construct", "deserialize"]),
                        "kw": {"ssid": same if (k % 2 == 0 or i == 0) else "other%d" % i, "n": _int(rng, 0.0)}})
        cases.append({"stream": "E", "shape": "unique_field", "threads": ths, "sseed": rng.randrange(1 << 30), "max_pre": 1,
                      "cap": 120 if quick else 300, "yield": "fieldlines", "modes": {"uniqueness_features_enabled": True}})
    # BYTECODE-level pre-emption inside the functions of the shared-write table (CPython's real granularity): every
    # attribute / item / global access and call of a site function is a yield point; exhaustive for one pre-emption
    # (quick) / two (thorough); oracle only
    ops_shapes = [x for x in A_SHAPES + A2_SHAPES if shape(x).racy or x in ("array_two_fields", "anyof", "immset")]
    for sname in (rng.sample(ops_shapes, 3) if quick else ops_shapes):
        add("E", sname, 2, max_pre=1 if quick else 2, cap=150 if quick else 200, **{"yield": "siteops"})
    for sname in (rng.sample(COLD_SHAPES, 1) if quick else COLD_SHAPES):
        for ops in ([["deserialize", "deserialize"]] if quick else [["deserialize", "deserialize"], ["serialize", "serialize"]]):
            add_ops("E", sname, ops, max_pre=1, cap=400, **{"yield": "siteops"})
    reps_b = max(1, int((1 if quick else 4) * scale))
    for sname in (rng.sample(ALL_SHAPES, 11) if quick else ALL_SHAPES):
        for _ in range(reps_b):
            add("B", sname, 3 if rng.random() < 0.2 else 2, max_pre=max_pre, nsched=20 if quick else 35)
    prng = random.Random(len(cases))     # own generator: the probes do not shift the case stream
    for c in cases:
        if c["stream"] != "A" and (not quick or prng.random() < 0.3):
            c["probe"] = "wide"
    return cases
