"""
Suite `derive`: histories that end in compositions of the derivation operators
(Partial / AllFieldsRequired / Extend / Omit / Pick, `Structure.omit/pick`), optionally extended
further by subclassing.  Shares the history runner, dumps and observations with suite `define`
(harness/suites/define.py); the Lean side is `Sem/Derive.deriveClass` + `Spec/FieldSet`.
"""
from .define import (gen_derive_cases as gen_cases, run_impl, line, tags, nontrivial, describe,  # noqa: F401
                     correspondence)
