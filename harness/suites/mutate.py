"""
Suite `mutate`: (class declaration, start kwargs, history of mutation operations) run on a real
instance and on `Sem/Mutate.step` with the regenerated wrapper table.  After every operation
(failed ones included) the instance is snapshotted.  Serves C03, C04 (and C11/C19 variants).
"""
import collections
import json

from .. import dump, gen
from . import construct as C
from . import formats
from .. import formats as doc_formats

ALLOWED_ERRORS = ("TypeError", "ValueError", "InvalidStructureErr", "IndexError", "KeyError")


class HookRefusedAssertion(AssertionError):
    """what a generated __validate__ hook raises when the case says it refuses with an AssertionError"""


class HookRefusedKey(KeyError):
    """... with a KeyError"""


def err_name(e):
    from typedpy.commons import InvalidStructureErr
    if isinstance(e, (HookRefusedAssertion, HookRefusedKey)):
        # the hook's own refusal, whatever class the hook chose: the machine says ValueError for "the hook refused"; the
        # error-class clause is about field-level rejections, atomicity must hold for every class (state comparison)
        return "ValueError"
    if isinstance(e, InvalidStructureErr):
        return "InvalidStructureErr"
    for cls in (IndexError, KeyError, TypeError, ValueError):
        if isinstance(e, cls):
            return cls.__name__
    return type(e).__name__


def table():
    """mutators per wrapper kind, from the same extractor that generates the Lean table"""
    from extract import wrappers
    rows, _ = wrappers.analyse()
    out = collections.defaultdict(list)
    for kind, m, _f in rows:
        out[kind].append(m)
    return out


def wrapper_kind(fd):
    k = fd["k"]
    if k == "anyOf":
        # a collection held through AnyOf / Optional: the wrapper is built by the option that holds the value
        # (generated with exactly one collection option)
        kinds = [wrapper_kind(x) for x in fd["fields"] if wrapper_kind(x)]
        return kinds[0] if len(kinds) == 1 else None
    if k in ("seqAny", "seqOf", "seqPos"):
        return "deque" if fd.get("seq") == "deque" else "list"
    if k in ("mapAny", "mapOf"):
        return "dict"
    return None


def coll_option(fd):
    """the collection option of an AnyOf-held collection (else fd itself)"""
    if fd["k"] == "anyOf":
        return next((x for x in fd["fields"] if wrapper_kind(x)), fd)
    return fd


def elem_decl(fd, i=0):
    k = fd["k"]
    if k == "seqOf":
        return fd["item"]
    if k == "seqPos":
        return fd["items"][i] if 0 <= i < len(fd["items"]) else None
    if k == "mapOf":
        return fd["val"]
    return None


# ------------------------------------------------------------------ generation

def gen_collection_decl(rng, dg, depth=0):
    """collection-heavy declarations: typed and untyped Array/Deque/Map, nested typed wrappers"""
    r = rng.random()
    scalar = lambda: dg.scalar(rng.choice(["integer", "integer", "string", "float", "boolean", "enumCls", "number"]))
    if r < 0.45:
        item = scalar() if depth >= 1 or rng.random() < 0.6 else gen_collection_decl(rng, dg, depth + 1)
        d = dg.size_opts({"k": "seqOf", "item": item})
        if rng.random() < 0.3:
            d["seq"] = "deque"
        return d
    if r < 0.6:
        d = {"k": "seqPos", "items": [scalar() for _ in range(rng.randint(1, 3))]}
        if rng.random() < 0.5:
            d["addl"] = False
        if rng.random() < 0.3:
            d["seq"] = "deque"
        return d
    if r < 0.7:
        d = dg.size_opts({"k": "seqAny"})
        if rng.random() < 0.3:
            d["seq"] = "deque"
        return d
    if r < 0.92:
        val = scalar() if depth >= 1 or rng.random() < 0.6 else gen_collection_decl(rng, dg, depth + 1)
        key = dg.scalar(rng.choice(["string", "integer", "enumCls"]))
        return dg.size_opts({"k": "mapOf", "key": key, "val": val}, uniq=False)
    return dg.size_opts({"k": "mapAny"}, uniq=False)


def gen_args(rng, vg, kind, m, fd, start_val):
    """argument tuple (wire values) for mutator m of a wrapper of declaration fd"""
    ed = lambda i=0: elem_decl(fd, i)

    def elem(i=0, p_valid=0.65):
        d = ed(i)
        if d is None or rng.random() > p_valid:
            return rng.choice(vg.confusion()[:20])
        v = vg.valid(d)
        return rng.choice([1, "x"]) if v is gen.NOVALUE else v

    def existing():
        xs = (start_val or {}).get("l") or (start_val or {}).get("q") or []
        return rng.choice(xs) if xs and rng.random() < 0.7 else elem()

    idx = lambda: rng.choice([0, 0, 1, -1, 2, 5, -7])
    if kind in ("list", "deque"):
        if m == "__setitem__":
            i = idx()
            return [i, elem(i if i >= 0 else 0)]
        if m == "__delitem__":
            return [idx()]
        if m in ("append", "appendleft"):
            return [elem()]
        if m in ("extend", "extendleft", "__iadd__"):
            return [{"l": [elem() for _ in range(rng.randint(0, 2))]}]
        if m == "insert":
            return [idx(), elem()]
        if m == "remove":
            return [existing()]
        if m == "pop":
            return [] if kind == "deque" or rng.random() < 0.5 else [idx()]
        if m in ("popleft", "clear", "sort", "reverse"):
            return []
        if m == "rotate":
            return [rng.choice([0, 1, -1, 2])]
        if m == "__imul__":
            return [rng.choice([0, 1, 2])]
    if kind == "dict":
        keys = [kv[0] for kv in (start_val or {}).get("m", [])]

        def key(p_existing=0.5):
            if keys and rng.random() < p_existing:
                return rng.choice(keys)
            if fd["k"] == "mapOf" and rng.random() < 0.8:
                v = vg.valid(fd["key"])
                return "kx" if v is gen.NOVALUE else v
            return rng.choice(["zz", 7, None, {"t": [1]}])
        if m == "__setitem__":
            return [key(), elem()]
        if m == "__delitem__":
            return [key(0.7)]
        if m in ("update", "__ior__"):
            return [{"m": [[key(0.3), elem()] for _ in range(rng.randint(0, 2))]}]
        if m == "pop":
            return [key(0.7)] if rng.random() < 0.6 else [key(0.4), elem()]
        if m in ("popitem", "clear"):
            return []
        if m == "setdefault":
            return [key(0.4), elem()]
    return None


def cur_names(fields):
    return {n for n, _ in fields}


def hookable(fd):
    """field kinds whose stored values compare with == the way the model's pyEq does"""
    return fd["k"] in ("integer", "number", "float", "string", "boolean", "enumLit", "enumCls", "seqAny", "seqOf", "seqPos",
                       "mapAny", "mapOf", "tupleOf", "tuplePos") and "struct" not in json.dumps(fd)


def _head_is_min(v):
    xs = list(v) if isinstance(v, (list, collections.deque)) else None
    if not xs or not all(isinstance(e, int) and not isinstance(e, bool) for e in xs):
        return True
    return all(xs[0] <= e for e in xs[1:])


def install_hook(cls, hooks, ctx, need=None, exc=None, head_min=None):
    """hooks: [[f, v]] - the hook raises when field f holds v; need: [[f1, f2, ..]] - it raises unless, for every
    group, at least one field of the group holds a value (set and not None)"""
    loaded = [(f, dump.load_value(v, ctx)) for f, v in hooks]
    need = need or []
    head_min = head_min or []
    Refuse = {"assertion": HookRefusedAssertion, "key": HookRefusedKey}.get(exc, ValueError)

    def __validate__(self):
        for f, v in loaded:
            if f in self.__dict__ and self.__dict__[f] == v:
                raise Refuse(f"{f}: rejected by __validate__")
        for group in need:
            if all(self.__dict__.get(f) is None for f in group):
                raise Refuse(f"{group[0]}: rejected by __validate__ (one of {group} is needed)")
        for f in head_min:       # an invariant on the ORDER of the elements: the first one is the smallest
            if not _head_is_min(self.__dict__.get(f)):
                raise Refuse(f"{f}: rejected by __validate__ (the first element must be the smallest)")
    cls.__validate__ = __validate__


def immhook_cases():
    """directed: a MUTABLE class with a __validate__ hook and optional fields declared immutable (write-once) that are
    unset at the start - the first assignment after construction must run the hook like any other assignment"""
    cases = []
    fields = [["a", {"k": "integer"}], ["b", {"k": "string"}], ["c", {"k": "seqOf", "item": {"k": "integer"}}],
              ["m", {"k": "mapOf", "key": {"k": "string"}, "val": {"k": "integer"}}], ["d", {"k": "integer"}]]
    hooked = {"a": 99, "b": "bad", "c": {"l": [3, 4]}, "m": {"m": [["k", 7]]}, "d": 13}
    fine = {"a": 2, "b": "ok", "c": {"l": [1]}, "m": {"m": [["z", 1]]}, "d": 5}
    ci = 0
    for imm in (["a"], ["b"], ["c"], ["a", "b", "c"], ["c", "m"], []):
        cls = {"k": "struct", "name": f"IH{ci}", "required": ["d"], "addl": False, "fields": fields, "immFields": imm}
        ci += 1
        C.fix_accepts(cls)
        for target in (imm or ["a", "c"]):
            ops = [{"op": "setattr", "f": target, "v": hooked[target]},      # refused by the hook: stays unset
                   {"op": "setattr", "f": "d", "v": fine["d"]},                # the instance is still usable
                   {"op": "setattr", "f": target, "v": fine[target]},          # first accepted assignment
                   {"op": "setattr", "f": target, "v": hooked[target]},        # now set (write-once) / refused by the hook
                   {"op": "setattr", "f": "d", "v": hooked["d"]}]
            kw = [["d", 1]]
            case = {"suite": "mutate", "cls": cls, "kw": kw, "ops": ops, "hook": [[k, v] for k, v in hooked.items()]}
            case["re"] = gen.re_table(cls, kw, ops)
            cases.append(case)
    return cases


def gen_cases(rng, tier, n_classes, immutable=None):
    tbl = table()
    max_len = 6 if tier == "quick" else 20
    cases = []
    for ci in range(n_classes):
        dg = gen.DeclGen(rng, max_depth=2)
        vg = gen.ValGen(rng)
        n = rng.randint(1, 3)
        names = rng.sample(["a", "b", "c", "d"], n)
        fields = []
        for nm in names:
            fd = gen_collection_decl(rng, dg) if rng.random() < 0.75 else dg.decl(1)
            if wrapper_kind(fd) and fd["k"] != "anyOf" and rng.random() < 0.18:
                other = rng.choice([{"k": "noneF"}, {"k": "string"}, {"k": "integer"}, {"k": "boolean"}])
                fd = {"k": "anyOf", "fields": [fd, other] if rng.random() < 0.6 else [other, fd]}
            fields.append([nm, fd])
        imm_cls = immutable is True or (immutable is None and rng.random() < 0.15)
        cls = {"k": "struct", "name": f"M{ci}", "required": sorted(nm for nm in names if rng.random() < 0.5),
               "addl": rng.random() < 0.4, "fields": fields}
        if rng.random() < 0.2:
            cls["ignoreNone"] = True
        if imm_cls:
            cls["immutable"] = True
        elif immutable is not False and rng.random() < 0.25:
            cand = [nm for nm, fd in fields if (wrapper_kind(fd) and fd["k"] != "anyOf") or fd["k"] in ("integer", "string")
                    and fd.get("sign", "any") == "any"]
            if cand:
                cls["immFields"] = sorted(rng.sample(cand, rng.randint(1, len(cand))))
        C.fix_accepts(cls)
        for _ in range(3):
            kw = None
            for _try in range(4):
                kw = vg.valid_kw(cls)
                if kw is not gen.NOVALUE:
                    break
            if kw is gen.NOVALUE or kw is None:
                continue
            # make sure most collection fields are present
            have = {k for k, _ in kw}
            for nm, fd in fields:
                if nm not in have and rng.random() < 0.7:
                    v = vg.valid(fd)
                    if v is not gen.NOVALUE:
                        kw.append([nm, v])
            cur = dict((k, v) for k, v in kw)
            ops = []
            for _ in range(rng.randint(1, max_len)):
                nm, fd = rng.choice(fields)
                r = rng.random()
                kind = wrapper_kind(fd)
                if kind and r < 0.62 and nm in cur:
                    m = rng.choice(tbl[kind])
                    args = gen_args(rng, vg, kind, m, coll_option(fd), cur.get(nm) if isinstance(cur.get(nm), dict) else None)
                    if args is not None:
                        ops.append({"op": "call", "f": nm, "m": m, "args": args})
                        continue
                if kind and r < 0.75 and nm in cur and fd["k"] != "anyOf":
                    ed = elem_decl(fd)
                    nk = wrapper_kind(ed) if ed else None
                    if nk:
                        m = rng.choice(tbl[nk])
                        if kind == "dict":
                            ks = [kv[0] for kv in cur[nm].get("m", [])]
                            k = rng.choice(ks) if ks else "nokey"
                            inner = next((kv[1] for kv in cur[nm].get("m", []) if kv[0] == k), None)
                        else:
                            xs = cur[nm].get("l") or cur[nm].get("q") or []
                            k = rng.randrange(len(xs)) if xs else 0
                            inner = xs[k] if xs else None
                        args = gen_args(rng, vg, nk, m, ed, inner)
                        if args is not None:
                            ops.append({"op": "callNested", "f": nm, "k": k, "m": m, "args": args})
                            continue
                if r < 0.9:
                    q = rng.random()
                    if q < 0.55:
                        v = vg.valid(fd)
                        v = None if v is gen.NOVALUE else v
                    elif q < 0.85:
                        v = rng.choice(vg.confusion())
                    else:
                        v = None
                    target = nm if rng.random() < 0.9 else "zz_new"
                    ops.append({"op": "setattr", "f": target, "v": v})
                else:
                    ops.append({"op": "delitem", "f": nm if rng.random() < 0.85 else "nofield"})
            case = {"suite": "mutate", "cls": cls, "kw": kw, "ops": ops}
            # a class-level __validate__ hook that raises when field f == v, for values the history
            # actually tries to establish (and that the start state does not hold)
            if not imm_cls and rng.random() < 0.35:
                hooks = []
                for op in ops:
                    if op["op"] == "setattr" and op["f"] in cur_names(fields) and op["v"] is not None and rng.random() < 0.5 \
                            and hookable(dict(fields)[op["f"]]) and not any(gen.wire_eq(op["v"], kv[1]) for kv in kw if kv[0] == op["f"]):
                        hooks.append([op["f"], op["v"]])
                for nm, fd in fields:
                    if hookable(fd) and rng.random() < 0.3:
                        v = vg.valid(fd)
                        if v is not gen.NOVALUE and v is not None and not any(gen.wire_eq(v, kv[1]) for kv in kw if kv[0] == nm):
                            hooks.append([nm, v])
                if hooks:
                    case["hook"] = hooks[:4]
            case["re"] = gen.re_table(cls, kw, ops)
            cases.append(case)
    return cases


def gen_ext_call(rng, vg, tbl, kind, fd, cur_val):
    """one extended mutator call (m, args, extra keys) for a wrapper of kind `kind` declared by fd: slice assignment /
    deletion, sort(key=, reverse=), or any table mutator"""
    r = rng.random()
    ob = lambda: rng.choice([None, None, 0, 1, 2, -1, -2, 5, -7])
    if kind != "dict" and r < 0.3:
        step = rng.choice([None, None, None, 1, 2, -1, -2, 0])
        ed = elem_decl(fd)
        vals = []
        for _ in range(rng.choice([0, 1, 1, 2, 3])):
            v = vg.valid(ed) if ed is not None and rng.random() < 0.7 else rng.choice(vg.confusion()[:20])
            vals.append(rng.choice([1, "x"]) if v is gen.NOVALUE else v)
        return "__setitem__", [{"l": vals}], {"slice": [ob(), ob(), step]}
    if kind != "dict" and r < 0.5:
        return "__delitem__", [], {"slice": [ob(), ob(), rng.choice([None, None, 1, 2, -1, -3, 0])]}
    if kind != "dict" and r < 0.7:
        return "sort", [rng.choice(["", "neg", "abs", "const"]), rng.random() < 0.5], {}
    m = rng.choice(tbl[kind])
    args = gen_args(rng, vg, kind, m, fd, cur_val if isinstance(cur_val, dict) else None)
    return (m, args, {}) if args is not None else None


def gen_cases_ext(rng, tier, n_classes, immutable=False):
    """histories over the same classes as gen_cases, extended with slice arguments, sort(key=, reverse=), wrapper
    references kept across operations (`take` / `callRef`: possibly stale by the time they are used) and the same on
    nested wrappers; drawn from its own generator so that gen_cases' stream is untouched"""
    tbl = table()
    out = []
    for case in gen_cases(rng, tier, n_classes, immutable=immutable):
        vg = gen.ValGen(rng)
        fields = case["cls"]["fields"]
        cur = dict((k, v) for k, v in case["kw"])
        wrapped = [(nm, fd) for nm, fd in fields if wrapper_kind(fd)]
        if not wrapped:
            continue
        ops, taken = [], []
        # format-checking string fields (DateString, TimeString, IPV4, HostName, JSONString): on the wire a String whose
        # pattern is a synthetic token; the model's regex oracle is answered for it by suites/formats.py
        fmt_ops = []
        if rng.random() < 0.45:
            case = dict(case, cls=json.loads(json.dumps(case["cls"])), kw=list(case["kw"]))
            fields = case["cls"]["fields"]
            zd = gen.DeclGen(rng).xstring()       # SizedString / IPV4 / HostName / DateString(format) / TimeString / JSONString
            good = [v for v in (vg.valid(zd) for _ in range(6)) if v is not gen.NOVALUE]
            good += [v for v in formats.POOL + ["", "a", "ab"] if vg.guess_str_ok(zd, v)][:4]
            if not good:
                zd = {"k": "string", "fmt": "time"}
                good = ["10:20:30", "1:2:3"]
            fields.append(["z", zd])
            fields.append(["y", {"k": "seqOf", "item": zd}])
            if rng.random() < 0.5:
                case["cls"]["required"] = sorted(case["cls"]["required"] + ["z"])
                case["kw"].append(["z", rng.choice(good)])
            elif rng.random() < 0.6:
                case["kw"].append(["z", rng.choice(good)])
            if rng.random() < 0.7:
                case["kw"].append(["y", {"l": [rng.choice(good) for _ in range(rng.randint(0, 2))]}])
            C.fix_accepts(case["cls"])
            pick = lambda: rng.choice(good) if rng.random() < 0.4 else rng.choice(formats.POOL + [5, None, True, {"l": []}])
            for _ in range(rng.randint(2, 5)):
                q = rng.random()
                if q < 0.5:
                    fmt_ops.append({"op": "setattr", "f": "z", "v": pick()})
                elif q < 0.6:
                    fmt_ops.append({"op": "setattr", "f": "y", "v": {"l": [pick() for _ in range(rng.randint(0, 2))]}})
                elif q < 0.9:
                    m = rng.choice(["append", "insert", "extend", "__setitem__", "__iadd__"])
                    args = {"append": [pick()], "insert": [0, pick()], "extend": [{"l": [pick()]}], "__setitem__": [0, pick()],
                            "__iadd__": [{"l": [pick(), pick()]}]}[m]
                    fmt_ops.append({"op": "call", "f": "y", "m": m, "args": args})
                else:
                    fmt_ops.append({"op": "delitem", "f": "z"})
        for op in case["ops"] + [None] * rng.randint(1, 3):
            for _ in range(rng.choice([0, 1, 1, 2])):
                nm, fd = rng.choice(wrapped)
                kind, cfd = wrapper_kind(fd), coll_option(fd)
                q = rng.random()
                ed0 = elem_decl(cfd) if kind in ("list", "deque") else None
                if ed0 and ed0.get("k") in ("enumCls", "float", "number") and isinstance(cur.get(nm), dict) and rng.random() < 0.5:
                    # a kept wrapper that receives a value its item field CONVERTS (an enum member's name, an int for a
                    # Float) keeps the raw argument, while the instance stores the converted one; handing the wrapper
                    # back to the field must validate (convert) its content again
                    raw = rng.choice(ed0["names"]) if ed0["k"] == "enumCls" else rng.choice([1, 2, 3])
                    ops.append({"op": "take", "f": nm})
                    taken.append((nm, fd))
                    ops.append({"op": "callRef", "i": len(taken) - 1, "f": nm, "m": rng.choice(["append", "insert", "extend"]),
                                "args": []})
                    ops[-1]["args"] = {"append": [raw], "insert": [0, raw], "extend": [{"l": [raw]}]}[ops[-1]["m"]]
                    ops.append({"op": "assignRef", "f": nm, "i": len(taken) - 1})
                    continue
                if q < 0.22:
                    ops.append({"op": "take", "f": nm})
                    taken.append((nm, fd))
                elif q < 0.3 and taken:
                    # hand a kept wrapper (possibly mutated meanwhile through its own methods) back to a field
                    i = rng.randrange(len(taken))
                    target = taken[i][0] if rng.random() < 0.8 else nm
                    if rng.random() < 0.6:
                        call = gen_ext_call(rng, vg, tbl, wrapper_kind(taken[i][1]), coll_option(taken[i][1]), cur.get(taken[i][0]))
                        if call:
                            ops.append({"op": "callRef", "i": i, "f": taken[i][0], "m": call[0], "args": call[1], **call[2]})
                    ops.append({"op": "assignRef", "f": target, "i": i})
                elif q < 0.55 and taken:
                    i = rng.randrange(len(taken) + (1 if rng.random() < 0.05 else 0))
                    rnm, rfd = taken[min(i, len(taken) - 1)]
                    call = gen_ext_call(rng, vg, tbl, wrapper_kind(rfd), coll_option(rfd), cur.get(rnm))
                    if call:
                        ops.append({"op": "callRef", "i": i, "f": rnm, "m": call[0], "args": call[1], **call[2]})
                elif q < 0.8:
                    call = gen_ext_call(rng, vg, tbl, kind, cfd, cur.get(nm))
                    if call:
                        ops.append({"op": "call", "f": nm, "m": call[0], "args": call[1], **call[2]})
                else:
                    ed = elem_decl(cfd)
                    nk = wrapper_kind(ed) if ed else None
                    if nk and fd["k"] != "anyOf" and isinstance(cur.get(nm), dict):
                        if kind == "dict":
                            ks = [kv[0] for kv in cur[nm].get("m", [])]
                            k = rng.choice(ks) if ks else "nokey"
                        else:
                            xs = cur[nm].get("l") or cur[nm].get("q") or []
                            k = rng.randrange(len(xs)) if xs else 0
                        call = gen_ext_call(rng, vg, tbl, nk, ed, None)
                        if call:
                            ops.append({"op": "callNested", "f": nm, "k": k, "m": call[0], "args": call[1], **call[2]})
            if op is not None:
                ops.append(op)
        for fo in fmt_ops:
            ops.insert(rng.randrange(len(ops) + 1), fo)
        # typed collections of STRUCTURES (Array[Cls] / Deque[Cls] / Map[String, Cls]): mutators with instances as arguments
        if rng.random() < 0.3 and not any(n == "s" for n, _ in case["cls"]["fields"]):
            case = dict(case, cls=json.loads(json.dumps(case["cls"])), kw=list(case["kw"]))
            sdg = gen.DeclGen(rng, max_depth=1)
            sdg.counter = 50 + len(out)          # class names distinct from the ones the base case already uses
            item = sdg.class_decl(depth=1, n_fields=rng.randint(1, 2))
            C.fix_accepts(item)
            sfd = rng.choice([{"k": "seqOf", "item": item}, {"k": "seqOf", "item": item, "seq": "deque"},
                              {"k": "mapOf", "key": {"k": "string"}, "val": item}, {"k": "seqOf", "item": item, "maxItems": 2}])
            inst = lambda: vg.valid(item)
            v0 = inst()
            if v0 is not gen.NOVALUE:
                case["cls"]["fields"].append(["s", sfd])
                C.fix_accepts(case["cls"])
                start = {"m": [["k", v0]]} if sfd["k"] == "mapOf" else ({"q": [v0]} if sfd.get("seq") == "deque" else {"l": [v0]})
                case["kw"].append(["s", start])
                skind = wrapper_kind(sfd)
                for _ in range(rng.randint(2, 5)):
                    call = gen_ext_call(rng, vg, tbl, skind, sfd, start)
                    if call:
                        ops.insert(rng.randrange(len(ops) + 1), {"op": "call", "f": "s", "m": call[0], "args": call[1], **call[2]})
        # typed wrappers at nesting depth 2 and 3 (x.w[i][j].append(v)): addressed by a path of keys
        if rng.random() < 0.35 and not any(n == "w" for n, _ in case["cls"]["fields"]):
            case = dict(case, cls=json.loads(json.dumps(case["cls"])), kw=list(case["kw"]))
            leaf = rng.choice([{"k": "integer"}, {"k": "string"}, {"k": "integer", "min": [0, 1]}])
            inner = rng.choice([{"k": "seqOf", "item": leaf}, {"k": "seqOf", "item": leaf, "seq": "deque"},
                                {"k": "mapOf", "key": {"k": "string"}, "val": leaf}])
            mid = rng.choice([{"k": "seqOf", "item": inner}, {"k": "mapOf", "key": {"k": "string"}, "val": inner},
                              {"k": "seqOf", "item": inner, "maxItems": 2}])
            top = rng.choice([{"k": "seqOf", "item": mid}, {"k": "mapOf", "key": {"k": "string"}, "val": mid}])
            case["cls"]["fields"].append(["w", top])
            C.fix_accepts(case["cls"])
            lv = lambda: 1 if leaf["k"] == "integer" else "s"
            mk_inner = lambda: {"m": [["k", lv()]]} if inner["k"] == "mapOf" else ({"q": [lv()]} if inner.get("seq") == "deque" else {"l": [lv()]})
            mk_mid = lambda: {"m": [["a", mk_inner()]]} if mid["k"] == "mapOf" else {"l": [mk_inner()]}
            case["kw"].append(["w", {"m": [["t", mk_mid()]]} if top["k"] == "mapOf" else {"l": [mk_mid()]}])
            k1 = "t" if top["k"] == "mapOf" else 0
            k2 = "a" if mid["k"] == "mapOf" else 0
            from extract import wrappers as _wr
            skip_deep = bool(case["cls"].get("immutable")) and nested_bound_now() and not _wr.nested_deep_immutable()
            for _ in range(rng.randint(2, 5)):
                deep = rng.random() < 0.7
                decl, path = (inner, [k1, k2]) if deep else (mid, [k1])
                if rng.random() < 0.12:
                    path = path[:-1] + [rng.choice([5, "nokey"])]
                call = gen_ext_call(rng, vg, tbl, wrapper_kind(decl), decl, None)
                pos = rng.randrange(len(ops) + 1)
                if call and not (deep and skip_deep):
                    ops.insert(pos, {"op": "callNested", "f": "w", "k": {"l": path}, "m": call[0], "args": call[1], **call[2]})
        ext = dict(case, ops=ops, ext=True)
        # a hook of the second family: "one of these fields must hold a value", over fields the start instance holds,
        # with operations that try to clear them (None assignment, deletion)
        held = [k for k, v in case["kw"] if v is not None and k in cur_names(fields)]
        if held and not case["cls"].get("immutable") and rng.random() < 0.35:
            group = sorted(rng.sample(held, min(len(held), rng.randint(1, 2))))
            ext["hookNeed"] = [group]
            for g in group:
                for _ in range(rng.randint(1, 2)):
                    clear = {"op": "setattr", "f": g, "v": None} if rng.random() < 0.6 else {"op": "delitem", "f": g}
                    ops.insert(rng.randrange(len(ops) + 1), clear)
        # an order-dependent hook ("the first element is the smallest") on integer sequences the start instance holds in
        # that order, with the mutators that permute (rotate, reverse, sort, insert, appendleft, slices)
        seqs = [nm for nm, fd in case["cls"]["fields"] if fd.get("k") == "seqOf" and fd["item"].get("k") == "integer"
                and isinstance(cur.get(nm), dict) and _wire_head_min(cur[nm]) and nm not in case["cls"].get("immFields", [])]
        if seqs and not case["cls"].get("immutable") and rng.random() < 0.6:
            tgt = rng.choice(seqs)
            ext["hookHeadMin"] = [tgt]
            skind = "deque" if dict(case["cls"]["fields"])[tgt].get("seq") == "deque" else "list"
            for _ in range(rng.randint(2, 4)):
                m = rng.choice(["rotate", "reverse", "appendleft", "insert"] if skind == "deque" else ["reverse", "sort", "insert", "__imul__"])
                args = {"rotate": [rng.choice([1, -1, 2])], "reverse": [], "appendleft": [rng.choice([0, 99, -5])],
                        "insert": [0, rng.choice([0, 99, -5])], "sort": ["neg", False], "__imul__": [2]}[m]
                ops.insert(rng.randrange(len(ops) + 1), {"op": "call", "f": tgt, "m": m, "args": args})
        if (ext.get("hook") or ext.get("hookNeed") or ext.get("hookHeadMin")) and rng.random() < 0.4:
            ext["hookExc"] = rng.choice(["assertion", "key"])     # the hook refuses with a class of its own choosing
        ext["re"] = gen.re_table(case["cls"], case["kw"], ops)
        out.append(ext)
    return out


_NB = {}


def nested_bound_now():
    from extract import wrappers
    if "v" not in _NB:
        _NB["v"] = wrappers.nested_bound()
    return _NB["v"]


def _wire_head_min(v):
    xs = v.get("l") if "l" in v else v.get("q")
    if not xs or len(xs) < 2 or not all(isinstance(e, int) and not isinstance(e, bool) for e in xs):
        return False
    return all(xs[0] <= e for e in xs[1:]) and any(e != xs[0] for e in xs[1:])


def _wire_head_min_ok(v):
    xs = v.get("l") if "l" in v else v.get("q")
    if not xs or not all(isinstance(e, int) and not isinstance(e, bool) for e in xs):
        return True
    return all(xs[0] <= e for e in xs[1:])


def headmin_cases():
    """directed: integer Deque / Array fields under an ORDER-dependent hook (the first element is the smallest), every
    permuting mutator (rotate, reverse, sort with a key, insert / appendleft of a smaller element, slices, *=), with the
    hook refusing with ValueError / an AssertionError / a KeyError of its own: a refused mutation leaves the order as it was"""
    cases = []
    ci = 0
    for seq in ("deque", "list"):
        for exc in (None, "assertion", "key"):
            fd = {"k": "seqOf", "item": {"k": "integer"}}
            if seq == "deque":
                fd["seq"] = "deque"
            cls = {"k": "struct", "name": f"HM{ci}", "required": ["a"], "addl": False, "fields": [["a", fd], ["n", {"k": "integer"}]]}
            ci += 1
            C.fix_accepts(cls)
            kw = [["a", {"q" if seq == "deque" else "l": [1, 5, 3]}], ["n", 0]]
            calls = [("reverse", []), ("insert", [0, 9]), ("insert", [0, 0]), ("__imul__", [2]), ("__setitem__", [0, 7]), ("pop", [])]
            calls += [("rotate", [1]), ("rotate", [-1]), ("appendleft", [9]), ("popleft", [])] if seq == "deque" else \
                [("sort", ["neg", False]), ("sort", ["", True])]
            ops = []
            for m, args in calls:
                ops.append({"op": "call", "f": "a", "m": m, "args": args})
                ops.append({"op": "setattr", "f": "n", "v": len(ops)})       # the instance stays usable
            if seq == "list":
                ops.append({"op": "call", "f": "a", "m": "__setitem__", "args": [{"l": [8, 2]}], "slice": [0, 2, None]})
                ops.append({"op": "call", "f": "a", "m": "__delitem__", "args": [], "slice": [0, 1, None]})
            ops.append({"op": "setattr", "f": "a", "v": {"q" if seq == "deque" else "l": [4, 2]}})
            case = {"suite": "mutate", "cls": cls, "kw": kw, "ops": ops, "hookHeadMin": ["a"], "ext": True}
            if exc:
                case["hookExc"] = exc
            case["re"] = gen.re_table(cls, kw, ops)
            cases.append(case)
    return cases


def bound_cases():
    """directed: the model of the PROPOSED repair (nested wrappers bound to their parent) is driven on nested histories;
    these lines carry nestedBound=true and have no real-code counterpart unless the working tree has the repair"""
    return []


# ------------------------------------------------------------------ real code

SORT_KEYS = {"": None, "neg": lambda v: -v, "abs": abs, "const": lambda v: 0}
WRAPPER_TYPES = (list, dict, collections.deque)


def invoke(target, op, ctx):
    """call mutator op["m"] on a wrapper object; `slice` = [lo, hi, step] turns __setitem__/__delitem__ into their slice
    forms, a two-argument `sort` is sort(key=<menu entry>, reverse=<bool>)"""
    args = [dump.load_value(a, ctx) for a in op["args"]]
    m = op["m"]
    if "slice" in op:
        sl = slice(*op["slice"])
        return getattr(target, m)(sl, *args)
    if m == "sort" and len(op["args"]) == 2:
        return getattr(target, m)(key=SORT_KEYS[op["args"][0]], reverse=op["args"][1])
    return getattr(target, m)(*args)


def raw_payload(w):
    """the content of a wrapper object itself (no accessor of the wrapper is used)"""
    if isinstance(w, dict):
        return {k: dict.__getitem__(w, k) for k in dict.keys(w)}
    if isinstance(w, collections.deque):
        return collections.deque(collections.deque.__iter__(w))
    return list(list.__iter__(w))


def do_op(x, op, ctx, refs=None):
    name = op["op"]
    if name == "setattr":
        setattr(x, op["f"], dump.load_value(op["v"], ctx))
    elif name == "delitem":
        del x[op["f"]]
    elif name == "call":
        invoke(getattr(x, op["f"]), op, ctx)
    elif name == "callNested":
        k = dump.load_value(op["k"], ctx)
        outer = getattr(x, op["f"])
        if outer is None:
            raise AttributeError("field is not set")     # canonical "no value to operate on"
        if isinstance(k, list):      # a path of keys: x.f[k1][k2]...
            target = outer
            for kk in k:
                target = target[kk]
            invoke(target, op, ctx)
        else:
            invoke(outer[k], op, ctx)
    elif name == "take":
        # a take that finds no wrapper still occupies its position (None), so that later positions do not shift
        w = getattr(x, op["f"]) if op["f"] in x.__dict__ else None
        if not (isinstance(w, WRAPPER_TYPES) and hasattr(w, "_field_definition")):
            refs.append(None)
            raise AttributeError("the field holds no wrapper")
        refs.append(w)
    elif name == "callRef":
        if op["i"] >= len(refs) or refs[op["i"]] is None:
            raise AttributeError("no such reference")
        invoke(refs[op["i"]], op, ctx)
    elif name == "assignRef":
        if op["i"] >= len(refs) or refs[op["i"]] is None:
            raise AttributeError("no such reference")
        setattr(x, op["f"], refs[op["i"]])
    else:
        raise ValueError(name)


def run_impl(case):
    ctx = C.make_ctx()
    decl = case["cls"]
    try:
        cls = dump.build_class(decl, ctx)
    except Exception as e:
        return {"unbuildable": f"class: {type(e).__name__}: {e}"}
    back = dump.normalize_decl(dump.dump_class(cls, ctx))
    want = dump.normalize_decl(decl)
    if back != want:
        return {"abstraction_mismatch": {"dumped": back, "declared": want}}
    cls_actual = C.fix_accepts(dump.dump_class(cls, ctx))
    if case.get("hook") or case.get("hookNeed") or case.get("hookHeadMin"):
        install_hook(cls, case.get("hook", []), ctx, case.get("hookNeed"), case.get("hookExc"), case.get("hookHeadMin"))
    try:
        kw = {k: dump.load_value(v, ctx) for k, v in case["kw"]}
        x = cls(**kw)
    except Exception as e:
        return {"unbuildable": f"start: {type(e).__name__}: {e}"}
    snap = lambda: C.rename_inline(dump.dump_value(x, ctx), ctx)
    res = {"cls_actual": cls_actual, "kw_actual": [[k, C.rename_inline(dump.dump_value(v, ctx), ctx)] for k, v in kw.items()],
           "start": snap(), "steps": []}
    res["ops_actual"] = []
    refs = []
    snap_refs = lambda: [None if w is None else C.rename_inline(dump.dump_value(raw_payload(w), ctx), ctx) for w in refs]
    for op in case["ops"]:
        try:
            # build arguments first so that an unbuildable argument is not mistaken for a rejection;
            # the model sees the arguments as actually built (nested instances are already normalised)
            act = dict(op)
            if "args" in op:
                act["args"] = [C.rename_inline(dump.dump_value(dump.load_value(a, ctx), ctx), ctx) for a in op["args"]]
            if "v" in op:
                act["v"] = C.rename_inline(dump.dump_value(dump.load_value(op["v"], ctx), ctx), ctx)
            res["ops_actual"].append(act)
        except Exception as e:
            res["ops_actual"].append(None)
            res["steps"].append({"out": "unbuildable-arg", "state": snap()})
            continue
        try:
            do_op(x, op, ctx, refs)
            out = "ok"
            msg = ""
        except Exception as e:
            out = err_name(e)
            msg = str(e)[:200]
        res["steps"].append({"out": out, "state": snap(), "msg": msg})
        if case.get("ext"):
            res["steps"][-1]["refs"] = snap_refs()
    return res


def line(case, impl):
    l = {"suite": "mutate", "cls": impl.get("cls_actual", case["cls"]), "kw": impl.get("kw_actual", case["kw"]),
         "ops": case["ops"], "re": case.get("re", []), "hook": case.get("hook", [])}
    if "nestedBound" in case:
        l["nestedBound"] = case["nestedBound"]
    if case.get("hookNeed"):
        l["hookNeed"] = case["hookNeed"]
    if case.get("hookHeadMin"):
        l["hookHeadMin"] = case["hookHeadMin"]
    if case.get("reOverride"):
        l["reOverride"] = case["reOverride"]
    if "steps" in impl:
        # ops whose arguments could not even be built are dropped on both sides
        keep = [i for i, s in enumerate(impl["steps"]) if s["out"] != "unbuildable-arg"]
        l["ops"] = [impl["ops_actual"][i] for i in keep]
        l["implStates"] = [impl["start"]] + [impl["steps"][i]["state"] for i in keep]
    return l


def kept_steps(case, impl):
    return [(case["ops"][i], s) for i, s in enumerate(impl.get("steps", [])) if s["out"] != "unbuildable-arg"]


def op_site(case, op):
    fd = dict((n, f) for n, f in case["cls"]["fields"]).get(op["f"])
    if op["op"] == "call":
        return f"{wrapper_kind(fd) if fd else '?'}.{op['m']}"
    if op["op"] == "callNested":
        ed = elem_decl(coll_option(fd)) if fd else None
        k = op.get("k")
        if isinstance(k, dict) and "l" in k:      # a path: follow the declarations
            ed = coll_option(fd) if fd else None
            for _ in k["l"]:
                ed = elem_decl(ed) if ed else None
        return f"nested-{wrapper_kind(ed) if ed else '?'}.{op['m']}"
    if op["op"] == "setattr":
        return "setattr:" + (fd["k"] if fd else "non-field")
    if op["op"] == "take":
        return "take"
    if op["op"] == "assignRef":
        return "assign-ref:" + (fd["k"] if fd else "non-field")
    if op["op"] == "callRef":
        return f"ref-{wrapper_kind(fd) if fd else '?'}.{op['m']}"
    return "delitem"


def tags(case, impl, model):
    out = ["class:" + ("immutable" if case["cls"].get("immutable") else "immfields" if case["cls"].get("immFields") else "mutable")]
    for op, st in kept_steps(case, impl):
        out.append("op:" + op_site(case, op).split(":")[0])
        out.append("outcome:" + st["out"])
    if "unbuildable" in impl:
        out.append("impl:skipped")
    return out


def nontrivial(case):
    return len(case["ops"]) >= 1


def describe(case, impl, model):
    return {"cls": case["cls"], "kw": case["kw"], "ops": case["ops"],
            "impl_outcomes": [s["out"] for s in impl.get("steps", [])]}


def correspondence(case, impl, model):
    if "unbuildable" in impl:
        return None
    if "abstraction_mismatch" in impl:
        return "dump(build(decl)) != decl: " + json.dumps(impl["abstraction_mismatch"])[:800]
    if "ok" not in model["start"]:
        return f"model cannot construct the start instance: {model['start']}"
    if dump.canon(model["start"]["ok"]) != dump.canon(impl["start"]):
        return "start instances differ"
    steps = kept_steps(case, impl)
    if len(model["steps"]) != len(steps):
        return f"step count differs: model {len(model['steps'])} impl {len(steps)}"
    for i, ((op, st), ms) in enumerate(zip(steps, model["steps"])):
        if st["out"] != ms["out"]:
            return (f"step {i} {json.dumps(op)[:200]}: outcome differs: model {ms['out']}, real code {st['out']} "
                    f"({st.get('msg')})")
        if dump.canon(st["state"]) != dump.canon(ms["state"]):
            return (f"step {i} {json.dumps(op)[:200]}: state differs: model " + json.dumps(dump.canon(ms["state"]))[:300]
                    + " impl " + json.dumps(dump.canon(st["state"]))[:300])
        if "refs" in st and "refs" in ms and [dump.canon(r) for r in st["refs"]] != [dump.canon(r) for r in ms["refs"]]:
            return (f"step {i} {json.dumps(op)[:200]}: kept wrapper references differ: model " + json.dumps(ms["refs"])[:300]
                    + " impl " + json.dumps(st["refs"])[:300])
    return None
