"""
Suite `stub`: one case = one generated Python module.  The real `create_stub_for_file` is run on it
(in-process, and in subprocesses under several PYTHONHASHSEEDs), the `.pyi` is `ast.parse`d, the
parameters of every Structure class's `__init__` / helper methods are extracted and compared with

  * the Lean model's prediction from the dumped class hierarchy (`Sem/Stub.lean`)  — correspondence,
  * `inspect.signature(cls)`, `cls._constants`, `cls._required` and the behaviour of the real
    constructor (missing / extra keyword)                                          — property oracle.

Serves C16.
"""
import ast
import enum
import hashlib
import importlib.util
import inspect
import json
import os
import shutil
import subprocess
import sys

ROOT = os.path.dirname(os.path.dirname(os.path.dirname(os.path.abspath(__file__))))
WORK = os.path.join(ROOT, "work", "stubmods")

HELPERS = {"shallowClone": "shallow_clone_with_overrides", "fromOtherClass": "from_other_class",
           "fromTrustedData": "from_trusted_data"}

# ------------------------------------------------------------------ type vocabulary → source

SCALARS = ["String", "Integer", "Float", "Boolean", "Number", "DecimalNumber", "DateField", "DateTime", "Anything"]
PY_SCALARS = ["int", "str", "float", "bool"]


def ty_src(t):
    k = t[0]
    if k in SCALARS:
        return k
    if k == "None":
        return "None"
    if k in ("Array", "Set", "Deque"):
        return f"{k}[{ty_src(t[1])}]"
    if k in ("Tuple", "Map", "AnyOf", "OneOf", "AllOf"):
        return f"{k}[{', '.join(ty_src(x) for x in t[1:])}]"
    if k == "Enum":
        return f"Enum[{t[1]}]"
    if k == "EnumVals":
        return f"Enum(values={t[1]!r})"
    if k == "EnumSet":          # values given as a set literal (iteration order depends on PYTHONHASHSEED)
        return "Enum(values={" + ", ".join(repr(v) for v in t[1]) + "})"
    if k == "EnumTuple":
        return f"Enum(values={tuple(t[1])!r})"
    if k == "EnumItem":         # Enum['a', 'b']
        return "Enum[" + ", ".join(repr(v) for v in t[1]) + "]"
    if k == "Ref":
        return t[1]
    if k == "py":
        return t[1]
    if k == "pylist":
        return f"list[{ty_src(t[1])}]"
    if k == "pydict":
        return f"dict[{ty_src(t[1])}, {ty_src(t[2])}]"
    if k == "pyopt":
        return f"Optional[{ty_src(t[1])}]"
    if k == "pymod":            # attribute access on an imported module: `datetime.datetime`
        return t[1]
    if k == "F":                # any exported typedpy Field class, by its declaration source (see zoo_kinds)
        return t[1]
    raise ValueError(k)


def is_opt_shape(t):
    """the shape `_get_anyof_typing` renders as `Optional[X] = None`"""
    if t[0] in ("AnyOf", "OneOf", "AllOf"):
        return len(t) == 3 and t[2] == ["None"]
    if t[0] == "pyopt":
        return True
    return False


def has_nested_opt(t, top=True):
    """an Optional-shaped node strictly inside the rendered annotation"""
    if not isinstance(t, list):
        return False
    here = (not top) and is_opt_shape(t)
    return here or any(has_nested_opt(x, False) for x in t[1:] if isinstance(x, list))


def valid_src(t, mod):
    """source of a value the field type accepts (evaluated in the generated module's namespace); None = give up"""
    k = t[0]
    simple = {"String": "'s'", "Integer": "3", "Float": "1.5", "Boolean": "True", "Number": "2",
              "DecimalNumber": "__import__('decimal').Decimal('1.5')", "DateField": "__import__('datetime').date(2020, 1, 2)",
              "DateTime": "__import__('datetime').datetime(2020, 1, 2, 3, 4, 5)", "Anything": "7"}
    if k in simple:
        return simple[k]
    if k == "py":
        return {"int": "3", "str": "'s'", "float": "1.5", "bool": "True"}[t[1]]
    if k == "None":
        return "None"
    if k in ("AnyOf", "OneOf", "pyopt"):
        return valid_src(t[1], mod)
    if k == "AllOf":
        return None
    if k in ("Array", "pylist"):
        v = valid_src(t[1], mod)
        return None if v is None else f"[{v}]"
    if k == "Deque":
        v = valid_src(t[1], mod)
        return None if v is None else f"__import__('collections').deque([{v}])"
    if k == "Set":
        return None if t[1][0] not in ("String", "Integer", "Float", "Number") else "{" + valid_src(t[1], mod) + "}"
    if k == "Tuple":
        vs = [valid_src(x, mod) for x in t[1:]]
        return None if None in vs else "(" + ", ".join(vs) + ",)"
    if k in ("Map", "pydict"):
        kk, vv = valid_src(t[1], mod), valid_src(t[2], mod)
        return None if None in (kk, vv) or t[1][0] not in ("String", "Integer", "py") else "{" + kk + ": " + vv + "}"
    if k == "Enum":
        return f"list({t[1]})[0]"
    if k in ("EnumVals", "EnumSet", "EnumTuple", "EnumItem"):
        return repr(t[1][0])
    if k == "Ref":
        return f"_mk_{t[1]}()"
    if k == "pymod":
        return {"datetime.datetime": "datetime.datetime(2020, 1, 2, 3, 4, 5)", "datetime.date": "datetime.date(2020, 1, 2)",
                "decimal.Decimal": "decimal.Decimal('1.5')"}.get(t[1])
    return None


# ------------------------------------------------------------------ module rendering

def base_src(b):
    k = b["b"]
    if k in ("Structure", "ImmutableStructure"):
        return k
    if k == "cls":
        return b["name"]
    if k in ("Partial", "Extend", "AllFieldsRequired"):
        return f"{k}[{b['of']}]"
    if k in ("Omit", "Pick"):
        return f"{k}[{b['of']}, ({', '.join(repr(n) for n in b['names'])},)]"
    raise ValueError(k)


def render_module(spec):
    out = ["import enum", "import dataclasses", "import typing", "from typing import Optional",
           "from typedpy import (Structure, ImmutableStructure, String, Integer, Float, Boolean, Number, DecimalNumber,",
           "                     DateField, DateTime, Anything, Array, Set, Deque, Tuple, Map, AnyOf, OneOf, AllOf, Enum,",
           "                     Constant, Partial, Omit, Pick, Extend, AllFieldsRequired)", ""]
    for it in spec["items"]:
        k = it["kind"]
        if k == "raw":
            out += [it["src"], ""]
        elif k == "import":
            out += [f"import {it['module']}", ""]
        elif k == "from_import":
            out += [f"from {it['module']} import {', '.join(it['names'])}", ""]
        elif k == "const":
            ann = f": {it['ann']}" if it.get("ann") else ""
            out += [f"{it['name']}{ann} = {it['src']}", ""]
        elif k == "enum":
            out.append(f"class {it['name']}(enum.{it.get('base', 'Enum')}):")
            start = it.get("start", 1)
            if it.get("base") == "Flag":    # NONE = 0, then single bits
                out += [f"    {m} = {0 if (start == 0 and i == 0) else 2 ** (i - (1 if start == 0 else 0))}"
                        for i, m in enumerate(it["members"])]
            else:
                out += [f"    {m} = {i + start}" for i, m in enumerate(it["members"])]
            if it.get("method"):
                out += ["", "    def label(self) -> str:", "        return self.name.lower()"]
            out.append("")
        elif k == "plain":
            out.append(f"class {it['name']}:")
            ps = ", ".join(["self"] + [p if d is None else f"{p}={d}" for p, d in it["params"]])
            out.append(f"    def __init__({ps}):")
            out += [f"        self.{p} = {p}" for p, _ in it["params"]] or ["        pass"]
            out += ["", "    def describe(self, prefix: str = 'x') -> str:", "        return prefix", ""]
        elif k == "dataclass":
            out += ["@dataclasses.dataclass", f"class {it['name']}:"]
            out += [f"    {n}: {ty}" + ("" if d is None else f" = {d}") for n, ty, d in it["fields"]]
            out.append("")
        elif k == "func":
            ps = ", ".join(f"{p}: {ty}" + ("" if d is None else f" = {d}") for p, ty, d in it["params"])
            out += [f"def {it['name']}({ps}) -> {it['ret']}:", "    return None", ""]
        elif k == "struct":
            bases = ", ".join(base_src(b) for b in it["bases"])
            out.append(f"class {it['name']}({bases}):")
            body = []
            for f in it["fields"]:
                if f.get("const") is not None:
                    body.append(f"    {f['name']} = Constant({f['const']})")
                elif it.get("style") == "assign":
                    src = ty_src(f["ty"])
                    if f.get("default") is not None:
                        src = f"{src}(default={f['default']})" if "[" not in src and "(" not in src else src
                    body.append(f"    {f['name']} = {src}")
                else:
                    d = "" if f.get("default") is None else f" = {f['default']}"
                    body.append(f"    {f['name']}: {ty_src(f['ty'])}{d}")
            if it.get("required") is not None:
                body.append(f"    _required = {it['required']!r}")
            if it.get("optional") is not None:
                body.append(f"    _optional = {it['optional']!r}")
            if it.get("addl") is not None:
                body.append(f"    _additional_properties = {it['addl']!r}")
            if it.get("ignore_none"):
                body.append("    _ignore_none = True")
            if it.get("immutable_flag"):
                body.append("    _immutable = True")
            ci = it.get("custom_init")
            if ci:
                ps = ", ".join(["self"] + [p if d is None else f"{p}={d}" for p, d in ci["params"]]
                               + (["**extra"] if ci.get("kw") else []))
                fw = ", ".join(f"{p}={p}" for p in ci["forward"])
                body += ["", f"    def __init__({ps}):", f"        super().__init__({fw})"]
            if it.get("method"):
                body += ["", "    def total(self, scale: int = 1) -> int:", "        return scale"]
            out += body or ["    pass"]
            out.append("")
    return "\n".join(out) + "\n"


# ------------------------------------------------------------------ case generation

NAMES = ["a", "b", "c", "d", "e", "f", "g", "h", "i", "j", "m", "n", "o", "p", "q", "r", "s", "t", "u", "v", "w", "x", "y", "z",
         "name", "size", "items", "source_object", "ignore_props", "cls_", "kw", "self_", "value", "key"]


class ModGen:
    def __init__(self, rng, tier):
        self.rng = rng
        self.tier = tier
        self.py_ok = True       # python builtins / PEP-585 generics are only legal in annotations
        self.mods = []          # modules imported as `import m` (attribute-access types become available)
        self.zoo_imports = set()
        self.enums = []
        self.structs = {}        # name -> info {fields: {name: finfo}, required: set, custom_init, immutable}

    def scalar(self):
        r = self.rng
        if self.enums and r.random() < 0.12:
            return ["Enum", r.choice(self.enums)]
        if r.random() < 0.06:
            return ["EnumVals", r.choice([[1, 2, 3], ["x", "y"]])]
        refs = [n for n, s in self.structs.items() if not s["hidden"]]
        if refs and r.random() < 0.12:
            return ["Ref", r.choice(refs)]
        if r.random() < 0.08:
            kind, modname, src = r.choice([z for z in zoo_kinds() if z[0] not in ZOO_ARGS])
            self.zoo_imports.add((modname, kind))
            return ["F", src]
        if self.py_ok and "datetime" in self.mods and r.random() < 0.12:
            # (`decimal.Decimal` annotations are silently not fields: typedpy has no wrapper for them)
            return ["pymod", r.choice(["datetime.datetime", "datetime.date"])]
        if self.py_ok and r.random() < 0.15:
            return ["py", r.choice(PY_SCALARS)]
        return [r.choice(SCALARS)]

    def ty(self, depth=0, allow_nested_opt=False):
        r = self.rng
        x = r.random()
        if depth >= 2 or x < 0.5:
            return self.scalar()
        inner = lambda: self.ty(depth + 1, allow_nested_opt)
        if allow_nested_opt and r.random() < 0.5:
            opt = ["AnyOf", self.scalar(), ["None"]]
            return r.choice([["Map", ["String"], opt], ["AnyOf", ["String"], opt], ["OneOf", opt, ["Integer"]],
                             ["Tuple", ["String"], opt], ["Array", opt]])
        c = r.choice(["Array", "Set", "Deque", "Tuple", "Map", "AnyOf", "OneOf", "AnyOfNoneFirst"]
                     + (["pylist", "pydict"] if self.py_ok else []))
        if c in ("Array", "Deque", "pylist"):
            return [c, inner()]
        if c == "Set":
            return ["Set", [r.choice(["String", "Integer", "Float"])]]
        if c == "Tuple":
            return ["Tuple", inner(), inner()]
        if c == "Map":
            return ["Map", [r.choice(["String", "Integer"])], inner()]
        if c == "pydict":
            return ["pydict", ["py", r.choice(["str", "int"])], inner()]
        if c == "AnyOfNoneFirst":
            return ["AnyOf", ["None"], self.scalar()]
        return [c, self.scalar(), self.scalar()]

    def default_for(self, t):
        k = t[0]
        d = {"String": "'dflt'", "Integer": "5", "Float": "2.5", "Boolean": "False", "Number": "0", "Anything": "9"}
        if k in d:
            return d[k]
        if k == "py":
            return {"int": "0", "str": "''", "float": "0.5", "bool": "True"}[t[1]]
        if k in ("Array", "pylist"):
            return "list"
        if k in ("Map", "pydict"):
            return "dict"
        if k in ("AnyOf", "OneOf", "pyopt") and is_opt_shape(t):
            return self.default_for(t[1])
        return None

    def field(self, name, style, nested_ok):
        r = self.rng
        f = {"name": name}
        x = r.random()
        if x < 0.1:
            cv = r.choice(["3", "'c'", "True", "1.5", "0", "0.0", "''", "False"]
                          + ([f"{self.enums[0]}.{'M0'}"] if self.enums else []))
            f["const"] = cv
            f["ty"] = ["Anything"]
            return f
        if x < 0.32:
            inner = self.ty(1) if r.random() < 0.4 else self.scalar()
            if style == "annot" and r.random() < 0.5:
                f["ty"] = ["pyopt", inner]
            else:
                f["ty"] = [r.choice(["AnyOf", "AnyOf", "AnyOf", "OneOf", "AllOf"]), inner, ["None"]]
        else:
            f["ty"] = self.ty(0, allow_nested_opt=nested_ok and r.random() < 0.5)
        if r.random() < 0.22:
            d = self.default_for(f["ty"])
            if d is not None and (style == "annot" or f["ty"][0] in ("String", "Integer", "Float", "Boolean", "Number")):
                f["default"] = d
        return f

    def struct(self, name, nested_ok, force_base=None, no_flags=False, all_flags=False):
        """force_base / no_flags / all_flags build chains in which the class-level flags are set on a base only"""
        r = self.rng
        it = {"kind": "struct", "name": name, "style": "annot" if r.random() < 0.8 else "assign"}
        self.py_ok = it["style"] == "annot"
        cands = [n for n, s in self.structs.items() if not s["custom_init"] and not s["immutable"]]
        bases = []
        x = r.random()
        inherited = {}          # name -> {"req": bool, "const": bool}
        used = set()

        def anc(n):
            return self.structs[n]["ancestry"]
        if force_base is not None and force_base in cands:
            bases.append({"b": "cls", "name": force_base})
        elif all_flags:
            pass
        elif cands and x < 0.45:
            nb = 2 if (len(cands) > 1 and r.random() < 0.25) else 1
            for b in r.sample(cands, nb):
                if anc(b) & used:
                    continue
                used |= anc(b)
                bases.append({"b": "cls", "name": b})
        elif cands and x < 0.7:
            src = r.choice(cands)
            op = r.choice(["Partial", "Omit", "Pick", "Extend", "AllFieldsRequired"])
            names = [n for n, fi in self.structs[src]["all"].items()]
            b = {"b": op, "of": src}
            if op in ("Omit", "Pick"):
                if not names:
                    b = {"b": "Extend", "of": src}
                else:
                    b["names"] = sorted(r.sample(names, r.randint(1, max(1, len(names) // 2))))
            if b["b"] == "AllFieldsRequired" and any(fi["const"] for fi in self.structs[src]["all"].values()):
                b = {"b": "Extend", "of": src}      # AllFieldsRequired + Constant raises AttributeError (C12 finding)
            bases.append(b)
        elif 0.7 <= x < 0.76:
            bases.append({"b": "ImmutableStructure"})
        if not bases:
            bases.append({"b": "Structure"})
        it["bases"] = bases
        # what is inherited (best effort; only used to keep the generated class definable)
        allf = {}
        for b in bases:
            if b["b"] == "cls":
                for n, fi in self.structs[b["name"]]["all"].items():
                    allf.setdefault(n, dict(fi))
            elif b["b"] in ("Partial", "Extend", "Omit", "Pick", "AllFieldsRequired"):
                for n, fi in self.structs[b["of"]]["all"].items():
                    if b["b"] == "Omit" and n in b["names"]:
                        continue
                    if b["b"] == "Pick" and n not in b["names"]:
                        continue
                    fi = dict(fi)
                    if b["b"] == "Partial":
                        fi["req"] = False
                    if b["b"] == "AllFieldsRequired":
                        fi["req"] = not fi["dflt"]
                    allf.setdefault(n, fi)
        inherited = {n: dict(fi) for n, fi in allf.items()}
        nf = r.choice([0, 1, 2, 2, 3, 3, 4, 5]) if bases[0]["b"] != "Structure" else r.choice([1, 2, 3, 3, 4, 5, 6])
        pool = [n for n in NAMES if n not in inherited]
        names = r.sample(pool, min(nf, len(pool)))
        # occasionally override an inherited field (same requiredness, or as a constant)
        override = None
        if inherited and not no_flags and r.random() < 0.15:
            override = r.choice(sorted(inherited))
        fields = [self.field(n, it["style"], nested_ok) for n in names]
        if override:
            f = self.field(override, it["style"], False)
            if inherited[override]["const"] or r.random() < 0.4:
                f = {"name": override, "const": "4", "ty": ["Anything"]}
            else:
                f.pop("default", None)
                if f.get("const") is None and f["ty"][0] == "pyopt":
                    f["ty"] = ["AnyOf", f["ty"][1], ["None"]]
                if not inherited[override]["req"]:
                    f["_force_optional"] = True
            fields.append(f)
        it["fields"] = fields
        own_names = [f["name"] for f in fields]
        typing_opt = [f["name"] for f in fields if f.get("const") is None and f["ty"][0] == "pyopt"]
        forced_opt = [f.pop("_force_optional") and f["name"] for f in fields if f.get("_force_optional")]
        x = r.random()
        if all_flags:
            x = 0.0
        if no_flags:
            pass
        elif x < 0.3 or forced_opt:
            # explicit _required: any own non-constant non-typing-optional names (+ sometimes inherited optional ones)
            cand = [f["name"] for f in fields if f["name"] not in typing_opt and f["name"] not in forced_opt]
            req = [n for n in cand if r.random() < 0.55]
            inh_opt = [n for n, fi in inherited.items() if not fi["req"] and not fi["const"] and n not in own_names]
            if inh_opt and r.random() < 0.3:
                req.append(r.choice(sorted(inh_opt)))
            it["required"] = req
        elif x < 0.45:
            cand = [f["name"] for f in fields if f.get("const") is None and f["name"] not in typing_opt
                    and not (f["name"] in inherited and inherited[f["name"]]["req"])]
            opt = [n for n in cand if r.random() < 0.5]
            if opt:
                it["optional"] = opt
        if override and inherited[override]["req"] and not inherited[override]["const"]:
            # an own non-constant field that overrides an inherited *required* one must stay required
            # (otherwise make_signature produces a duplicate parameter: invalid definition, C14's business)
            f = fields[-1]
            if f.get("const") is None:
                f.pop("default", None)
                if it.get("required") is not None and override not in it["required"]:
                    it["required"].append(override)
                if it.get("optional") is not None:
                    it["optional"] = [n for n in it["optional"] if n != override] or None
        if all_flags:
            it["addl"] = r.random() < 0.5
            it["ignore_none"] = r.random() < 0.6
            it["immutable_flag"] = r.random() < 0.5
        elif not no_flags:
            if r.random() < 0.35:
                it["addl"] = r.random() < 0.5
            if r.random() < 0.12:
                it["ignore_none"] = True
            if r.random() < 0.08:
                it["immutable_flag"] = True
        if r.random() < 0.15:
            it["method"] = True
        # effective requiredness (mirror of the documented rules; only to keep later classes definable)
        for f in fields:
            n = f["name"]
            const = f.get("const") is not None
            dflt = f.get("default") is not None
            if it.get("required") is not None:
                req = n in it["required"] and not dflt
            else:
                req = not dflt and n not in typing_opt and n not in (it.get("optional") or [])
            if n in inherited and inherited[n]["req"] and not const:
                req = True
            allf[n] = {"req": req and not const, "const": const, "dflt": dflt, "ty": f["ty"]}
        for n in (it.get("required") or []):
            if n in allf and n not in own_names:
                allf[n]["req"] = True
        custom = False
        if bases == [{"b": "Structure"}] and fields and not all_flags and r.random() < 0.12:
            reqs = [n for n in own_names if allf[n]["req"]]
            opts = [n for n in own_names if not allf[n]["req"] and not allf[n]["const"]]
            params = [[n, None] for n in reqs] + [[n, "None"] for n in opts]
            if r.random() < 0.5:
                params.append(["extra_flag", r.choice(["None", "int", "3"])])
            it["custom_init"] = {"params": params, "forward": reqs + opts, "kw": False}
            custom = True
        ancestry = {name}
        for b in bases:
            if b["b"] == "cls":
                ancestry |= anc(b["name"])
        self.structs[name] = {"all": allf, "custom_init": custom, "immutable": bases[0]["b"] == "ImmutableStructure",
                              "ancestry": ancestry, "hidden": False}
        return it

    def module(self, idx):
        r = self.rng
        items = []
        for m in ("datetime", "decimal"):
            if r.random() < 0.15:
                items.append({"kind": "import", "module": m})
                self.mods.append(m)
        if r.random() < 0.7:
            items.append({"kind": "const", "name": "LIMIT", "src": str(r.randint(1, 99))})
        if r.random() < 0.4:
            items.append({"kind": "const", "name": "LABEL", "ann": "str", "src": repr(r.choice(["x", "it's", 'q"q']))})
        if r.random() < 0.3:
            items.append({"kind": "const", "name": "TABLE", "src": "{'a': 1}"})
        for e in range(r.choice([0, 1, 1, 2])):
            nm = f"Kind{e}"
            items.append({"kind": "enum", "name": nm, "members": [f"M{i}" for i in range(r.randint(1, 4))],
                          "method": r.random() < 0.3})
            self.enums.append(nm)
        if r.random() < 0.4:
            items.append({"kind": "plain", "name": "Plain0",
                          "params": [["first", None]] + ([["second", "2"]] if r.random() < 0.5 else [])})
        if r.random() < 0.4:
            items.append({"kind": "dataclass", "name": "Data0",
                          "fields": [["x", "int", None], ["y", "str", "'a'"]][: r.randint(1, 2)]})
        ns = r.randint(2, 5 if self.tier == "quick" else 7)
        nested_mod = r.random() < 0.07
        chain = r.randint(1, 3) if r.random() < 0.3 else 0    # S0 carries the flags, S1..S<chain> restate nothing
        for s in range(ns):
            if chain and s == 0:
                items.append(self.struct("S0", nested_mod, all_flags=True))
            elif chain and s <= chain:
                items.append(self.struct(f"S{s}", nested_mod, force_base=f"S{s - 1}", no_flags=True))
            else:
                items.append(self.struct(f"S{s}", nested_mod))
            if r.random() < 0.15:
                items.append({"kind": "func", "name": f"fn{s}",
                              "params": [["p", "int", None], ["q", "str", "'z'"]][: r.randint(0, 2)],
                              "ret": r.choice(["int", "str", f"S{s}"])})
        for modname in sorted({m for m, _ in self.zoo_imports}):
            items.insert(0, {"kind": "from_import", "module": modname,
                             "names": sorted(k for m, k in self.zoo_imports if m == modname)})
        return {"items": items}


# ------------------------------------------------------------------ every exported Field class ("zoo")

ZOO_ARGS = {    # declaration source of the kinds that need arguments; helper classes ZKind/ZPlain/ZRef are in the module
    "AllOf": "AllOf[Integer, Number]", "AnyOf": "AnyOf[Integer, String]", "OneOf": "OneOf[Integer, String]",
    "NotField": "NotField[Integer]", "ClassReference": "ClassReference(ZRef)", "Enum": "Enum(values=ZKind)",
    "EnumString": "EnumString(values=ZKind)", "Sized": "Sized(maxlen=5)", "SizedString": "SizedString(maxlen=5)",
    "SubClass": "SubClass(clazz=ZPlain)", "Tuple": "Tuple[Integer, String]",
}
_ZOO = None


def zoo_kinds():
    """[(class name, module to import it from, declaration source)] for every Field subclass exported by the
    working tree's `typedpy` / `typedpy.fields` / `typedpy.extfields` that can be declared in a class body"""
    global _ZOO
    if _ZOO is not None:
        return _ZOO
    import typedpy
    import typedpy.fields
    import typedpy.extfields
    from typedpy.structures import Field
    found = {}
    for modname, m in (("typedpy", typedpy), ("typedpy.fields", typedpy.fields), ("typedpy.extfields", typedpy.extfields)):
        for n in sorted(dir(m)):
            c = getattr(m, n)
            if inspect.isclass(c) and issubclass(c, Field) and not n.startswith("_") and n not in found:
                found[n] = modname
    out = []
    for n, modname in sorted(found.items()):
        src = ZOO_ARGS.get(n, n)
        probe = (f"import enum\nfrom typedpy import *\nfrom {modname} import {n}\n"
                 "class ZKind(enum.Enum):\n    A = 1\n    B = 2\nclass ZPlain:\n    pass\n"
                 "class ZRef(Structure):\n    q: Integer\n"
                 f"class T(Structure):\n    f: {src}\n    g: Integer\n    _required = ['g']\n"
                 "assert T._fields == ['f', 'g']\n")
        try:
            exec(probe, {"__name__": "zoo_probe"})
            out.append((n, modname, src))
        except Exception:
            pass
    _ZOO = out
    return out


def zoo_module(kind, modname, src, required):
    """one field kind in one position (required / every non-required form), plus the derived classes"""
    f = {"name": "f", "ty": ["F", src]}
    g = {"name": "g", "ty": ["Integer"]}
    st = lambda name, bases, fields, **kw: dict({"kind": "struct", "name": name, "style": "annot", "bases": bases,
                                                "fields": fields}, **kw)
    base = [{"b": "Structure"}]
    items = [{"kind": "from_import", "module": modname, "names": [kind]},
             {"kind": "enum", "name": "ZKind", "members": ["A", "B"]},
             {"kind": "plain", "name": "ZPlain", "params": []},
             st("ZRef", base, [{"name": "q", "ty": ["Integer"]}])]
    if required:
        items += [st("ZA", base, [f, g], required=["f", "g"]),
                  st("ZB", base, [f]),
                  st("ZE", [{"b": "Extend", "of": "ZA"}], [{"name": "extra", "ty": ["String"]}]),
                  st("ZO", [{"b": "Omit", "of": "ZA", "names": ["g"]}], []),
                  st("ZP", [{"b": "Pick", "of": "ZA", "names": ["f"]}], []),
                  st("ZS", [{"b": "cls", "name": "ZA"}], [{"name": "h", "ty": ["String"]}])]
    else:
        items += [st("ZA", base, [f, g], required=["g"]),
                  st("ZB", base, [f, g], optional=["f"]),
                  st("ZC", base, [f], required=[]),
                  st("ZD", [{"b": "Partial", "of": "ZRef"}], [f], optional=["f"]),
                  st("ZPart", [{"b": "Partial", "of": "ZB"}], []),
                  st("ZE", [{"b": "Extend", "of": "ZA"}], [{"name": "extra", "ty": ["String"]}]),
                  st("ZO", [{"b": "Omit", "of": "ZA", "names": ["g"]}], []),
                  st("ZP", [{"b": "Pick", "of": "ZB", "names": ["f"]}], []),
                  st("ZS", [{"b": "cls", "name": "ZA"}], [{"name": "h", "ty": ["String"]}])]
    return {"items": items}


def zoo_cases(rng, tier):
    cases = []
    for kind, modname, src in zoo_kinds():
        for required in (True, False):
            cases.append({"suite": "stub", "mod": zoo_module(kind, modname, src, required), "apd": True, "dflt": True,
                          "seeds": [], "zoo": kind, "zoo_pos": "required" if required else "optional"})
    # one Partial over a required declaration per kind as well (the derived class makes it non-required)
    for kind, modname, src in zoo_kinds():
        mod = zoo_module(kind, modname, src, True)
        mod["items"].append({"kind": "struct", "name": "ZPart", "style": "annot",
                             "bases": [{"b": "Partial", "of": "ZA"}], "fields": []})
        cases.append({"suite": "stub", "mod": mod, "apd": rng.random() < 0.5, "dflt": True, "seeds": [],
                      "zoo": kind, "zoo_pos": "required+partial"})
        cases[-1]["dflt"] = cases[-1]["apd"]
    return cases


# ------------------------------------------------------------------ Constants of every allowed type, falsy and truthy

CONST_VALUES = ["0", "0.0", "''", "False", "1", "1.5", "'x'", "True", "Kind0.M0", "Level.ZERO", "Level.ONE",
                "Perm.NONE", "Perm.R"]


def const_cases(rng, tier):
    """a Constant with each value on the class itself, on a base, on the subclass only, and seen through the
    derivation operators"""
    cases = []
    st = lambda name, bases, fields, **kw: dict({"kind": "struct", "name": name, "style": "annot", "bases": bases,
                                                "fields": fields}, **kw)
    root = [{"b": "Structure"}]
    for cv in CONST_VALUES:
        k = {"name": "k", "const": cv, "ty": ["Anything"]}
        a = {"name": "a", "ty": ["String"]}
        items = [{"kind": "enum", "name": "Kind0", "members": ["M0", "M1"]},
                 {"kind": "enum", "name": "Level", "members": ["ZERO", "ONE"], "base": "IntEnum", "start": 0},
                 {"kind": "enum", "name": "Perm", "members": ["NONE", "R", "W"], "base": "Flag", "start": 0},
                 st("CA", root, [k, a]),
                 st("CB", [{"b": "cls", "name": "CA"}], [{"name": "b", "ty": ["Integer"], "default": "1"}]),
                 st("CC", root, [a, {"name": "k2", "const": "'other'", "ty": ["Anything"]}]),
                 st("CD", [{"b": "cls", "name": "CC"}], [k]),
                 st("CE", [{"b": "Extend", "of": "CA"}], [{"name": "e", "ty": ["Integer"]}]),
                 st("CP", [{"b": "Partial", "of": "CA"}], []),
                 st("CO", [{"b": "Omit", "of": "CB", "names": ["b"]}], []),
                 st("CM", [{"b": "cls", "name": "CC"}, {"b": "cls", "name": "CA"}], [], addl=False)]
        for apd in (True, False):
            cases.append({"suite": "stub", "mod": {"items": json.loads(json.dumps(items))}, "apd": apd, "dflt": apd,
                          "seeds": [], "const_value": cv})
    return cases


# ------------------------------------------------------------------ Enum fields over plain values (literals in the stub)

HOSTILE_STRINGS = ['a"b', "it's", "back\\slash", "line\nbreak", "\u00e9t\u00e9", "tab\there", "", " ", '"""', "x'\"y", "#hash",
                   '\\"', "]", "a, b", "None", "\r"]
WORDS = ["shipped", "pending", "delivered", "returned", "packed", "lost", "open", "closed", "alpha", "beta", "gamma"]


def enumvals_cases(rng, tier):
    """Enum(values=...) fields whose values end up (or may end up) as literals inside the stub: every hostile string
    (quotes, backslashes, line breaks, non-ASCII, brackets, commas) as list / tuple / Enum[...] values, top-level and
    nested; values given as a SET of several strings, generated under other PYTHONHASHSEEDs as well"""
    st = lambda name, fields, **kw: dict({"kind": "struct", "name": name, "style": "annot",
                                         "bases": [{"b": "Structure"}], "fields": fields}, **kw)
    cases = []
    for i, h in enumerate(HOSTILE_STRINGS):
        kind = ["EnumVals", "EnumTuple", "EnumItem"][i % 3]
        items = [st("EA", [{"name": "v", "ty": [kind, [h, "plain"]]},
                           {"name": "w", "ty": ["Array", ["EnumVals", [h]]]},
                           {"name": "m", "ty": ["Map", ["String"], ["EnumVals", ["k", h]]]},
                           {"name": "n", "ty": ["EnumVals", [1, 2]]},
                           {"name": "o", "ty": ["AnyOf", ["EnumVals", [h, 3]], ["None"]]}], optional=["w", "m"]),
                 st("EB", [{"name": "x", "ty": ["String"]}], bases=[{"b": "Partial", "of": "EA"}])]
        cases.append({"suite": "stub", "mod": {"items": items}, "apd": True, "dflt": True, "seeds": [],
                      "enumvals": "hostile:" + kind})
    for k in range(2 if tier == "quick" else 6):
        vals = rng.sample(WORDS, 6)
        items = [st("ES", [{"name": "status", "ty": ["EnumSet", vals]},
                           {"name": "tags", "ty": ["Array", ["EnumSet", rng.sample(WORDS, 5)]]},
                           {"name": "nums", "ty": ["EnumSet", [3, 1, 2]]}], optional=["tags"])]
        cases.append({"suite": "stub", "mod": {"items": items}, "apd": True, "dflt": True,
                      "seeds": [1, 4242] if tier == "quick" else [1, 2, 3, 4242], "enumvals": "set-valued"})
    return cases


# ------------------------------------------------------------------ shared ancestors (diamonds; C3 linearisation)

DIAMOND_SHAPES = [
    [("A", []), ("B", ["A"]), ("C", ["A"]), ("D", ["B", "C"])],
    [("A", []), ("B", ["A"]), ("C", ["A"]), ("D", ["B", "C"]), ("E", ["D"])],
    [("A", []), ("B", ["A"]), ("C", ["A"]), ("D", ["C", "B"]), ("E", ["D", "A"])],
    [("A", []), ("A2", []), ("B", ["A", "A2"]), ("C", ["A2"]), ("D", ["B", "C"])],
    [("A", []), ("B", ["A"]), ("C", ["B"]), ("D", ["B"]), ("E", ["C", "D"])],
    [("A", []), ("B", ["A"]), ("C", ["A"]), ("D", ["A"]), ("E", ["B", "C", "D"])],
]


def diamond_cases(rng, tier):
    """hierarchies with a shared Structure ancestor: own fields in every form, overriding along one branch,
    flags on any class; plus the fixed family in which one branch redeclares an ancestor's Constant as a Field"""
    cases = []
    st = lambda name, bases, fields, **kw: dict({"kind": "struct", "name": name, "style": "annot",
                                                "bases": [{"b": "cls", "name": b} for b in bases] or [{"b": "Structure"}],
                                                "fields": fields}, **kw)
    # the constant-shadowing family (finding names-mismatch:constant-shadowed-in-diamond)
    for zform in ("req", "opt"):
        items = [st("Y", [], [{"name": "n", "const": "3", "ty": ["Anything"]}, {"name": "y", "ty": ["Integer"]}]),
                 st("P", ["Y"], [{"name": "p", "ty": ["Integer"]}]),
                 st("Z", ["Y"], [{"name": "n", "ty": ["String"]}, {"name": "z", "ty": ["Integer"]}],
                    **({"optional": ["n"]} if zform == "opt" else {})),
                 st("B", ["P", "Z"], [{"name": "b", "ty": ["Integer"]}]),
                 st("D", ["B"], [{"name": "d", "ty": ["Integer"]}]),
                 st("D2", ["B"], [{"name": "d", "ty": ["Integer"]}], addl=False)]
        cases.append({"suite": "stub", "mod": {"items": items}, "apd": True, "dflt": True, "seeds": [],
                      "diamond": "constant-shadowed:" + zform})
    n = 45 if tier == "quick" else 700
    pool = [x for x in NAMES if x not in ("source_object", "ignore_props", "kw", "cls_", "self_")]
    for k in range(n):
        shape = rng.choice(DIAMOND_SHAPES)
        names = rng.sample(pool, len(pool))
        info = {}       # class -> {field: form} as inherited view (first base wins, own overrides)
        items = []
        for cname, bases in shape:
            inherited = {}
            for b in bases:
                for fn, form in info[b].items():
                    inherited.setdefault(fn, form)
            fields, optional, required = [], [], None
            for _ in range(rng.choice([0, 1, 1, 2, 2, 3]) if bases else rng.choice([1, 2, 3])):
                fn = names.pop()
                form = rng.choice(["req", "req", "opt", "dflt", "const", "typing-opt", "optshape"])
                f = {"name": fn, "ty": [rng.choice(["String", "Integer", "Float", "Boolean"])]}
                if form == "const":
                    f = {"name": fn, "const": rng.choice(["3", "'c'", "0"]), "ty": ["Anything"]}
                elif form == "dflt":
                    f["default"] = {"String": "'d'", "Integer": "5", "Float": "2.5", "Boolean": "False"}[f["ty"][0]]
                elif form == "opt":
                    optional.append(fn)
                elif form == "typing-opt":
                    f["ty"] = ["pyopt", ["py", "int"]]
                elif form == "optshape":
                    f["ty"] = ["AnyOf", f["ty"], ["None"]]
                    form = "req"
                fields.append(f)
                inherited[fn] = form
            ov = [fn for fn, form in inherited.items() if form in ("req", "opt") and fn not in [f["name"] for f in fields]]
            if bases and ov and rng.random() < 0.45:
                fn = rng.choice(sorted(ov))
                fields.append({"name": fn, "ty": [rng.choice(["String", "Integer"])]})
                if inherited[fn] == "opt" and rng.random() < 0.5:
                    optional.append(fn)
                else:
                    inherited[fn] = "req"
            it = st(cname, bases, fields)
            if optional:
                it["optional"] = optional
            elif fields and rng.random() < 0.2:
                plain = [f["name"] for f in fields if f.get("const") is None and f.get("default") is None
                         and f["ty"][0] != "pyopt"]
                it["required"] = [x for x in plain if rng.random() < 0.6]
                for x in plain:
                    if x not in it["required"] and inherited.get(x) == "req" and x in ov:
                        it["required"].append(x)
            if rng.random() < 0.3:
                it["addl"] = rng.random() < 0.5
            info[cname] = inherited
            items.append(it)
        apd = rng.random() < 0.7
        cases.append({"suite": "stub", "mod": {"items": items}, "apd": apd, "dflt": apd, "seeds": [],
                      "diamond": "shape%d" % DIAMOND_SHAPES.index(shape)})
    return cases


# ------------------------------------------------------------------ stub default != runtime default; inherited __init__

def apd_cases(rng, tier):
    """the stub generated with another additional_properties_default than the runtime's: chains in which the flag is
    declared on the class, only on a base, or nowhere (there the `**` clause is `apd` by configuration)"""
    st = lambda name, bases, fields, **kw: dict({"kind": "struct", "name": name, "style": "annot",
                                                "bases": [{"b": "cls", "name": b} for b in bases] or [{"b": "Structure"}],
                                                "fields": fields}, **kw)
    cases = []
    for dflt in (True, False):
        for flag in (True, False):
            items = [st("N0", [], [{"name": "a", "ty": ["String"]}]),
                     st("N1", ["N0"], [{"name": "b", "ty": ["Integer"], "default": "1"}]),
                     st("F0", [], [{"name": "a", "ty": ["String"]}], addl=flag),
                     st("F1", ["F0"], [{"name": "b", "ty": ["Integer"]}], optional=["b"]),
                     st("F2", ["F1"], [{"name": "c", "ty": ["String"]}], addl=not flag),
                     st("F3", ["F2", "N0"] if False else ["F2"], [])]
            cases.append({"suite": "stub", "mod": {"items": items}, "apd": not dflt, "dflt": dflt, "seeds": [],
                          "family": "apd-differs"})
    for k in range(6 if tier == "quick" else 60):
        spec = ModGen(rng, tier).module(k)
        dflt = rng.random() < 0.5
        cases.append({"suite": "stub", "mod": spec, "apd": not dflt, "dflt": dflt, "seeds": [], "family": "apd-differs"})
    return cases


def inh_init_cases(rng, tier):
    """subclasses of a Structure class with a user-written __init__ (the stub generates a field-based __init__ for
    them; compared with inspect.signature(cls))"""
    st = lambda name, bases, fields, **kw: dict({"kind": "struct", "name": name, "style": "annot",
                                                "bases": [{"b": "cls", "name": b} for b in bases] or [{"b": "Structure"}],
                                                "fields": fields}, **kw)
    cases = []
    for kw in (False, True):
        for extra in (False, True):
            ci = {"params": [["a", None], ["o", "None"]] + ([["extra_flag", "None"]] if extra else []),
                  "forward": ["a", "o"], "kw": kw}
            items = [st("IB", [], [{"name": "a", "ty": ["Integer"]}, {"name": "o", "ty": ["String"]}], optional=["o"],
                        custom_init=ci),
                     st("IS", ["IB"], [{"name": "b", "ty": ["String"]}]),
                     st("IE", ["IB"], []),
                     st("IT", ["IS"], [{"name": "c", "ty": ["Integer"], "default": "3"}], addl=False),
                     st("IO", ["IB"], [{"name": "x", "ty": ["Integer"]}],
                        custom_init={"params": [["a", None], ["x", "None"]], "forward": ["a"], "kw": False})]
            cases.append({"suite": "stub", "mod": {"items": items}, "apd": True, "dflt": True, "seeds": [],
                          "family": "inherited-custom-init"})
    return cases


# ------------------------------------------------------------------ the module-level import block, every form

IMPORT_FORMS = [
    "import os", "import os.path", "import xml.etree.ElementTree", "import json as js", "import os.path as osp",
    "import xml.etree.ElementTree as ET", "import collections.abc", "import os, sys", "import os.path, json as js2",
    "from os import path", "from os import path as p2", "from collections import OrderedDict, deque as dq",
    "from xml.etree import ElementTree", "from xml.etree.ElementTree import Element as El, SubElement",
    "from collections.abc import Mapping as AbcMapping", "import importlib.util", "import email.mime.text as emt",
    "from decimal import Decimal", "import decimal as dec", "import datetime as dtm", "from datetime import date, datetime as DT2",
    "import logging.handlers", "from logging import handlers as lh",
]


def import_cases(rng, tier):
    """the import block of the module copied into the stub (`_get_direct_imported_as_code`): plain, dotted, aliased,
    aliased dotted, several names in one statement, from-imports with and without aliases — each form alone and in
    random combinations, next to a Structure class (the whole .pyi must parse, whatever the imports look like)"""
    st = lambda name, fields: {"kind": "struct", "name": name, "style": "annot", "bases": [{"b": "Structure"}],
                               "fields": fields}
    body = [st("IM", [{"name": "a", "ty": ["String"]}, {"name": "n", "ty": ["Integer"], "default": "1"}])]
    cases = []
    for f in IMPORT_FORMS:
        cases.append({"suite": "stub", "mod": {"items": [{"kind": "raw", "src": f}] + json.loads(json.dumps(body))},
                      "apd": True, "dflt": True, "seeds": [], "family": "imports:single"})
    for k in range(10 if tier == "quick" else 120):
        forms = rng.sample(IMPORT_FORMS, rng.randint(2, 6))
        cases.append({"suite": "stub", "mod": {"items": [{"kind": "raw", "src": "\n".join(forms)}] + json.loads(json.dumps(body))},
                      "apd": True, "dflt": True, "seeds": [1] if k % 5 == 0 else [], "family": "imports:mixed"})
    return cases


# ------------------------------------------------------------------ two bases declaring the same field name

MI_KINDS = ["req", "opt", "dflt", "const"]


def mi_cases(rng, tier):
    """class C(A, B): both bases declare `f`, with every pair of requiredness forms, other fields of the bases
    required or all optional; D(C) adds only optional fields"""
    def decl(name, fkind, other, other_req):
        fields = []
        it = {"kind": "struct", "name": name, "style": "annot", "bases": [{"b": "Structure"}], "fields": fields}
        if fkind == "const":
            fields.append({"name": "f", "const": "'k'", "ty": ["Anything"]})
        else:
            f = {"name": "f", "ty": ["String"]}
            if fkind == "dflt":
                f["default"] = "'d'"
            fields.append(f)
        fields.append({"name": other, "ty": ["Integer"]})
        opt = ([] if other_req else [other]) + (["f"] if fkind == "opt" else [])
        if opt:
            it["optional"] = opt
        return it
    cases = []
    for ka in MI_KINDS:
        for kb in MI_KINDS:
            for other_req in (False, True):
                items = [decl("A", ka, "a", other_req), decl("B", kb, "b", other_req),
                         {"kind": "struct", "name": "C", "style": "annot", "fields": [],
                          "bases": [{"b": "cls", "name": "A"}, {"b": "cls", "name": "B"}]},
                         {"kind": "struct", "name": "D", "style": "annot",
                          "bases": [{"b": "cls", "name": "C"}],
                          "fields": [{"name": "extra", "ty": ["Integer"], "default": "2"},
                                     {"name": "note", "ty": ["pyopt", ["py", "str"]]}]}]
                cases.append({"suite": "stub", "mod": {"items": items}, "apd": True, "dflt": True, "seeds": [],
                              "mi": f"{ka}+{kb}" + ("/others-required" if other_req else "/others-optional")})
    return cases


# ------------------------------------------------------------------ function / method signatures ("sig zoo")

SIG_PRELUDE = """import functools


def helper_fn(x=1):
    return x


class CallableThing:
    def __call__(self, *a):
        return 1


CALLABLE_THING = CallableThing()


class Marker:
    pass
"""
DEFAULT_KINDS = {      # default kind -> source
    "literal": "3", "string": "'x'", "none": "None", "class": "int", "localclass": "Marker", "lambda": "lambda v: v",
    "function": "helper_fn", "partial": "functools.partial(helper_fn, 2)", "callable-instance": "CALLABLE_THING",
    "mutable": "[]",
}
# parameter-kind layouts; {D} is the default under test ("" for the layouts without one)
SHAPES_D = {
    "pk-default": "a, b={D}",
    "posonly-default": "a, b={D}, /, c=None",
    "bare-star-kwonly": "a, *, qty={D}",
    "varargs-kwonly": "a, *names, qty={D}",
    "varargs-first-kwonly": "*names, qty={D}",
    "everything": "a, /, b, *names, qty={D}, flag, **extra",
}
SHAPES_PLAIN = {
    "posonly": "a, /, b",
    "varargs": "a, *names",
    "kwargs": "a, **extra",
    "kwonly-mandatory": "a, *, qty",
    "varargs-kwargs": "*names, **extra",
    "bare-star-two": "*, qty, flag=None",
}
SITES = ["func", "struct-method", "plain-method", "dataclass-method", "staticmethod", "classmethod",
         "struct-init", "plain-init", "dataclass-init"]


def sig_module(site, dkind):
    """all layouts of one default kind (or the default-free layouts) at one site"""
    shapes = ({k: v.replace("{D}", DEFAULT_KINDS[dkind]) for k, v in SHAPES_D.items()} if dkind != "nodefault"
              else SHAPES_PLAIN)
    src, expect, classes = [SIG_PRELUDE], [], []
    join = lambda first, ps: ", ".join([x for x in (first, ps) if x])
    for i, (shape, ps) in enumerate(shapes.items()):
        fn = f"f{i}"
        if site == "func":
            src.append(f"def {fn}({ps}):\n    return None\n")
            expect.append([None, fn, shape])
        elif site in ("struct-method", "classmethod"):
            if i == 0:
                src.append("class SM(Structure):\n    v: Integer = 1\n")
                classes.append("SM")
            if site == "classmethod":
                src.append(f"    @classmethod\n    def {fn}({join('cls', ps)}):\n        return None\n")
            else:
                src.append(f"    def {fn}({join('self', ps)}):\n        return None\n")
            expect.append(["SM", fn, shape])
        elif site in ("plain-method", "staticmethod"):
            if i == 0:
                src.append("class PM:\n    tag = 1\n")
                classes.append("PM")
            if site == "staticmethod":
                src.append(f"    @staticmethod\n    def {fn}({ps}):\n        return None\n")
            else:
                src.append(f"    def {fn}({join('self', ps)}):\n        return None\n")
            expect.append(["PM", fn, shape])
        elif site == "dataclass-method":
            if i == 0:
                src.append("@dataclasses.dataclass\nclass DM:\n    x: int = 0\n")
                classes.append("DM")
            src.append(f"    def {fn}({join('self', ps)}):\n        return None\n")
            expect.append(["DM", fn, shape])
        elif site == "struct-init":
            src.append(f"class SI{i}(Structure):\n    v: Integer = 1\n\n    def __init__({join('self', ps)}):\n"
                       "        super().__init__()\n")
            classes.append(f"SI{i}")
            expect.append([f"SI{i}", "__init__", shape])
        elif site == "plain-init":
            src.append(f"class PI{i}:\n    def __init__({join('self', ps)}):\n        self.done = True\n")
            classes.append(f"PI{i}")
            expect.append([f"PI{i}", "__init__", shape])
        elif site == "dataclass-init":
            src.append(f"@dataclasses.dataclass\nclass DI{i}:\n    x: int = 0\n\n    def __init__({join('self', ps)}):\n"
                       "        self.x = 1\n")
            classes.append(f"DI{i}")
            expect.append([f"DI{i}", "__init__", shape])
    return {"items": [{"kind": "raw", "src": "\n".join(src), "expect": expect, "classes": classes}]}


def sig_cases(rng, tier):
    cases = []
    for site in SITES:
        for dkind in ["nodefault"] + list(DEFAULT_KINDS):
            cases.append({"suite": "stub", "mod": sig_module(site, dkind), "apd": True, "dflt": True, "seeds": [],
                          "sig_site": site, "sig_default": dkind})
    return cases


def gen_cases(rng, tier, n_modules):
    cases = []
    for i in range(n_modules):
        spec = ModGen(rng, tier).module(i)
        apd = rng.random() < 0.6
        case = {"suite": "stub", "mod": spec, "apd": apd, "dflt": apd,
                "seeds": ([rng.choice([1, 2, 3, 11, 12345]), rng.choice([4, 99, 4242])] if tier != "quick"
                          else [rng.choice([1, 7, 4242])]) if (tier != "quick" or i % 3 == 0) else []}
        cases.append(case)
    return cases


CORPUS = [
    # regression inputs: the fixed findings required-optional-default (K), nested-optional syntax error (N) and
    # import-name-clash (W, `import datetime` + datetime.datetime field: must generate and parse since 7abae24),
    # and the kernel-checked counterexample of Props/C16.lean (P/Q, inherited-additional-properties)
    {"suite": "stub", "apd": True, "dflt": True, "seeds": [1], "mod": {"items": [
        {"kind": "struct", "name": "K", "style": "annot", "bases": [{"b": "Structure"}],
         "fields": [{"name": "e", "ty": ["AnyOf", ["Integer"], ["None"]]}, {"name": "s", "ty": ["String"]}]}]}},
    {"suite": "stub", "apd": False, "dflt": False, "seeds": [1], "mod": {"items": [
        {"kind": "struct", "name": "P", "style": "annot", "bases": [{"b": "Structure"}], "addl": True,
         "fields": [{"name": "a", "ty": ["String"]}]},
        {"kind": "struct", "name": "Q", "style": "annot", "bases": [{"b": "cls", "name": "P"}],
         "fields": [{"name": "b", "ty": ["String"]}]}]}},
    {"suite": "stub", "apd": True, "dflt": True, "seeds": [], "mod": {"items": [
        {"kind": "struct", "name": "P", "style": "annot", "bases": [{"b": "Structure"}], "addl": False,
         "fields": [{"name": "a", "ty": ["String"]}]},
        {"kind": "struct", "name": "Q", "style": "annot", "bases": [{"b": "cls", "name": "P"}],
         "fields": [{"name": "b", "ty": ["String"]}]}]}},
    {"suite": "stub", "apd": True, "dflt": True, "seeds": [], "mod": {"items": [
        {"kind": "import", "module": "datetime"},
        {"kind": "struct", "name": "W", "style": "annot", "bases": [{"b": "Structure"}],
         "fields": [{"name": "when", "ty": ["pymod", "datetime.datetime"]}, {"name": "s", "ty": ["String"]}]}]}},
    {"suite": "stub", "apd": True, "dflt": True, "seeds": [], "mod": {"items": [
        {"kind": "struct", "name": "N", "style": "annot", "bases": [{"b": "Structure"}],
         "fields": [{"name": "m", "ty": ["Map", ["String"], ["AnyOf", ["Integer"], ["None"]]]}]}]}},
]


# ------------------------------------------------------------------ running the real generator

def case_key(case):
    c = {k: v for k, v in case.items() if k in ("mod", "apd", "dflt")}
    return hashlib.sha256(json.dumps(c, sort_keys=True).encode()).hexdigest()[:16]


def case_paths(case):
    key = case_key(case)
    root = os.path.join(WORK, key)
    return key, root, os.path.join(root, "pkg", f"m_{key}.py")


def write_module(case):
    key, root, path = case_paths(case)
    os.makedirs(os.path.dirname(path), exist_ok=True)
    src = render_module(case["mod"])
    with open(path, "w", encoding="utf-8") as f:
        f.write(src)
    return key, root, path, src


SUB_CODE = r"""
import sys, json, hashlib, os, logging
logging.disable(logging.CRITICAL)
jobs = json.load(sys.stdin)
from typedpy import create_stub_for_file
from typedpy.structures import TypedPyDefaults
out = {}
for j in jobs:
    try:
        TypedPyDefaults.additional_properties_default = j["dflt"]
        create_stub_for_file(j["path"], j["root"], j["stubs"], additional_properties_default=j["apd"])
        p = os.path.join(j["stubs"], "pkg", os.path.basename(j["path"])[:-3] + ".pyi")
        out[j["key"]] = hashlib.sha256(open(p, "rb").read()).hexdigest()
    except BaseException as e:
        out[j["key"]] = "ERR " + type(e).__name__ + ": " + str(e)[:200]
print(json.dumps(out))
"""

_SUB_CACHE = {}     # (key, seed) -> sha256 | "ERR …"


def run_subprocess(jobs, seed):
    env = dict(os.environ)
    env["PYTHONHASHSEED"] = str(seed)
    p = subprocess.run([sys.executable, "-c", SUB_CODE], input=json.dumps(jobs), capture_output=True, text=True,
                       env=env, timeout=1200)
    if p.returncode != 0:
        raise RuntimeError(f"stub subprocess (seed {seed}) failed: {p.stderr[-1500:]}")
    return json.loads(p.stdout.strip().split("\n")[-1])


def prepare(cases):
    """batch the hash-seed runs: one subprocess per seed for all cases that ask for it"""
    by_seed = {}
    for c in cases:
        if not c.get("seeds"):
            continue
        key, root, path, _ = write_module(c)
        for s in c["seeds"]:
            by_seed.setdefault(s, []).append({"key": key, "path": path, "root": root, "dflt": c["dflt"], "apd": c["apd"],
                                              "stubs": os.path.join(root, f".stubs_seed{s}")})
    for s, jobs in sorted(by_seed.items()):
        res = run_subprocess(jobs, s)
        for k, v in res.items():
            _SUB_CACHE[(k, s)] = v


def reset_work():
    shutil.rmtree(WORK, ignore_errors=True)
    _SUB_CACHE.clear()


def params_of(fn, drop_first=True):
    a = fn.args
    pos = list(a.posonlyargs) + list(a.args)
    nd = len(a.defaults)
    plist = [[p.arg, i >= len(pos) - nd] for i, p in enumerate(pos)]
    if drop_first and plist:
        plist = plist[1:]
    kwonly = [[p.arg, d is not None] for p, d in zip(a.kwonlyargs, a.kw_defaults)]
    return {"pos": plist, "kwonly": kwonly, "vararg": a.vararg is not None, "kw": a.kwarg is not None,
            "deco": [ast.unparse(d) for d in fn.decorator_list], "full": full_params_ast(fn)}


def full_params_ast(fn):
    """[name, kind, has default] of every parameter (self/cls included); kinds po/pk/va/ko/vk as in inspect"""
    a = fn.args
    pos = [(p, "po") for p in a.posonlyargs] + [(p, "pk") for p in a.args]
    nd = len(a.defaults)
    out = [[p.arg, k, i >= len(pos) - nd] for i, (p, k) in enumerate(pos)]
    if a.vararg is not None:
        out.append([a.vararg.arg, "va", False])
    out += [[p.arg, "ko", d is not None] for p, d in zip(a.kwonlyargs, a.kw_defaults)]
    if a.kwarg is not None:
        out.append([a.kwarg.arg, "vk", False])
    return out


_KINDS = {inspect.Parameter.POSITIONAL_ONLY: "po", inspect.Parameter.POSITIONAL_OR_KEYWORD: "pk",
          inspect.Parameter.VAR_POSITIONAL: "va", inspect.Parameter.KEYWORD_ONLY: "ko",
          inspect.Parameter.VAR_KEYWORD: "vk"}


def full_params_runtime(obj):
    """the same view of a runtime function object (for staticmethod/classmethod objects: of the wrapped function)"""
    f = obj.__func__ if isinstance(obj, (staticmethod, classmethod)) else obj
    return [[p.name, _KINDS[p.kind], p.default is not inspect.Parameter.empty]
            for p in inspect.signature(f).parameters.values()]


def parse_stub(text):
    tree = ast.parse(text)
    classes, funcs = {}, {}
    for node in tree.body:
        if isinstance(node, ast.ClassDef):
            info = {"bases": [ast.unparse(b) for b in node.bases], "methods": {}, "assigned": [], "annotated": []}
            for st in node.body:
                if isinstance(st, ast.FunctionDef):
                    info["methods"].setdefault(st.name, []).append(params_of(st))
                elif isinstance(st, ast.Assign):
                    info["assigned"] += [t.id for t in st.targets if isinstance(t, ast.Name)]
                elif isinstance(st, ast.AnnAssign) and isinstance(st.target, ast.Name):
                    info["annotated"].append([st.target.id, st.value is not None])
            classes[node.name] = info
        elif isinstance(node, ast.FunctionDef):
            funcs.setdefault(node.name, []).append(full_params_ast(node))
    return classes, funcs


def extra_import_lines(text):
    """the `sorted(extra_imports)` block of `add_imports`: between `from typedpy import Structure`, "" and the
    module's own first import (`import enum` in every generated module)"""
    lines = text.split("\n")
    try:
        i = lines.index("from typedpy import Structure")
        j = lines.index("import enum", i)
    except ValueError:
        return None
    return [l for l in lines[i + 2:j]]


def load_module(path, key):
    spec = importlib.util.spec_from_file_location(f"m_{key}", path)
    mod = importlib.util.module_from_spec(spec)
    mod.__package__ = "pkg"
    spec.loader.exec_module(mod)
    return mod


def dump_hierarchy(mod, spec_by_name):
    """abstraction function: real Structure classes → ClassInfo table (Decl + base indices)"""
    from typedpy import Structure, AnyOf, OneOf, AllOf
    from typedpy.commons import Constant
    from typedpy.structures import NoneField
    from typedpy.structures.structures import StructMeta
    table, index = [], {}
    mod_attr_ids = {id(v) for v in vars(mod).values()}

    def opt_shape(f):
        return (isinstance(f, (AnyOf, OneOf, AllOf)) and len(getattr(f, "_fields", [])) == 2
                and isinstance(f._fields[1], NoneField) and id(f) not in mod_attr_ids)

    def visit(cls):
        if id(cls) in index:
            return index[id(cls)]
        bases = [b for b in cls.__bases__ if isinstance(b, StructMeta) and b is not Structure]
        bidx = [visit(b) for b in bases]
        generated = cls.__module__ == mod.__name__ and cls.__name__ in spec_by_name
        fields = []
        for n in cls._fields:
            f = cls.__dict__[n]
            fields.append({"n": n, "c": isinstance(f, Constant),
                           "d": getattr(f, "_default", None) is not None, "o": opt_shape(f)})
        if generated:
            required = spec_by_name[cls.__name__].get("required")
        else:
            if bidx:
                raise Unsupported(f"library class {cls.__name__} with Structure bases")
            required = sorted(cls._required)
        opt = cls.__dict__.get("_optional", [])
        d = {"name": cls.__name__, "fields": fields, "required": required, "optional": sorted(opt),
             "addl": cls.__dict__.get("_additional_properties"), "bases": bidx, "generated": generated}
        if d["addl"] is not None:
            d["addl"] = bool(d["addl"])
        index[id(cls)] = len(table)
        table.append(d)
        return index[id(cls)]

    targets = []
    nontree = []
    for name, it in spec_by_name.items():
        cls = getattr(mod, name)
        i = visit(cls)
        # tree-shaped hierarchy: the tree model's MRO is the depth-first pre-order
        seen = []

        def walk(j):
            seen.append(j)
            for b in table[j]["bases"]:
                walk(b)
        walk(i)
        if len(seen) != len(set(seen)):
            nontree.append(i)       # shared ancestor: only the Define-based model (C3 linearisation) applies
        targets.append(i)
    dump_hierarchy.nontree = nontree
    return table, targets


class Unsupported(Exception):
    pass


def runtime_view(mod, cls, it, spec_by_name):
    """what the real class accepts — the oracle side"""
    from typedpy import Structure
    sig = inspect.signature(cls)
    params = [[n, p.default is not inspect.Parameter.empty] for n, p in sig.parameters.items()
              if p.kind != inspect.Parameter.VAR_KEYWORD]
    view = {"sig": sorted(params), "sigkw": any(p.kind == inspect.Parameter.VAR_KEYWORD for p in sig.parameters.values()),
            "required": sorted(set(cls._required)), "consts": sorted(cls._constants),
            "fieldOrder": list(cls.get_all_fields_by_name())}
    # the __setattr__ guard, observed on an un-initialised instance
    try:
        o = cls.__new__(cls)
        try:
            setattr(o, "zz_unknown_", 1)
            view["guard"] = True
        except ValueError as e:
            view["guard"] = False if "non-field" in str(e) else None
    except Exception:
        view["guard"] = None
    custom = "__init__" in cls.__dict__
    view["custom"] = custom
    # a user-written __init__ further up the MRO: the constructor's behaviour is that function's business; the stub
    # is compared with inspect.signature(cls) only
    inherits_custom = any("__init__" in k.__dict__ for k in cls.__mro__[1:]
                          if isinstance(k, type(Structure)) and k.__module__ == cls.__module__)
    view["inherits_custom"] = inherits_custom
    if custom:
        fs = inspect.signature(cls.__dict__["__init__"])
        ps = list(fs.parameters.values())[1:]
        view["custom_sig"] = {
            "pos": [[p.name, p.default is not inspect.Parameter.empty] for p in ps
                    if p.kind in (p.POSITIONAL_ONLY, p.POSITIONAL_OR_KEYWORD)],
            "kwonly": [[p.name, p.default is not inspect.Parameter.empty] for p in ps if p.kind == p.KEYWORD_ONLY],
            "vararg": any(p.kind == p.VAR_POSITIONAL for p in ps), "kw": any(p.kind == p.VAR_KEYWORD for p in ps)}
    # behaviour of the real constructor: valid kwargs, then one missing / one extra
    view["behav"] = None
    if not custom and not inherits_custom:
        try:
            kw = build_kwargs(mod, cls)
        except Exception as e:
            kw = None
            view["behav_skip"] = f"{type(e).__name__}: {e}"[:200]
        if kw is not None:
            b = {}
            try:
                cls(**kw)
                b["base_ok"] = True
            except Exception as e:
                b["base_ok"] = False
                b["base_err"] = f"{type(e).__name__}: {e}"[:200]
            if b["base_ok"]:
                try:
                    cls(**kw, zz_unknown_=1)
                    b["extra_ok"] = True
                except (TypeError, ValueError) as e:
                    b["extra_ok"] = False
                    b["extra_err"] = f"{type(e).__name__}: {e}"[:120]
                need = []
                for n in kw:
                    rest = {k: v for k, v in kw.items() if k != n}
                    try:
                        cls(**rest)
                    except TypeError as e:
                        if "missing a required argument" in str(e):
                            need.append(n)
                    except Exception:
                        pass
                b["needed"] = sorted(need)
                b["given"] = sorted(kw)
                consts_rejected = []
                for n in cls._constants:
                    try:
                        cls(**kw, **{n: cls._constants[n]})
                    except (TypeError, ValueError):
                        consts_rejected.append(n)
                b["consts_rejected"] = sorted(consts_rejected)
            view["behav"] = b
    return view


def build_kwargs(mod, cls, depth=0):
    """valid keyword arguments for every non-constant field, from the generated type expressions"""
    if depth > 4:
        raise Unsupported("reference depth")
    types = getattr(mod, "_c16_types")
    kw = {}
    for n in cls.get_all_fields_by_name():
        if n in cls._constants:
            continue
        t = find_type(mod, cls, n, types)
        if t is None:
            raise Unsupported(f"no type for {n}")
        src = valid_src(t, mod)
        if src is None:
            raise Unsupported(f"no value for {t}")
        ns = dict(vars(mod))
        for ref in types:
            ns[f"_mk_{ref}"] = (lambda r: (lambda: getattr(mod, r)(**build_kwargs(mod, getattr(mod, r), depth + 1))))(ref)
        kw[n] = eval(src, ns)
    return kw


def find_type(mod, cls, field, types):
    """type expression of a field: look through the generated classes the field can come from"""
    for c in cls.__mro__:
        t = types.get(c.__name__, {}).get(field)
        if t is not None and field in getattr(c, "_fields", []):
            return t
    # Partial/Omit/Pick/Extend intermediates copy the fields of their source class
    for c in cls.__mro__:
        nm = c.__name__
        for pre in ("Partial", "Omit", "Pick", "Extend", "AllFieldsRequired"):
            if nm.startswith(pre) and nm[len(pre):] in types:
                src = getattr(mod, nm[len(pre):])
                t = find_type(mod, src, field, types)
                if t is not None:
                    return t
    return None


def run_impl(case):
    import logging
    from typedpy import create_stub_for_file
    from typedpy.structures import TypedPyDefaults
    key, root, path, src = write_module(case)
    spec_by_name = {it["name"]: it for it in case["mod"]["items"] if it["kind"] == "struct"}
    res = {"key": key}
    # 1. the module must be importable at all (otherwise outside the property's domain)
    saved_path = list(sys.path)
    saved_default = TypedPyDefaults.additional_properties_default
    logging.disable(logging.CRITICAL)
    try:
        TypedPyDefaults.additional_properties_default = case["dflt"]
        try:
            mod = load_module(path, key)
        except Exception as e:
            return {"unbuildable": f"{type(e).__name__}: {e}"[:300], "key": key}
        mod._c16_types = {n: {f["name"]: f["ty"] for f in it["fields"] if f.get("const") is None}
                          for n, it in spec_by_name.items()}
        # 2. the real generator
        stubs = os.path.join(root, ".stubs")
        try:
            create_stub_for_file(path, root, stubs, additional_properties_default=case["apd"])
            pyi = os.path.join(stubs, "pkg", f"m_{key}.pyi")
            data = open(pyi, "rb").read()
            res["sha"] = hashlib.sha256(data).hexdigest()
            text = data.decode("utf-8")
        except Exception as e:
            res["gen_err"] = f"{type(e).__name__}: {e}"[:300]
            text = None
        if text is not None:
            res["extra_imports"] = extra_import_lines(text)
            try:
                classes, funcs = parse_stub(text)
                res["stub"] = {"classes": classes, "funcs": funcs}
                try:    # checks made after parsing (duplicate argument names, …)
                    compile(text, "<stub>", "exec", dont_inherit=True)
                except SyntaxError as e:
                    line = text.split("\n")[e.lineno - 1] if e.lineno else ""
                    res["compile_err"] = {"msg": str(e.msg), "line": line.strip()[:200]}
            except SyntaxError as e:
                line = text.split("\n")[e.lineno - 1] if e.lineno else ""
                res["syntax_err"] = {"msg": str(e.msg), "line": line.strip()[:200]}
        # 3. abstraction + oracle views of the real classes
        try:
            table, targets = dump_hierarchy(mod, spec_by_name)
            res["table"], res["targets"] = table, targets
            res["nontree"] = list(dump_hierarchy.nontree)
        except Unsupported as e:
            res["unsupported"] = str(e)
            return res
        res["abstraction"] = check_abstraction(mod, spec_by_name)
        res["runtime"] = {n: runtime_view(mod, getattr(mod, n), it, spec_by_name) for n, it in spec_by_name.items()}
        res["enums_iter"] = {it["name"]: [m.name for m in getattr(mod, it["name"])]
                             for it in case["mod"]["items"] if it["kind"] == "enum"}
        res["enums"] = {it["name"]: list(getattr(mod, it["name"]).__members__)
                        for it in case["mod"]["items"] if it["kind"] == "enum"}
        res["others"] = [it["name"] for it in case["mod"]["items"] if it["kind"] in ("plain", "dataclass")]
        res["functions"] = [it["name"] for it in case["mod"]["items"] if it["kind"] == "func"]
        sigs = {}
        for it in case["mod"]["items"]:
            for owner, name, _shape in it.get("expect", []) if it["kind"] == "raw" else []:
                try:
                    obj = getattr(mod, name) if owner is None else getattr(mod, owner).__dict__[name]
                    sigs[f"{owner or ''}.{name}"] = full_params_runtime(obj)
                except Exception as e:
                    sigs[f"{owner or ''}.{name}"] = f"ERR {type(e).__name__}: {e}"[:200]
        for it in case["mod"]["items"]:       # the functions / methods of the ordinary generated items as well
            if it["kind"] == "func":
                sigs[f".{it['name']}"] = full_params_runtime(getattr(mod, it["name"]))
            elif it["kind"] in ("plain", "struct", "enum"):
                c = getattr(mod, it["name"])
                for mn in ("__init__", "describe", "total", "label"):
                    if mn in c.__dict__ and inspect.isfunction(c.__dict__[mn]):
                        sigs[f"{it['name']}.{mn}"] = full_params_runtime(c.__dict__[mn])
        res["sigs"] = sigs
        if text is not None:
            try:
                res["text"] = text_view(case, mod, text, spec_by_name, targets, res["runtime"], "stub" in res, sigs)
            except Exception as e:      # the tie itself must not break a run: reported as a correspondence message
                res["text_err"] = f"{type(e).__name__}: {e}"[:300]
    finally:
        TypedPyDefaults.additional_properties_default = saved_default
        sys.path[:] = saved_path
        logging.disable(logging.NOTSET)
    # 4. other hash seeds (fresh interpreters)
    seeds = {}
    for s in case.get("seeds", []):
        if (key, s) not in _SUB_CACHE:
            _SUB_CACHE.update({(k, s): v for k, v in run_subprocess(
                [{"key": key, "path": path, "root": root, "dflt": case["dflt"], "apd": case["apd"],
                  "stubs": os.path.join(root, f".stubs_seed{s}")}], s).items()})
        seeds[str(s)] = _SUB_CACHE[(key, s)]
    res["seeds"] = seeds
    return res


def check_abstraction(mod, spec_by_name):
    """dump(build(spec)) == spec for the part of the declaration the generator controls"""
    from typedpy.commons import Constant
    problems = []
    for name, it in spec_by_name.items():
        cls = getattr(mod, name)
        want = sorted(f["name"] for f in it["fields"])
        if sorted(cls._fields) != want:
            problems.append(f"{name}: own fields {sorted(cls._fields)} != declared {want}")
            continue
        for f in it["fields"]:
            obj = cls.__dict__[f["name"]]
            if isinstance(obj, Constant) != (f.get("const") is not None):
                problems.append(f"{name}.{f['name']}: constant-ness")
            if f.get("const") is None:
                if (getattr(obj, "_default", None) is not None) != (f.get("default") is not None):
                    problems.append(f"{name}.{f['name']}: default-ness")
        if cls.__dict__.get("_additional_properties") != it.get("addl"):
            problems.append(f"{name}: _additional_properties")
    return problems


# ------------------------------------------------------------------ the text tie (Sem/StubText.lean)

import io
import keyword
import random
import re
import tokenize


def ann_of_ast(node):
    """Python expression AST -> the model's `Ann` (JSON); None = outside the modelled annotation language"""
    def dotted(n):
        parts = []
        while isinstance(n, ast.Attribute):
            parts.append(n.attr)
            n = n.value
        if isinstance(n, ast.Name):
            parts.append(n.id)
        elif isinstance(n, ast.Constant) and (n.value is True or n.value is False or n.value is None):
            parts.append(repr(n.value))
        else:
            return None
        return list(reversed(parts))
    if isinstance(node, ast.Constant):
        if node.value is Ellipsis:
            return "..."
        if node.value is None or node.value is True or node.value is False:
            return {"n": [repr(node.value)]}
        if isinstance(node.value, (str, int, float)):
            return {"lit": 1}
        return None
    if isinstance(node, (ast.Name, ast.Attribute)):
        d = dotted(node)
        return None if d is None else {"n": d}
    if isinstance(node, ast.Subscript):
        h = dotted(node.value)
        if h is None:
            return None
        items = node.slice.elts if isinstance(node.slice, ast.Tuple) else [node.slice]
        args = [ann_of_ast(x) for x in items]
        if not args or any(a is None for a in args):
            return None
        return {"s": [h, args]}
    if isinstance(node, ast.List):
        items = [ann_of_ast(x) for x in node.elts]
        if any(a is None for a in items):
            return None
        return {"l": items}
    return None


def ann_of_text(text):
    try:
        return ann_of_ast(ast.parse(text, mode="eval").body)
    except (SyntaxError, ValueError):
        return None


def _depth_after(text, depth=0):
    """bracket depth after `text` (string literals skipped)"""
    q = None
    esc = False
    for ch in text:
        if q:
            if esc:
                esc = False
            elif ch == "\\":
                esc = True
            elif ch == q:
                q = None
            continue
        if ch in "'\"":
            q = ch
        elif ch in "([":
            depth += 1
        elif ch in ")]":
            depth -= 1
    return depth


def scan_headers(text):
    """every `def …: ...` / `class …:` header of the stub text, found by scanning lines (works on unparsable text)"""
    lines = text.split("\n")
    defs, classes = [], []
    i = 0
    while i < len(lines):
        st = lines[i].strip()
        if st.startswith("def "):
            buf = [st]
            depth = _depth_after(st)
            j = i
            while not (depth <= 0 and buf[-1].endswith("...")) and j + 1 < len(lines) and j - i < 80:
                nxt = lines[j + 1].strip()
                if nxt.startswith(("def ", "class ", "@")):
                    break
                j += 1
                buf.append(nxt)
                depth = _depth_after(nxt, depth)
            defs.append("\n".join(buf))
            i = j + 1
            continue
        if st.startswith("class ") and st.endswith(":"):
            classes.append(st)
        i += 1
    return defs, classes


def py_def_view(header):
    """CPython's verdict on one header: {"name", "params"} or None"""
    try:
        tree = ast.parse(header)
    except (SyntaxError, ValueError, MemoryError, RecursionError):
        return None
    if len(tree.body) != 1 or not isinstance(tree.body[0], ast.FunctionDef):
        return None
    fn = tree.body[0]
    if len(fn.body) != 1 or not (isinstance(fn.body[0], ast.Expr) and isinstance(fn.body[0].value, ast.Constant)
                                 and fn.body[0].value.value is Ellipsis):
        return None
    return {"name": fn.name, "params": full_params_ast(fn)}


def py_class_view(header):
    try:
        tree = ast.parse(header + "\n    pass\n")
    except (SyntaxError, ValueError):
        return None
    if len(tree.body) != 1 or not isinstance(tree.body[0], ast.ClassDef) or tree.body[0].keywords:
        return None
    return [tree.body[0].name, len(tree.body[0].bases)]


_OPS = {"(", ")", "[", "]", ",", ":", "=", "*", "**", "/", ".", "->", "..."}
_OK_KW = {"def", "class", "None", "True", "False"}
_TRIPLE = ("'" * 3, '"' * 3)


def header_tokens(header):
    """token strings of a header (CPython's tokenizer); None if it does not tokenize"""
    try:
        toks = []
        for t in tokenize.generate_tokens(io.StringIO(header).readline):
            if t.type in (tokenize.NEWLINE, tokenize.NL, tokenize.ENDMARKER, tokenize.INDENT, tokenize.DEDENT,
                          tokenize.COMMENT):
                continue
            toks.append((t.type, t.string))
        return toks
    except (tokenize.TokenError, SyntaxError, IndentationError):
        return None


def in_subset(header):
    """is the header inside the token / expression subset that `Sem/StubText.lean` models exactly?"""
    toks = header_tokens(header)
    if toks is None:
        return False
    par = sq = 0
    prev = None
    for ty, sv in toks:
        if ty == tokenize.NAME:
            if keyword.iskeyword(sv) and sv not in _OK_KW:
                return False
            if not re.fullmatch(r"[A-Za-z_][A-Za-z0-9_]*", sv):
                return False
        elif ty == tokenize.NUMBER:
            if not re.fullmatch(r"[0-9][0-9A-Za-z_.]*", sv):
                return False
        elif ty == tokenize.STRING:
            if sv[0] not in "'\"" or sv.startswith(_TRIPLE) or "\n" in sv or (prev and prev[0] == tokenize.STRING):
                return False
        elif ty == tokenize.OP:
            if sv not in _OPS:
                return False
            if sv == "(":
                par += 1
                if par > 1 or sq:
                    return False
            elif sv == ")":
                par -= 1
                if par < 0 or sq:
                    return False
            elif sv == "[":
                sq += 1
            elif sv == "]":
                sq -= 1
                if sq < 0:
                    return False
            elif sv in ("*", "**", "/"):
                if sq or par != 1 or prev is None or prev[1] not in ("(", ","):
                    return False
            elif sv == ":" and sq:
                return False
        else:
            return False
        prev = (ty, sv)
    return True


MUT_OPS = ["swap-items", "move-kw", "toggle-default", "insert-marker", "del-token", "dup-token",
           "swap-adjacent", "del-comma", "add-comma", "drop-item", "nest-default"]


def mutate_header(rng, header):
    """one token-level mutation of a real `def` header (the places signatures break: order, markers, commas,
    defaults, brackets); text with one blank between tokens.  Returns (op, text) or None."""
    toks = header_tokens(header)
    if not toks or len(toks) < 6:
        return None
    ts = [sv for _, sv in toks]
    try:
        lo = ts.index("(")
    except ValueError:
        return None
    depth, cuts, hi = 0, [lo], None
    for k in range(lo, len(ts)):
        if ts[k] in ("(", "["):
            depth += 1
        elif ts[k] in (")", "]"):
            depth -= 1
            if depth == 0:
                hi = k
                break
        elif ts[k] == "," and depth == 1:
            cuts.append(k)
    if hi is None:
        return None
    bounds = cuts + [hi]
    items = [ts[bounds[i] + 1:bounds[i + 1]] for i in range(len(bounds) - 1)]
    op = rng.choice(MUT_OPS)
    if op in ("swap-items", "move-kw", "toggle-default", "insert-marker", "drop-item", "add-comma"):
        if len(items) < 2:
            return None
        items = [list(x) for x in items]
        if op == "swap-items":
            a, b = rng.sample(range(len(items)), 2)
            items[a], items[b] = items[b], items[a]
        elif op == "move-kw":
            src = next((i for i, x in enumerate(items) if x[:1] in (["**"], ["*"], ["/"])), None)
            if src is None:
                items.insert(rng.randrange(len(items) + 1), rng.choice([["**", "kw"], ["*"], ["/"], ["*", "args"]]))
            else:
                x = items.pop(src)
                items.insert(rng.randrange(len(items) + 1), x)
        elif op == "toggle-default":
            i = rng.randrange(len(items))
            if "=" in items[i]:
                items[i] = items[i][:items[i].index("=")]
            else:
                items[i] = items[i] + ["=", "None"]
        elif op == "insert-marker":
            items.insert(rng.randrange(len(items) + 1), [rng.choice(["*", "/", "**"])])
        elif op == "drop-item":
            items.pop(rng.randrange(len(items)))
        elif op == "add-comma":
            items.insert(rng.randrange(len(items) + 1), [])
        inner = []
        for i, x in enumerate(items):
            inner += ([","] if i else []) + x
        out = ts[:lo + 1] + inner + ts[hi:]
    else:
        out = list(ts)
        cand = [k for k in range(len(out)) if out[k][:1] not in "'\"0123456789"]
        if not cand:
            return None
        k = rng.choice(cand)
        if op == "del-token":
            del out[k]
        elif op == "dup-token":
            out.insert(k, out[k])
        elif op == "swap-adjacent":
            if k + 1 >= len(out) or out[k + 1][:1] in "'\"0123456789":
                return None
            out[k], out[k + 1] = out[k + 1], out[k]
        elif op == "del-comma":
            cs = [i for i, x in enumerate(out) if x == ","]
            if not cs:
                return None
            del out[rng.choice(cs)]
        elif op == "nest-default":
            br = [i for i, x in enumerate(out) if x == "]"]
            if not br:
                return None
            i = rng.choice(br)
            out[i:i] = ["=", "None"]
    return op, " ".join(out)


def fty_of_field(f, attrs, get_type_info):
    """abstraction of a Field to the shape `get_type_info` dispatches on (Sem/StubText.lean `FTy`): the nesting
    combinators (AnyOf/OneOf/AllOf -> Optional/Union, Map -> dict[..]) are rendered by the MODEL; every other kind is a
    leaf whose annotation is read off the real get_type_info.  None = outside the modelled annotation language."""
    from typedpy.fields import AllOf, AnyOf, Map, OneOf
    from typedpy.structures import NoneField
    for k, v in attrs.items():
        if v is f:
            return {"leaf": {"n": [k]}} if re.fullmatch(r"[A-Za-z_][A-Za-z0-9_]*", k) else None
    if isinstance(f, (AnyOf, OneOf, AllOf)):
        fs = getattr(f, "_fields", [])
        if len(fs) == 2 and isinstance(fs[1], NoneField):
            x = fty_of_field(fs[0], attrs, get_type_info)
            return None if x is None else {"opt": x}
        xs = [fty_of_field(x, attrs, get_type_info) for x in fs]
        return None if (not xs or any(x is None for x in xs)) else {"union": xs}
    if isinstance(f, Map) and f.items:
        xs = [fty_of_field(x, attrs, get_type_info) for x in f.items]
        return None if any(x is None for x in xs) else {"map": xs}
    t = get_type_info(f, attrs, set())
    a = ann_of_text(t) if isinstance(t, str) else None
    return None if a is None else {"leaf": a}


def text_view(case, mod, text, spec_by_name, targets, runtime, parsed_ok, sigs=None):
    """what goes to the Lean driver (`wire`) and CPython's own verdicts on the same header texts (`py`)"""
    defs, classes = scan_headers(text)
    key = case_key(case)
    rng = random.Random(int(key, 16))
    muts, mut_ops = [], []
    pool = [d for d in defs if len(d) < 3000]
    for _ in range(min(8, 2 * len(pool))):
        m = mutate_header(rng, rng.choice(pool))
        if m is not None and m[1] not in muts:
            mut_ops.append(m[0])
            muts.append(m[1])
    wire = {"defs": defs, "muts": muts, "cls": classes, "classes": []}
    py = {"defs": [py_def_view(d) for d in defs], "muts": [py_def_view(d) for d in muts],
          "cls": [py_class_view(c) for c in classes], "mut_ops": mut_ops,
          "defs_subset": [in_subset(d) for d in defs], "muts_subset": [in_subset(d) for d in muts],
          "skipped": {}}
    if not parsed_ok:
        return {"wire": wire, "py": py}
    try:
        from typedpy.stubs.type_info_getter import get_type_info
    except Exception as e:     # the generator was reorganised: no per-class tie, the header checks remain
        py["skipped"]["*"] = f"get_type_info unavailable: {e}"
        return {"wire": wire, "py": py}
    try:
        from typedpy.stubs.type_helpers import _get_bases_for_structure
    except Exception:
        _get_bases_for_structure = None
    tree = ast.parse(text)
    nodes = {n.name: n for n in tree.body if isinstance(n, ast.ClassDef)}
    lines = text.split("\n")

    def seg(node):      # ast.get_source_segment without re-splitting the text for every node (ASCII columns assumed
        a, b = node.lineno - 1, node.end_lineno - 1     # only when the line is ASCII; else fall back)
        if any(not l.isascii() for l in lines[a:b + 1]):
            return ast.get_source_segment(text, node)
        if a == b:
            return lines[a][node.col_offset:node.end_col_offset]
        return "\n".join([lines[a][node.col_offset:]] + lines[a + 1:b] + [lines[b][:node.end_col_offset]])
    for ti, name in zip(targets, spec_by_name):
        cls = getattr(mod, name)
        node = nodes.get(name)
        if node is None:
            continue
        meths = {}
        for st in node.body:
            if isinstance(st, ast.FunctionDef):
                meths.setdefault(st.name, []).append(st)
        if not meths:
            continue        # `pass` body
        anns, bad = [], None
        for n, f in cls.get_all_fields_by_name().items():
            if n in cls._constants:
                continue
            try:
                a = fty_of_field(f, vars(mod), get_type_info)
            except Exception as e:      # typedpy-internal API moved: no per-class tie for this class (tagged), no alarm
                a, bad = None, f"{n}: get_type_info raised {type(e).__name__}: {e}"[:200]
                break
            if a is None:
                bad = f"{n}: annotation outside the modelled language"
                break
            anns.append([n, a])
        if bad:
            py["skipped"][name] = bad
            continue
        entry = {"i": ti, "anns": anns}
        one = lambda mn: seg(meths[mn][0]) if len(meths.get(mn, [])) == 1 else None
        entry["init"] = None if runtime[name]["custom"] else one("__init__")
        for hk, mn in HELPERS.items():
            entry[hk] = one(mn)
        if _get_bases_for_structure is not None:
            try:
                bs = [b.split(".") for b in _get_bases_for_structure(cls, vars(mod), set())]
                if all(re.fullmatch(r"[A-Za-z_][A-Za-z0-9_]*", x) for b in bs for x in b):
                    entry["bases"] = bs
                    entry["header"] = lines[node.lineno - 1].strip()
            except Exception:
                pass
        names = {n for n, _ in anns}
        entry["attrs"] = [[st.target.id, seg(st)] for st in node.body
                          if isinstance(st, ast.AnnAssign) and isinstance(st.target, ast.Name) and st.target.id in names]
        wire["classes"].append(entry)
    # methods / functions the generator re-renders from inspect.signature: the runtime kinds, with the annotation
    # and default expressions read off the stub (the marker placement `/`, `*` is what the model decides)
    wire["meths"], py["meths"] = [], []
    fnodes = {("", n.name): [n] for n in tree.body if isinstance(n, ast.FunctionDef)}
    for cn, cnode in nodes.items():
        for st in cnode.body:
            if isinstance(st, ast.FunctionDef):
                fnodes.setdefault((cn, st.name), []).append(st)
    for qn, rt in sorted((sigs or {}).items()):
        owner, fname = qn.split(".", 1)
        ns = fnodes.get((owner, fname), [])
        if isinstance(rt, str) or len(ns) != 1:
            continue
        fn = ns[0]
        a = fn.args
        pos = list(a.posonlyargs) + list(a.args)
        dfl = [None] * (len(pos) - len(a.defaults)) + list(a.defaults)
        by_name = {p.arg: (p.annotation, d) for p, d in zip(pos, dfl)}
        by_name.update({p.arg: (p.annotation, d) for p, d in zip(a.kwonlyargs, a.kw_defaults)})
        for p in (a.vararg, a.kwarg):
            if p is not None:
                by_name[p.arg] = (p.annotation, None)
        ps, ok = [], True
        for n, k, _d in rt:
            if n not in by_name:
                ok = False
                break
            an, d = by_name[n]
            aj = None if an is None else ann_of_ast(an)
            dj = None if d is None else ann_of_ast(d)
            if (an is not None and aj is None) or (d is not None and dj is None):
                ok = False
                break
            ps.append([n, k, aj, dj])
        rj = None if fn.returns is None else ann_of_ast(fn.returns)
        if not ok or (fn.returns is not None and rj is None):
            continue
        wire["meths"].append({"name": fname, "text": seg(fn), "ps": ps, "ret": rj})
        py["meths"].append(qn)
    return {"wire": wire, "py": py}


# ------------------------------------------------------------------ driver line / judging helpers

def line(case, impl):
    l = {"suite": "stub", "dflt": case["dflt"], "apd": case["apd"], "classes": [], "targets": []}
    if "table" in impl:
        l["classes"] = [{k: v for k, v in d.items() if k != "generated"} for d in impl["table"]]
        l["targets"] = impl["targets"]
        l["nontree"] = impl.get("nontree", [])
    ex = impl.get("extra_imports")
    if ex and all(x.startswith("from ") and " import " in x for x in ex):
        # the (name, module) items, handed to the model in reverse order and doubled (a set has no order/multiplicity)
        items = [[x.split(" import ", 1)[1], x[len("from "):].split(" import ", 1)[0]] for x in ex]
        l["imports"] = list(reversed(items)) + items
    if "text" in impl and "table" in impl:
        l["text"] = impl["text"]["wire"]
    return l


def stub_init_view(sc):
    """(params after self, kw) of the stub's `__init__`; None if absent or ambiguous"""
    ms = sc["methods"].get("__init__", [])
    if len(ms) != 1:
        return None
    return ms[0]


def tags(case, impl, model):
    out = ["apd:" + str(case["apd"])]
    if case.get("zoo"):
        out.append(f"zoo:{case['zoo_pos']}")
    if case.get("const_value"):
        out.append("const-value:" + case["const_value"])
    if case.get("mi"):
        out.append("multi-base-same-field:" + case["mi"])
    if case.get("enumvals"):
        out.append("enum-values:" + case["enumvals"])
    if case.get("diamond"):
        out.append("diamond:" + case["diamond"])
    if case.get("family"):
        out.append("family:" + case["family"])
    if case["apd"] != case["dflt"]:
        out.append("apd!=runtime-default")
    out += ["hierarchy:shared-ancestor"] * len(impl.get("nontree", []))
    if case.get("sig_site"):
        out += [f"sig-site:{case['sig_site']}", f"sig-default:{case['sig_default']}"]
    if "unbuildable" in impl:
        return out + ["module:unbuildable"]
    if "unsupported" in impl:
        return out + ["module:unsupported"]
    if "syntax_err" in impl:
        out.append("stub:syntax-error")
    for it in case["mod"]["items"]:
        out.append("item:" + it["kind"])
        if it["kind"] == "struct":
            out.append("base:" + "+".join(b["b"] for b in it["bases"]))
            if it.get("custom_init"):
                out.append("struct:custom-init")
            if it.get("required") is not None:
                out.append("struct:_required")
            if it.get("optional") is not None:
                out.append("struct:_optional")
            out.append("struct:addl=" + str(it.get("addl")))
            if it.get("ignore_none"):
                out.append("struct:_ignore_none")
            if it.get("immutable_flag"):
                out.append("struct:_immutable")
            if it["bases"][0]["b"] == "cls" and all(it.get(k) is None for k in ("required", "optional", "addl")):
                out.append("struct:subclass-restating-nothing")
            for f in it["fields"]:
                if f.get("const") is not None:
                    out.append("field:constant")
                else:
                    out.append("field:" + f["ty"][0] + ("(opt-shape)" if is_opt_shape(f["ty"]) else ""))
                    if f.get("default") is not None:
                        out.append("field:default")
    for n, rv in (impl.get("runtime") or {}).items():
        out.append("behav:" + ("run" if rv.get("behav") and rv["behav"].get("base_ok") else "skipped"))
    if impl.get("seeds"):
        out.append(f"hashseeds:{len(impl['seeds'])}")
    tp = (impl.get("text") or {}).get("py")
    mt = ((model.get("out") or {}) if isinstance(model, dict) else {}).get("text")
    if tp and mt:
        for i, p in enumerate(tp["muts"]):
            lean_ok = bool(mt["muts"][i].get("lex")) and mt["muts"][i].get("parse") is not None
            out.append(f"mutated-header:{tp['mut_ops'][i]}:" + ("accepted" if p is not None else "rejected")
                       + ("" if tp["muts_subset"][i] or lean_ok == (p is not None) else ":outside-subset"))
        out += ["real-header:" + ("parsed" if p is not None else "unparsable") for p in tp["defs"]]
        for c in mt["classes"]:
            out.append("text-tie:" + ("class" if c["domain"] else "outside-domain"))
        out += ["text-tie:skipped(annotation-language)" for n in tp["skipped"] if n != "*"]
        out += ["text-tie:method" for _ in mt.get("meths", [])]
    return out


def nontrivial(case):
    return any(it["kind"] == "raw" for it in case["mod"]["items"]) or any(it["kind"] == "struct" and (len(it["fields"]) >= 2 or it["bases"][0]["b"] != "Structure")
               for it in case["mod"]["items"])


def describe(case, impl, model):
    d = {"module_source": render_module(case["mod"])[:1500], "apd": case["apd"]}
    if "stub" in impl:
        n = next(iter(impl.get("runtime", {})), None)
        if n and n in impl["stub"]["classes"]:
            d["class"] = n
            d["stub_init"] = stub_init_view(impl["stub"]["classes"][n])
            d["runtime_sig"] = impl["runtime"][n]["sig"]
            if model:
                d["model_init"] = next((c["init"] for c in model["classes"] if c["name"] == n), None)
    return d
