"""
Cases for field kinds outside the core declaration type (DecimalNumber, Enum by value incl. IntEnum/Flag members
that are falsy, date/time fields, formatted strings, SerializableField wrappers, _ignore_none classes, compact
wrappers): real classes are built from a small JSON spec, and the statements of C05 / C06 (and C02) are executed on the
real code.  For the kinds the Lean model of the extension kinds carries (Sem/SerdeX.lean: DecimalNumber, Enum by value,
DateField/DateTime and the core scalars, bare and inside Optional/Array/Deque/Set/Map/Tuple/nested class) a model line
is produced as well (suite serdex: `xline`, `xcorrespond`); the other cases are oracle-only (`line` is None): they
widen the failing-input search, never the theorems.
"""
import datetime
import decimal
import enum
import json

import typedpy
from typedpy import (Structure, Array, Set, Deque, Map, Tuple, String, Integer, DecimalNumber, Enum, DateField,
                     DateTime, DateString, TimeString, EmailAddress, HostName, IPV4, AnyOf, NoneField, Serializer,
                     Deserializer, serialize, Float, Boolean)


class Plain(enum.Enum):
    A = 1
    B = 2
    C = "c"


class Level(enum.IntEnum):
    OFF = 0
    LOW = 1
    HIGH = 2


class Perm(enum.Flag):
    NONE = 0
    R = 1
    W = 2


class Word(enum.Enum):
    EMPTY = ""
    X = "x"


class Digits(enum.Enum):
    ZERO = "0"
    ONE = "1"
    YES = "true"
    NIL = "null"


class Cmd(enum.Enum):
    add = 1
    delete = 2
    remove = 2          # an ALIAS of delete: a second name, not a second member


ENUMS = {"Cmd": Cmd, "Plain": Plain, "Level": Level, "Perm": Perm, "Word": Word, "Digits": Digits}

# leaf kinds: (field factory, value pool as JSON-able specs, exact round trip?)
LEAVES = {
    "decimal": (lambda: DecimalNumber(), [["dec", "1.5"], ["dec", "0"], ["dec", "20"], ["dec", "-3.25"]], False),
    "decimal-bounded": (lambda: DecimalNumber(minimum=0, maximum=100), [["dec", "0"], ["dec", "100"], ["dec", "0.5"]], False),
    "enum-by-value:Plain": (lambda: Enum(values=Plain, serialization_by_value=True), [["enum", "Plain", "A"], ["enum", "Plain", "C"]], True),
    "enum-by-value:Level": (lambda: Enum(values=Level, serialization_by_value=True), [["enum", "Level", "OFF"], ["enum", "Level", "HIGH"]], True),
    "enum-by-value:Perm": (lambda: Enum(values=Perm, serialization_by_value=True), [["enum", "Perm", "NONE"], ["enum", "Perm", "W"]], True),
    "enum-by-value:Word": (lambda: Enum(values=Word, serialization_by_value=True), [["enum", "Word", "EMPTY"], ["enum", "Word", "X"]], True),
    "enum-by-name:Level": (lambda: Enum[Level], [["enum", "Level", "OFF"], ["enum", "Level", "LOW"]], True),
    "enum-by-name:Word": (lambda: Enum[Word], [["enum", "Word", "EMPTY"]], True),
    "enum-by-name:Cmd": (lambda: Enum[Cmd], [["enum", "Cmd", "delete"], ["enum", "Cmd", "add"]], True),
    "enum-by-value:Cmd": (lambda: Enum(values=Cmd, serialization_by_value=True), [["enum", "Cmd", "delete"], ["enum", "Cmd", "add"]], True),
    "enum-restricted:Cmd": (lambda: Enum(values=[Cmd.add]), [["enum", "Cmd", "add"]], True),
    "date": (lambda: DateField(), [["date", 2020, 1, 31], ["date", 1999, 12, 1]], True),
    "datetime": (lambda: DateTime(), [["datetime", 2020, 1, 31, 23, 59, 1], ["datetime", 2001, 2, 3, 0, 0, 0]], True),
    "datestring": (lambda: DateString(), ["2020-01-31", "1999-12-01"], True),
    "timestring": (lambda: TimeString(), ["23:59:01", "00:00:00"], True),
    "email": (lambda: String(pattern=EmailAddress.pattern), ["a@b.com", "x.y@z.org"], True),
    "hostname": (lambda: HostName(), ["example.com", "a-b.c"], True),
    "ipv4": (lambda: IPV4(), ["1.2.3.4", "0.0.0.0", "255.255.255.255"], True),
    "integer": (lambda: Integer(), [0, -1, 7], True),
    "string": (lambda: String(), ["", "a", "True"], True),
    "float": (lambda: Float(), [["float", "0.0"], ["float", "2.5"]], True),
    "boolean": (lambda: Boolean(), [False, True], True),
    # string-like values whose TEXT is itself a JSON document (a compact wrapper's serialized form is the bare string)
    "string-jsonlike": (lambda: String(), ["0", "true", "null", "[1, 2]", '"q"', "1.5", "{}", "-3"], True),
    "enum-by-value:Digits": (lambda: Enum(values=Digits, serialization_by_value=True),
                             [["enum", "Digits", "ZERO"], ["enum", "Digits", "YES"], ["enum", "Digits", "NIL"], ["enum", "Digits", "ONE"]], True),
    "date-compact": (lambda: DateField(date_format="%Y%m%d"), [["date", 2020, 2, 29], ["date", 1999, 12, 1]], True),
}
JSONLIKE_LEAVES = ("string-jsonlike", "enum-by-value:Digits", "date-compact")
WRAPS = ["bare", "bare", "optional", "array", "deque", "set", "map", "tuple2", "array-of-array", "map-of-array",
         "anyof-then-int", "array-of-optional", "map-of-optional", "optional-union"]
UNHASHABLE_IN_SET = ()


def load(v):
    if isinstance(v, list):
        if v and v[0] == "dec":
            return decimal.Decimal(v[1])
        if v and v[0] == "enum":
            return ENUMS[v[1]][v[2]]
        if v and v[0] == "date":
            return datetime.date(*v[1:])
        if v and v[0] == "datetime":
            return datetime.datetime(*v[1:])
        if v and v[0] == "float":
            return float(v[1])
    return v


def build_field(leaf, wrap):
    mk = LEAVES[leaf][0]
    if wrap == "bare":
        return mk()
    if wrap == "optional":
        return AnyOf[mk(), NoneField()]
    if wrap == "array":
        return Array[mk()]
    if wrap == "deque":
        return Deque[mk()]
    if wrap == "set":
        return Set[mk()]
    if wrap == "map":
        return Map[String(), mk()]
    if wrap == "tuple2":
        return Tuple[mk(), Integer()]
    if wrap == "array-of-array":
        return Array[Array[mk()]]
    if wrap == "map-of-array":
        return Map[String(), Array[mk()]]
    if wrap == "anyof-then-int":          # the value belongs to a LATER option than the leaf
        return AnyOf[mk(), Integer()]
    if wrap == "optional-union":          # two non-None options and None: the value may belong to either
        return AnyOf[mk(), Integer(), NoneField()]
    if wrap == "array-of-optional":
        return Array[AnyOf[mk(), NoneField()]]
    if wrap == "map-of-optional":
        return Map[String(), AnyOf[mk(), NoneField()]]
    raise ValueError(wrap)


def build_value(leaf, wrap, picks):
    pool = LEAVES[leaf][1]
    vals = [load(pool[i % len(pool)]) for i in picks]
    if wrap in ("bare", "optional"):
        return vals[0]
    if wrap == "array":
        return list(vals)
    if wrap == "deque":
        import collections
        return collections.deque(vals)
    if wrap == "set":
        return set(vals)
    if wrap == "map":
        return {f"k{i}": v for i, v in enumerate(vals)}
    if wrap == "tuple2":
        return (vals[0], 3)
    if wrap == "array-of-array":
        return [list(vals), []]
    if wrap == "map-of-array":
        return {"a": list(vals), "b": []}
    if wrap == "anyof-then-int":
        return [0, 3, vals[0]][picks[0] % 3]
    if wrap == "optional-union":
        return [vals[0], 3, vals[0]][picks[0] % 3]
    if wrap == "array-of-optional":
        return [None] + list(vals) + [None]
    if wrap == "map-of-optional":
        return {"n": None, **{f"k{i}": v for i, v in enumerate(vals)}}
    raise ValueError(wrap)


def gen_cases(rng, n):
    cases = []
    leaves = sorted(LEAVES)
    for ci in range(n):
        nf = rng.randint(1, 3)
        fields = []
        for fi in range(nf):
            leaf = rng.choice(leaves)
            wrap = rng.choice(WRAPS)
            picks = [rng.randrange(8) for _ in range(rng.choice([0, 1, 2, 3]) if wrap not in ("bare", "optional", "tuple2", "anyof-then-int", "optional-union") else 1)]
            fields.append({"name": f"f{fi}", "leaf": leaf, "wrap": wrap, "picks": picks,
                           "unset": wrap in ("optional", "optional-union") and rng.random() < 0.3})
        cases.append({"suite": "extras", "fields": fields, "ignore_none": rng.random() < 0.2,
                      "nested": rng.random() < 0.25})
    # compact single-field wrappers (one required field, no additional properties), the flag declared by the class
    # itself or only INHERITED from a base, compact serialization and deserialization both on
    for ci in range(max(4, n // 10)):
        leaf = rng.choice(leaves)
        # (a wrapper around a Map is left out: its compact form is a JSON object, which compact deserialization
        #  cannot tell from the regular form - ambiguous by design)
        wrap = rng.choice(["bare", "array", "tuple2", "array-of-array"])
        cases.append({"suite": "extras", "fields": [{"name": "f0", "leaf": leaf, "wrap": wrap, "picks": [rng.randrange(8), rng.randrange(8)][:1 if wrap in ("bare", "tuple2") else 2],
                                                       "unset": False}],
                      "ignore_none": False, "nested": False, "compact": rng.choice(["own", "inherited", "inherited-hook"])})
    return cases


UNDEF_STATES = ["set", "none", "unset"]


def undef_cases(rng, n):
    """classes with _enable_undefined_value: an Optional field may be set, explicitly None, or left out
    (Undefined) - three states the serialized form tells apart (value / null / no key) and the round trip must keep"""
    leaves = sorted(LEAVES)
    out = []
    for ci in range(n):
        fields = [{"name": f"f{fi}", "leaf": rng.choice(leaves), "wrap": rng.choice(["optional", "optional", "optional-union"]),
                   "picks": [rng.randrange(8)], "unset": False, "state": rng.choice(UNDEF_STATES)} for fi in range(rng.randint(1, 3))]
        out.append({"suite": "extras", "fields": fields, "ignore_none": rng.random() < 0.2, "nested": rng.random() < 0.25, "undef": True})
    return out


def directed_undef_cases():
    out = []
    for leaf in sorted(LEAVES):
        for state in UNDEF_STATES:
            out.append({"suite": "extras", "fields": [{"name": "f0", "leaf": leaf, "wrap": "optional", "picks": [0], "unset": False, "state": state},
                                                       {"name": "f1", "leaf": "integer", "wrap": "optional", "picks": [0], "unset": False, "state": "none"}],
                        "ignore_none": False, "nested": False, "undef": True})
    return out


def directed_cases():
    """every leaf x every wrapper once, with the falsy member first"""
    out = []
    for leaf in sorted(LEAVES):
        for wrap in sorted(set(WRAPS)):
            out.append({"suite": "extras", "fields": [{"name": "f0", "leaf": leaf, "wrap": wrap,
                                                       "picks": [0, 1] if wrap not in ("bare", "optional", "tuple2", "optional-union") else [0],
                                                       "unset": False}], "ignore_none": False, "nested": False})
    # compact single-field wrappers whose compact form is a bare string that READS like a JSON document
    for leaf in JSONLIKE_LEAVES + ("string", "enum-by-value:Word", "datestring", "date", "timestring"):
        for pick in range(len(LEAVES[leaf][1])):
            for mode in ("own", "inherited"):
                out.append({"suite": "extras", "fields": [{"name": "f0", "leaf": leaf, "wrap": "bare", "picks": [pick], "unset": False}],
                            "ignore_none": False, "nested": False, "compact": mode})
    return out


def pure_json_path(v, path="$"):
    if v is None or isinstance(v, (bool, int, float, str)):
        return None
    if isinstance(v, list):
        for i, x in enumerate(v):
            r = pure_json_path(x, f"{path}[{i}]")
            if r:
                return r
        return None
    if isinstance(v, dict):
        for k, x in v.items():
            if not isinstance(k, str):
                return f"{path}.<key {type(k).__name__}>"
            r = pure_json_path(x, f"{path}.{k}")
            if r:
                return r
        return None
    return f"{path}: {type(v).__name__}"


def run_impl(case):
    body = {}
    kw = {}
    exact = True
    try:
        for f in case["fields"]:
            body[f["name"]] = build_field(f["leaf"], f["wrap"])
            exact = exact and LEAVES[f["leaf"]][2]
            if f.get("state") == "none":
                kw[f["name"]] = None
            elif not f.get("unset") and f.get("state") != "unset":
                kw[f["name"]] = build_value(f["leaf"], f["wrap"], f["picks"] or [0])
        body["_required"] = [f["name"] for f in case["fields"] if f["wrap"] not in ("optional", "optional-union")]
        if case.get("ignore_none"):
            body["_ignore_none"] = True
        if case.get("undef"):
            body["_enable_undefined_value"] = True
        if case.get("compact"):
            body["_additional_properties"] = False
            cls = type("X", (Structure,), body)
            if case["compact"].startswith("inherited"):
                sub_body = {}
                if case["compact"] == "inherited-hook":
                    sub_body["__validate__"] = lambda self: None
                cls = type("XSub", (cls,), sub_body)
        else:
            cls = type("X", (Structure,), body)
        if case.get("nested"):
            outer = type("Outer", (Structure,), {"inner": cls, "tag": String(), "_required": ["inner"]})
    except Exception as e:   # e.g. a Set of an unhashable kind: the definition itself is refused
        return {"skip": f"definition: {type(e).__name__}: {e}"[:200]}
    if case.get("compact"):
        Structure.set_compact_serialization_default(True)
        Structure.set_compact_deserialization_default(True)
        try:
            return _run_built(case, cls, kw, exact, None)
        finally:
            Structure.set_compact_serialization_default(False)
            Structure.set_compact_deserialization_default(False)
    return _run_built(case, cls, kw, exact, outer if case.get("nested") else None)


def _run_built(case, cls, kw, exact, outer):
    try:
        x = cls(**kw)
        inner_x = x
        if outer is not None:
            cls, x = outer, outer(inner=x, tag="")
    except Exception as e:
        return {"skip": f"construction: {type(e).__name__}: {e}"[:200]}
    res = {"exact": exact, "kinds": [("compact-" + case["compact"] + ":" if case.get("compact") else "") + f"{f['wrap']}>{f['leaf']}" for f in case["fields"]]}
    xcls = xdecl_class(case, nested=outer is not None)
    try:
        doc = Serializer(x).serialize()
        res["doc"] = repr(doc)[:300]
    except Exception as e:
        res["ser_exc"] = f"{type(e).__name__}: {e}"[:200]
        return res
    if xcls is not None:
        try:
            from .. import dump
            kwx = {"inner": inner_x, "tag": ""} if outer is not None else kw
            order = {f["name"]: i for i, f in enumerate(case["fields"])}

            def in_field_order(w):
                # (an instance handed in as an argument keeps its attribute order in the model; the real __dict__ order is
                #  the order the constructor happened to set them in, which == does not look at: field order is used)
                if isinstance(w, dict) and "o" in w and w["o"][0] in ("X", "XSub"):
                    return {"o": [w["o"][0], sorted(w["o"][1], key=lambda kv: order.get(kv[0], len(order)))]}
                return w
            res["xline"] = dict({"suite": "serdex", "cls": xcls, "kw": [[k, in_field_order(xwire(v))] for k, v in kwx.items()], "opts": XOPTS},
                                **xtables(case, [x], [doc]))
            if case.get("compact"):
                # serialize(compact=True) reads the wrapper flags from the class's OWN dict (an inheriting subclass is
                # written in the regular form); compact deserialization honours inherited flags
                res["xline"]["compactSer"] = case["compact"] == "own"
                res["xline"]["compactDeser"] = True
            res["x_inst"] = xwire(x)
            res["x_ser"] = {"ok": dump.dump_value(doc)}
        except Exception as e:
            res.pop("xline", None)
            res["xline_skipped"] = f"{type(e).__name__}: {e}"[:200]
    res["impure"] = pure_json_path(doc)
    if not case.get("compact"):
        # the documented JSON form, written down independently of the Serializer (image, below)
        try:
            want = image_doc(case, kw)
            if outer is not None:
                want = {"inner": want, "tag": ""}
            res["form_ok"] = _canon_sets(case, doc, outer is not None) == _canon_sets(case, want, outer is not None)
            if not res["form_ok"]:
                res["form_want"] = repr(want)[:300]
        except Exception as e:
            res["form_ok"] = f"{type(e).__name__}: {e}"[:200]
    try:
        text = json.dumps(doc)
    except Exception as e:
        res["dumps_exc"] = f"{type(e).__name__}: {e}"[:200]
        return res
    try:
        res["same_as_function"] = serialize(x) == doc
    except Exception as e:
        res["same_as_function"] = f"{type(e).__name__}: {e}"[:200]
    try:
        y = Deserializer(cls).deserialize(json.loads(text))
    except Exception as e:
        res["deser_exc"] = f"{type(e).__name__}: {e}"[:300]
        if "xline" in res:
            res["x_back"] = {"err": "InvalidStructureErr" if type(e).__name__ == "InvalidStructureErr" else "TypeError" if isinstance(e, TypeError)
                             else "ValueError" if isinstance(e, ValueError) else type(e).__name__, "msg": str(e)[:200]}
        return res
    res["equal"] = bool(y == x)
    if case.get("undef"):
        from typedpy.commons import Undefined
        xi, yi = (x.inner, y.inner) if outer is not None else (x, y)
        st = lambda o, n: "none" if getattr(o, n) is None else "unset" if getattr(o, n) is Undefined else "set"
        res["states"] = [[f["name"], st(xi, f["name"]), st(yi, f["name"])] for f in case["fields"]]
    if "xline" in res:
        res["x_back"] = {"ok": xwire(y)}
    try:
        res["fixpoint"] = Serializer(y).serialize() == doc
    except Exception as e:
        res["fixpoint"] = f"{type(e).__name__}: {e}"[:200]
    return res


def _canon_sets(case, doc, nested):
    """arrays that came from a Set field sorted (set iteration order is not part of the contract)"""
    body = doc.get("inner") if nested and isinstance(doc, dict) else doc
    if not isinstance(body, dict):
        return doc
    body = dict(body)
    for f in case["fields"]:
        if f["wrap"] == "set" and isinstance(body.get(f["name"]), list):
            body[f["name"]] = sorted(body[f["name"]], key=repr)
    return dict(doc, inner=body) if nested else body


def judge(case, impl):
    fails = []
    if "skip" in impl:
        return fails
    site = "+".join(sorted(set(impl.get("kinds", []))))[:120]
    if "ser_exc" in impl:
        fails.append((f"extras:serialize-raises:{site}", f"Serializer raised on a valid instance: {impl['ser_exc']}"))
        return fails
    if impl.get("impure"):
        fails.append((f"extras:not-pure-json:{site}", f"serialized document holds a non-JSON value at {impl['impure']}: {impl.get('doc')}"))
    if impl.get("form_ok") not in (None, True):
        fails.append((f"extras:serialized-form-differs:{site}", f"Serializer gave {impl.get('doc')}, the documented JSON form is {impl.get('form_want', impl.get('form_ok'))}"))
    if "dumps_exc" in impl:
        fails.append((f"extras:json-dumps-raises:{site}", f"json.dumps refused the serialized document: {impl['dumps_exc']}"))
        return fails
    if impl.get("same_as_function") is not True:
        fails.append((f"extras:serialize-function-differs:{site}", f"serialize(x) != Serializer(x).serialize(): {impl.get('same_as_function')}"))
    if "deser_exc" in impl:
        fails.append((f"extras:roundtrip-raises:{site}", f"Deserializer rejected the serialization of a valid instance {impl.get('doc')}: {impl['deser_exc']}"))
        return fails
    for name, before, after in impl.get("states", []):
        if before != after:
            fails.append((f"extras:undefined-state-lost:{before}->{after}:{site}",
                          f"_enable_undefined_value: field {name} was {before} before the round trip and is {after} after it ({impl.get('doc')})"))
    if impl.get("exact") and impl.get("equal") is not True:
        fails.append((f"extras:roundtrip-not-equal:{site}", f"deserialize(serialize(x)) != x for {impl.get('doc')}"))
    if impl.get("fixpoint") is not True:
        fails.append((f"extras:no-fixpoint:{site}", f"serialize(deserialize(serialize(x))) != serialize(x): {impl.get('fixpoint')} for {impl.get('doc')}"))
    return fails


# ------------------------------------------------------------------ C06: corrupted documents

CORRUPTIONS = [37800, "n/a", "", [], {}, True, 1.5, [1, 2, 3], {"a": 1}, "2020-13-45", "25:61:00", -1]


def gen_corrupt_cases(rng, n):
    """a valid document of a generated class with ONE leaf position replaced by a value of another JSON type /
    an ill-formatted string: the Deserializer must accept it or reject it with TypeError/ValueError"""
    cases = []
    for c in gen_cases(rng, n):
        c = dict(c, suite="extras-corrupt", nested=bool(c.get("nested")) and not c.get("compact"), corrupt=[rng.randrange(len(c["fields"])), rng.randrange(len(CORRUPTIONS)), rng.randrange(4)])
        cases.append(c)
    return cases


def directed_corrupt_cases():
    out = []
    for leaf in sorted(LEAVES):
        for wrap in ("bare", "optional", "array", "map"):
            for ci in range(len(CORRUPTIONS)):
                out.append({"suite": "extras-corrupt", "fields": [{"name": "f0", "leaf": leaf, "wrap": wrap, "picks": [1, 0], "unset": False}],
                            "ignore_none": False, "nested": False, "corrupt": [0, ci, 0]})
    return out


def _replace_leaf(doc, bad, which):
    """replace one leaf of the serialized field value"""
    if isinstance(doc, list) and doc:
        i = which % len(doc)
        return doc[:i] + [_replace_leaf(doc[i], bad, which // 2)] + doc[i + 1:]
    if isinstance(doc, dict) and doc:
        k = sorted(doc)[which % len(doc)]
        return {**doc, k: _replace_leaf(doc[k], bad, which // 2)}
    return bad


def run_corrupt(case):
    base = run_impl(dict(case, suite="extras"))
    if "skip" in base or "doc" not in base or "ser_exc" in base:
        return {"skip": base.get("skip", "no document")}
    # rebuild class and instance (run_impl does not return them)
    body, kw = {}, {}
    for f in case["fields"]:
        body[f["name"]] = build_field(f["leaf"], f["wrap"])
        if not f.get("unset"):
            kw[f["name"]] = build_value(f["leaf"], f["wrap"], f["picks"] or [0])
    body["_required"] = [f["name"] for f in case["fields"] if f["wrap"] not in ("optional", "optional-union")]
    cls = type("X", (Structure,), body)
    doc = json.loads(json.dumps(Serializer(cls(**kw)).serialize()))
    fi, ci, which = case["corrupt"]
    name = case["fields"][fi]["name"]
    if name not in doc:
        return {"skip": "field unset"}
    bad = CORRUPTIONS[ci]
    doc[name] = _replace_leaf(doc[name], bad, which)
    res = {"kinds": [f"{f['wrap']}>{f['leaf']}" for f in case["fields"]], "site": f"{case['fields'][fi]['wrap']}>{case['fields'][fi]['leaf']}",
           "doc": repr(doc)[:300]}
    try:
        Deserializer(cls).deserialize(doc)
        res["out"] = "accepted"
    except Exception as e:
        res["out"] = "rejected"
        res["exc"] = type(e).__name__
        res["documented_exc"] = isinstance(e, (TypeError, ValueError))
        res["msg"] = str(e)[:200]
    return res


def judge_corrupt(case, impl):
    if "skip" in impl:
        return []
    if impl["out"] == "rejected" and not impl["documented_exc"]:
        return [(f"extras:wrong-exception:{impl['exc']}:{impl['site']}",
                 f"Deserializer rejected {impl['doc']} with {impl['exc']} ({impl['msg']}) instead of TypeError/ValueError")]
    return []


# ------------------------------------------------------------------ C06: BOTH directions of "exactly the images"
#
# The documented JSON form of the extension kinds, written down independently of the Serializer (`image`), and
# the documented reading of a JSON value (`lift`): collections are reshaped (array -> list / deque / set / tuple,
# object -> dict), an Enum serialized by value denotes the member whose value equals (Python ==) the JSON value,
# every other leaf is handed to the constructor as it is (the constructor of DecimalNumber / DateField / DateTime /
# Enum-by-name does the conversion itself).  Statement executed: the Deserializer accepts the document exactly
# when the constructor accepts the lifted keyword arguments, and the two instances are equal; for the image of
# a valid instance both must accept and give back that instance.

SHAPES = {"bare": "L", "optional": ("opt", "L"), "array": ("arr", "L"), "deque": ("deq", "L"), "set": ("set", "L"),
          "map": ("map", "L"), "tuple2": ("tup2", "L"), "array-of-array": ("arr", ("arr", "L")),
          "map-of-array": ("map", ("arr", "L")), "anyof-then-int": ("anyint", "L"),
          "array-of-optional": ("arr", ("opt", "L")), "map-of-optional": ("map", ("opt", "L")),
          "optional-union": ("opt", ("anyint", "L"))}

# number-typed documents of several magnitudes (epoch-like ones included: DateTime reads an int between 1e9 and
# 2e9 as a timestamp, and so does its constructor; a float is neither a str nor an int)
CORRUPTIONS += [0, 1, 2, 0.0, 1.0, 2.0, 1600000000, 1600000000.5, 1.6e9, 999999999, 2000000001, 1000000000000,
                -0.5, False, "1.5", "0", "A", "OFF", "x", "01/31/20 07:15:45", "2020-01-31", "nan", "sNaN", "Infinity"]
CORRUPTIONS += ["remove", "delete", "add"]      # names of an enum class with an alias (remove = delete)
NAN_STRINGS = ("nan", "sNaN")


class NoLift(Exception):
    pass


def image_leaf(leaf, v):
    if leaf.startswith("decimal"):
        return float(v)
    if leaf.startswith("enum-by-value"):
        return v.value
    if leaf.startswith("enum-by-name") or leaf.startswith("enum-restricted"):
        return v.name
    if leaf == "date":
        return v.strftime("%Y-%m-%d")
    if leaf == "date-compact":
        return v.strftime("%Y%m%d")
    if leaf == "datetime":
        return v.strftime("%m/%d/%y %H:%M:%S")
    return v


def image(shape, leaf, v):
    if shape == "L":
        return image_leaf(leaf, v)
    tag, sub = shape
    if tag == "opt":
        return None if v is None else image(sub, leaf, v)
    if tag in ("arr", "deq", "set"):
        return [image(sub, leaf, x) for x in v]
    if tag == "map":
        return {k: image(sub, leaf, x) for k, x in v.items()}
    if tag == "tup2":
        return [image(sub, leaf, v[0])] + list(v[1:])
    if tag == "anyint":
        return v if isinstance(v, int) and not isinstance(v, enum.Enum) and not isinstance(v, bool) else image(sub, leaf, v)
    raise ValueError(tag)


def lift_leaf(leaf, j):
    """alternatives a JSON value denotes for the leaf (empty: none)"""
    if leaf.startswith("enum-by-value:"):
        try:
            hash(j)
        except TypeError:
            return []
        return [m for m in ENUMS[leaf.split(":")[1]] if m.value == j][:1]
    return [j]


def _product(lists):
    out = [[]]
    for alts in lists:
        out = [p + [a] for p in out for a in alts]
        if len(out) > 64:
            out = out[:64]
    return out


def lift(shape, leaf, j):
    import collections
    if shape == "L":
        return lift_leaf(leaf, j)
    tag, sub = shape
    if tag == "opt":
        return [None] if j is None else lift(sub, leaf, j)
    if tag in ("arr", "deq", "set"):
        if not isinstance(j, list):
            return []
        out = []
        for xs in _product([lift(sub, leaf, x) for x in j]):
            try:
                out.append(list(xs) if tag == "arr" else collections.deque(xs) if tag == "deq" else set(xs))
            except TypeError:
                pass
        return out
    if tag == "map":
        if not isinstance(j, dict):
            return []
        keys = list(j)
        return [dict(zip(keys, xs)) for xs in _product([lift(sub, leaf, j[k]) for k in keys])]
    if tag == "tup2":
        if not isinstance(j, list):
            return []
        if not j:
            return [()]
        return [tuple([a] + j[1:]) for a in lift(sub, leaf, j[0])]
    if tag == "anyint":
        # AnyOf[leaf, Integer]: what the document denotes for the leaf, or - an integer document - itself
        return lift(sub, leaf, j) + ([j] if isinstance(j, int) else [])
    raise ValueError(tag)


def _build_plain(case):
    body, kw = {}, {}
    for f in case["fields"]:
        body[f["name"]] = build_field(f["leaf"], f["wrap"])
        if f.get("state") == "none":
            kw[f["name"]] = None
        elif not f.get("unset") and f.get("state") != "unset":
            kw[f["name"]] = build_value(f["leaf"], f["wrap"], f["picks"] or [0])
    body["_required"] = [f["name"] for f in case["fields"] if f["wrap"] not in ("optional", "optional-union")]
    if case.get("ignore_none"):
        body["_ignore_none"] = True
    if case.get("undef"):
        body["_enable_undefined_value"] = True
    return type("X", (Structure,), body), kw


def image_doc(case, kw):
    return {f["name"]: image(SHAPES[f["wrap"]], f["leaf"], kw[f["name"]]) for f in case["fields"] if f["name"] in kw}


def image_cases(rng, n):
    """the image of a valid instance, uncorrupted: must be accepted, with the instance it came from"""
    return [dict(c, suite="extras-corrupt", corrupt=None) for c in gen_cases(rng, n) + undef_cases(rng, max(10, n // 5)) if not c.get("compact")]


def directed_image_cases():
    return [dict(c, suite="extras-corrupt", corrupt=None) for c in directed_cases() + directed_undef_cases()] + \
        [dict(c, suite="extras-corrupt", corrupt=None, fields=[dict(c["fields"][0], picks=[1, 0, 1])]) for c in directed_cases()]


def _crosstype(xs):
    for i, a in enumerate(xs):
        for b in xs[i + 1:]:
            try:
                if a == b and type(a) is not type(b):
                    return True
            except Exception:
                pass
    return False


def run_exact(case):
    """C06 on the extension kinds: Deserializer(doc) vs constructor(lift(doc))"""
    try:
        cls, kw = _build_plain(case)
        x = cls(**kw)
    except Exception as e:
        return {"skip": f"definition/construction: {type(e).__name__}: {e}"[:200]}
    try:
        doc = image_doc(case, kw)
        json.dumps(doc)
    except Exception as e:
        return {"skip": f"no image: {type(e).__name__}: {e}"[:200]}
    res = {"kinds": [f"{f['wrap']}>{f['leaf']}" for f in case["fields"]]}
    exactleaf = all(LEAVES[f["leaf"]][2] for f in case["fields"])
    if case.get("corrupt") is None:
        res["site"] = "+".join(sorted(set(res["kinds"])))[:120]
        res["is_image"] = True
    else:
        fi, ci, which = case["corrupt"]
        name = case["fields"][fi]["name"]
        if name not in doc:
            return {"skip": "field unset"}
        doc[name] = _replace_leaf(doc[name], CORRUPTIONS[ci], which)
        res["site"] = f"{case['fields'][fi]['wrap']}>{case['fields'][fi]['leaf']}"
        res["nan"] = CORRUPTIONS[ci] in NAN_STRINGS and case["fields"][fi]["leaf"] == "decimal-bounded"
    res["doc"] = repr(doc)[:300]
    nested = bool(case.get("nested"))
    # an array for a Set field holding values that are == but of different JSON type (0.0 / false): as a Python set
    # they collapse before the constructor can see them, so 'the set this array denotes' is ambiguous
    res["ambiguous_set"] = any(f["wrap"] == "set" and isinstance(doc.get(f["name"]), list) and _crosstype(doc[f["name"]]) for f in case["fields"])
    # the constructor on the lifted document
    alts = []
    for f in case["fields"]:
        if f["name"] in doc and doc[f["name"]] is None and case.get("undef"):
            alts.append([("v", None)])          # _enable_undefined_value: a null is an explicit None, not an absent key
        elif f["name"] not in doc or doc[f["name"]] is None:
            alts.append([("absent", None)])
        else:
            alts.append([("v", a) for a in lift(SHAPES[f["wrap"]], f["leaf"], doc[f["name"]])])
    expected = None
    for combo in _product(alts):
        try:
            expected = cls(**{f["name"]: a for f, (t, a) in zip(case["fields"], combo) if t == "v"})
            break
        except (TypeError, ValueError):
            continue
        except Exception as e:
            res["ctor_exc"] = type(e).__name__
            continue
    if nested:
        # the same class one level down: Outer(inner: X, tag: String); document {"inner": <doc>, "tag": ""}
        outer = type("Outer", (Structure,), {"inner": cls, "tag": String(), "_required": ["inner"]})
        doc = {"inner": doc, "tag": ""}
        x = outer(inner=x, tag="")
        if expected is not None:
            expected = outer(inner=expected, tag="")
        cls = outer
        res["doc"] = repr(doc)[:300]
    res["ctor"] = "accepted" if expected is not None else "rejected"
    y = None
    try:
        y = Deserializer(cls).deserialize(json.loads(json.dumps(doc)))
        res["out"] = "accepted"
        res["x_deser"] = {"ok": xwire(y)}
    except Exception as e:
        res["out"] = "rejected"
        res["exc"] = type(e).__name__
        res["documented_exc"] = isinstance(e, (TypeError, ValueError))
        res["msg"] = str(e)[:200]
        res["x_deser"] = {"err": "InvalidStructureErr" if type(e).__name__ == "InvalidStructureErr" else "TypeError" if isinstance(e, TypeError)
                          else "ValueError" if isinstance(e, ValueError) else type(e).__name__, "msg": str(e)[:200]}
    xcls = xdecl_class(dict(case, compact=None), nested=nested)     # (the C06 stream builds the plain class)
    if xcls is not None:
        try:
            from .. import dump
            res["xline"] = dict({"suite": "serdex", "cls": xcls, "doc": dump.dump_value(json.loads(json.dumps(doc))), "opts": XOPTS},
                                **xtables(case, [y] if y is not None else [], [doc]))
        except Exception as e:
            res["xline_skipped"] = f"{type(e).__name__}: {e}"[:200]
    nan_doc = case.get("corrupt") is not None and CORRUPTIONS[case["corrupt"][1]] in NAN_STRINGS
    if y is not None and not nan_doc:       # (a NaN is not equal to itself; comparing a signalling NaN raises)
        if expected is not None:
            res["equal_ctor"] = bool(y == expected)
        if res.get("is_image") and exactleaf:
            res["equal_orig"] = bool(y == x)
    return res


def judge_exact(case, impl):
    if "skip" in impl:
        return []
    fails = []
    site = impl["site"]
    if impl["out"] == "rejected" and not impl["documented_exc"]:
        # (one stable key, whatever the wrapper, for a NaN compared with the bound of a DecimalNumber)
        where = "nan-vs-bound:decimal-bounded" if impl.get("nan") and impl["exc"] == "InvalidOperation" else site
        fails.append((f"extras:wrong-exception:{impl['exc']}:{where}",
                      f"Deserializer rejected {impl['doc']} with {impl['exc']} ({impl['msg']}) instead of TypeError/ValueError"))
    # AnyOf[DecimalNumber(bounds), Integer]: both options read a JSON number, and the first one deserializes every
    # number (its bounds are the constructor's business): indistinguishable options are outside the statement
    ambiguous = any(f["wrap"] in ("anyof-then-int", "optional-union") and f["leaf"] == "decimal-bounded" for f in case["fields"]) or impl.get("ambiguous_set")
    if impl["ctor"] == "accepted" and impl["out"] == "rejected":
        if not ambiguous:
            fails.append((f"extras:rejects-image:{site}",
                          f"the constructor accepts what the document {impl['doc']} denotes, but the Deserializer raises {impl['exc']}: {impl['msg']}"))
    elif impl["ctor"] == "rejected" and impl["out"] == "accepted":
        fails.append((f"extras:accepts-non-image:{site}",
                      f"the Deserializer accepts {impl['doc']} although the constructor rejects what it denotes"))
    elif impl.get("equal_ctor") is False:
        fails.append((f"extras:differs-from-constructor:{site}",
                      f"the Deserializer's instance for {impl['doc']} is not equal to the constructor's"))
    if impl.get("is_image"):
        if impl["ctor"] == "rejected" and impl["out"] == "rejected":
            fails.append((f"extras:image-rejected:{site}", f"the image {impl['doc']} of a valid instance is rejected by Deserializer and constructor alike"))
        elif impl.get("equal_orig") is False:
            fails.append((f"extras:image-not-equal:{site}", f"deserializing the image {impl['doc']} of a valid instance gives a different instance"))
    return fails


# ------------------------------------------------------------------ the Lean model of the extension kinds (suite serdex)
#
# Sem/SerdeX.lean carries DecimalNumber, Enum by value, DateField / DateTime and the core scalars, bare and inside
# Optional / Array / Deque / Set / Map / Tuple / a nested class.  For the cases it covers a model line is produced:
# the class as an XDecl, the values on the wire, and the answers of float(Decimal) / strptime / strftime as tables.

TEMPORAL = {"date": ("date", "%Y-%m-%d", False), "date-compact": ("date", "%Y%m%d", False),
            "datetime": ("datetime", "%m/%d/%y %H:%M:%S", True)}
BASE_LEAVES = {"integer": {"k": "integer"}, "string": {"k": "string"}, "float": {"k": "float"}, "boolean": {"k": "boolean"},
               "string-jsonlike": {"k": "string"}}


def _fmt_date(sv):
    try:
        datetime.datetime.strptime(sv, "%Y-%m-%d")
        return True
    except ValueError:
        return False


def _fmt_time(sv):
    try:
        datetime.datetime.strptime(sv, "%H:%M:%S")
        return True
    except ValueError:
        return False


def _fmt_ipv4(sv):
    import re
    return bool(re.match(r"^\d{1,3}\.\d{1,3}\.\d{1,3}\.\d{1,3}$", sv)) and all(0 <= int(c) <= 255 for c in sv.split("."))


def _fmt_host(sv):
    import re
    return bool(re.match(r"^[A-Za-z0-9][A-Za-z0-9\.\-]{1,255}$", sv)) and all(len(c) <= 63 for c in sv.split("."))


# the documented format of the formatted-string fields, stated independently of typedpy (the model's fmtOk oracle)
FMT_KINDS = {"datestring": _fmt_date, "timestring": _fmt_time, "ipv4": _fmt_ipv4, "hostname": _fmt_host}


def xdecl_leaf(leaf):
    from .. import dump
    if leaf == "decimal":
        return {"k": "decimal"}
    if leaf == "decimal-bounded":
        return {"k": "decimal", "min": [0, 1], "max": [100, 1]}
    if leaf.startswith("enum-by-value:"):
        ecls = ENUMS[leaf.split(":")[1]]
        return {"k": "enumVal", "cls": ecls.__name__, "members": [[m.name, dump.dump_value(m.value)] for m in ecls],
                "mixin": issubclass(ecls, int)}
    if leaf.startswith("enum-by-name:"):
        ecls = ENUMS[leaf.split(":")[1]]
        if issubclass(ecls, (int, str)):
            # members equal to their values: the constructor also accepts the raw value (and keeps it)
            return {"k": "enumName", "cls": ecls.__name__, "members": [[m.name, dump.dump_value(m.value)] for m in ecls], "mixin": True}
        return {"k": "base", "f": {"k": "enumCls", "cls": ecls.__name__, "names": [m.name for m in ecls]}}
    if leaf.startswith("enum-restricted:"):
        return {"k": "base", "f": {"k": "enumCls", "cls": leaf.split(":")[1], "names": ["add"]}}
    if leaf in FMT_KINDS:
        return {"k": "fmtStr", "kind": leaf, "strict": leaf != "timestring"}
    if leaf == "email":
        return {"k": "base", "f": {"k": "string", "pattern": EmailAddress.pattern}}
    if leaf in TEMPORAL:
        ty, fmt, ints = TEMPORAL[leaf]
        return {"k": "temporal", "ty": ty, "fmt": fmt, "ints": ints}
    if leaf in BASE_LEAVES:
        return {"k": "base", "f": dict(BASE_LEAVES[leaf])}
    return None


def xdecl_shape(shape, leafdecl):
    if shape == "L":
        return leafdecl
    tag, sub = shape
    inner = xdecl_shape(sub, leafdecl)
    if inner is None:
        return None
    if tag == "opt":
        return {"k": "opt", "x": inner}
    if tag == "arr":
        return {"k": "seqOf", "x": inner}
    if tag == "deq":
        return {"k": "seqOf", "seq": "deque", "x": inner}
    if tag == "set":
        return {"k": "setOf", "x": inner}
    if tag == "map":
        return {"k": "mapStr", "x": inner}
    if tag == "tup2":
        return {"k": "tuplePos", "xs": [inner, {"k": "base", "f": {"k": "integer"}}]}
    if tag == "anyint":
        return {"k": "anyOf", "xs": [inner, {"k": "base", "f": {"k": "integer"}}]}
    return None


def xdecl_class(case, nested=False):
    fields = []
    for f in case["fields"]:
        leafdecl = xdecl_leaf(f["leaf"])
        if leafdecl is not None and f["wrap"] == "optional-union":      # ONE AnyOf of three options
            d = {"k": "anyOf", "xs": [leafdecl, {"k": "base", "f": {"k": "integer"}}, {"k": "base", "f": {"k": "noneF"}}]}
        else:
            d = xdecl_shape(SHAPES[f["wrap"]], leafdecl) if leafdecl is not None else None
        if d is None:
            return None
        fields.append([f["name"], d])
    # (a compact wrapper class: closed; the "inherited" variants are instances of the subclass XSub)
    cname = "XSub" if str(case.get("compact", "")).startswith("inherited") else "X"
    cls = {"k": "struct", "name": cname, "required": [f["name"] for f in case["fields"] if f["wrap"] not in ("optional", "optional-union")],
           "addl": not case.get("compact"), "ignoreNone": bool(case.get("ignore_none")), "accepts": [cname], "fields": fields}
    if case.get("undef"):
        cls["undef"] = True       # _enable_undefined_value: an explicit None is a state of its own (XDecl.structU)
        cls["ignoreNone"] = False   # ... also when the class says _ignore_none (probed: the explicit None is kept)
    if nested:
        cls = {"k": "struct", "name": "Outer", "required": ["inner"], "addl": True, "accepts": ["Outer"],
               "fields": [["inner", cls], ["tag", {"k": "base", "f": {"k": "string"}}]]}
    return cls


def xwire(v):
    import collections
    from .. import dump
    if isinstance(v, datetime.datetime):
        return {"x": "datetime:" + v.isoformat()}
    if isinstance(v, datetime.date):
        return {"x": "date:" + v.isoformat()}
    if isinstance(v, enum.Enum) or v is None or isinstance(v, (bool, int, float, str, decimal.Decimal)):
        return dump.dump_value(v)
    if isinstance(v, collections.deque):
        return {"q": [xwire(x) for x in collections.deque.__iter__(v)]}
    if isinstance(v, list):
        return {"l": [xwire(x) for x in list.__iter__(v)]}
    if isinstance(v, tuple):
        return {"t": [xwire(x) for x in v]}
    if isinstance(v, frozenset):
        return {"fs": [xwire(x) for x in v]}
    if isinstance(v, set):
        return {"s": [xwire(x) for x in v]}
    if isinstance(v, dict):
        return {"m": [[xwire(k), xwire(x)] for k, x in dict.items(v)]}
    if isinstance(v, Structure):
        # (an _enable_undefined_value class keeps the names of attributes explicitly set to None in _none_fields)
        return {"o": [type(v).__name__, [[k, xwire(x)] for k, x in v.__dict__.items() if k not in dump.INTERNAL]
                      + [[k, None] for k in sorted(getattr(v, "_none_fields", None) or []) if k not in v.__dict__]]}
    return dump.dump_value(v)


def _walk(v, fn):
    import collections
    fn(v)
    if isinstance(v, Structure):
        for x in list(v.__dict__.values()):
            _walk(x, fn)
    elif isinstance(v, dict):
        for k, x in dict.items(v):
            _walk(k, fn)
            _walk(x, fn)
    elif isinstance(v, (list, tuple, set, frozenset, collections.deque)):
        for x in list(v):
            _walk(x, fn)


def xtables(case, values, docs):
    """the oracle answers the model needs: float(d) for every Decimal among `values` (after conversion by the real
    constructor), strftime for every date / datetime, strptime for every string of `docs` under every temporal
    format the class uses"""
    from .. import dump
    fmts = sorted({TEMPORAL[f["leaf"]][:2] for f in case["fields"] if f["leaf"] in TEMPORAL})
    decs, temps, strs = [], [], []

    def see(v):
        if isinstance(v, decimal.Decimal) and v.is_finite():
            decs.append(v)
        elif isinstance(v, bool):
            pass
        elif isinstance(v, (int, float)) and not isinstance(v, enum.Enum) and v == v and abs(v) != float("inf"):
            decs.append(decimal.Decimal(v))
        elif isinstance(v, (datetime.date, datetime.datetime)):
            temps.append(v)
        elif isinstance(v, str) and not isinstance(v, enum.Enum):
            strs.append(v)
    for v in values:
        _walk(v, see)
    for d in docs:
        _walk(d, see)
    tf, seen = [], set()
    for d in decs:
        key = tuple(dump.q_of(d))
        if key not in seen:
            seen.add(key)
            try:
                tf.append([list(key), dump.q_of(float(d))])
            except OverflowError:
                pass
    fm, ps = [], []
    for ty, fmt in fmts:
        for t in temps:
            if (ty == "datetime") == isinstance(t, datetime.datetime):
                try:
                    fm.append([ty, fmt, xwire(t)["x"], t.strftime(fmt)])
                except Exception:
                    pass
        for sv in sorted(set(strs + [r[3] for r in fm if r[0] == ty and r[1] == fmt])):
            try:
                dt = datetime.datetime.strptime(sv, fmt)
                ps.append([ty, fmt, sv, xwire(dt if ty == "datetime" else dt.date())["x"]])
            except ValueError:
                ps.append([ty, fmt, sv, None])
    fo = [[f["leaf"], sv, bool(FMT_KINDS[f["leaf"]](sv))] for f in case["fields"] if f["leaf"] in FMT_KINDS for sv in sorted(set(strs))]
    import re as _re
    rt = [[EmailAddress.pattern, sv, _re.compile(EmailAddress.pattern).match(sv) is not None] for sv in sorted(set(strs))] \
        if any(f["leaf"] == "email" for f in case["fields"]) else []
    ds = []
    if any(f["leaf"].startswith("decimal") for f in case["fields"]):
        for sv in sorted(set(strs)):
            try:
                dv = decimal.Decimal(sv)
                ds.append([sv, dump.q_of(dv) if dv.is_finite() else None])
            except decimal.InvalidOperation:
                ds.append([sv, False])
    return {"toFloat": tf, "format": fm, "parse": ps, "fmtOk": fo, "re": rt, "decOfStr": ds}


XOPTS = {"keepUndefined": True, "ignoreInvalidAddl": True}


def _canon_wire_sets(decl, w):
    """arrays of a serialized document that came from a Set sorted (the model iterates a set in insertion order)"""
    if decl is None or not isinstance(w, dict):
        return w
    k = decl["k"]
    key = lambda x: json.dumps(x, sort_keys=True)
    if k == "opt":
        return _canon_wire_sets(decl["x"], w)
    if "l" in w:
        if k == "setOf":
            return {"l": sorted((_canon_wire_sets(decl["x"], x) for x in w["l"]), key=key)}
        if k == "seqOf":
            return {"l": [_canon_wire_sets(decl["x"], x) for x in w["l"]]}
        if k == "tuplePos":
            return {"l": [_canon_wire_sets(decl["xs"][i] if i < len(decl["xs"]) else None, x) for i, x in enumerate(w["l"])]}
    if "m" in w:
        if k == "struct":
            fd = dict((n, f) for n, f in decl["fields"])
            return {"m": sorted(([kk, _canon_wire_sets(fd.get(kk), v)] for kk, v in w["m"]), key=lambda kv: key(kv[0]))}
        if k == "mapStr":
            return {"m": sorted(([kk, _canon_wire_sets(decl["x"], v)] for kk, v in w["m"]), key=lambda kv: key(kv[0]))}
    return w


def _xdiff(what, m, i):
    from .. import dump
    if m is None or i is None:
        return None
    if str(m.get("err", "")).startswith("outside-model"):
        return None
    if "ok" in m:
        if "ok" not in i:
            return f"{what}: model ok, real code raises {i.get('err')}: {i.get('msg')}"
        if dump.canon(m["ok"]) != dump.canon(i["ok"]):
            return f"{what}: results differ: model {json.dumps(dump.canon(m['ok']))[:300]} impl {json.dumps(dump.canon(i['ok']))[:300]}"
        return None
    if "ok" in i:
        return f"{what}: model raises {m['err']}, real code ok: {json.dumps(i['ok'])[:300]}"
    if m["err"] != i["err"]:
        return f"{what}: exception class differs: model {m['err']}, real code {i['err']}: {i.get('msg')}"
    return None


def xline(case, impl):
    l = impl.get("xline")
    return dict(l) if l else None


def xcorrespond(case, impl, model):
    """model (Sem/SerdeX.lean through the driver) vs real code, for the cases that have a model line"""
    if not model or not impl.get("xline"):
        return None
    cls = impl["xline"]["cls"]
    if "x_inst" in impl:
        if "ok" not in model.get("inst", {}):
            if str(model.get("inst", {}).get("err", "")).startswith("outside-model"):
                return None
            return f"model cannot construct the instance: {model.get('inst')}"
        d = _xdiff("constructor", model["inst"], {"ok": impl["x_inst"]})
        if d:
            return d
        ms, is_ = model.get("ser"), impl.get("x_ser")
        if ms and is_ and "ok" in ms and "ok" in is_:
            ms = {"ok": _canon_wire_sets(cls, ms["ok"])}
            is_ = {"ok": _canon_wire_sets(cls, is_["ok"])}
        return _xdiff("serialize", ms, is_) or _xdiff("deserialize(serialize(x))", model.get("back"), impl.get("x_back"))
    return _xdiff("deserialize", model.get("deser"), impl.get("x_deser"))


# ------------------------------------------------------------------ C05: other entry points (trusted deserialization, FastSerializable)
#
# The round-trip clause quantifies over the Deserializer's options and over the ways a class can be serialized: for
# classes over every collection kind (empty, one, several elements; alone or next to scalars) the document must come
# back as an equal instance - with fields of the same Python type - also through
# Deserializer(cls).deserialize(doc, direct_trusted_mapping=True), and the FastSerializable twin of the class must
# produce the same pure-JSON document (Serializer(x).serialize() and x.serialize()).  Oracle-only; trusted == regular
# in general is C10's subject.

ENTRY_KINDS = {
    "set-int": (lambda: Set[Integer], [set(), {0}, {3, 1, 2}]),
    "set-str": (lambda: Set[String], [set(), {""}, {"b", "a"}]),
    "array-int": (lambda: Array[Integer], [[], [0], [2, 1, 2]]),
    "deque-str": (lambda: Deque[String], [[], [""], ["x", "y"]]),
    "map-int": (lambda: Map[String, Integer], [{}, {"": 0}, {"a": 1, "b": 2}]),
    "tuple": (lambda: Tuple[Integer, String], [(0, ""), (1, "a")]),
}


def entry_cases():
    out = []
    for kind in sorted(ENTRY_KINDS):
        for vi in range(len(ENTRY_KINDS[kind][1])):
            for shape in ("alone", "with-scalars", "two"):
                out.append({"suite": "extras-entry", "kind": kind, "value": vi, "shape": shape})
    return out


def run_entry(case):
    import collections
    from typedpy import FastSerializable
    mk, vals = ENTRY_KINDS[case["kind"]]
    v = vals[case["value"]]
    if case["kind"].startswith("deque"):
        v = collections.deque(v)

    def body():
        b = {"c": mk(), "_additional_properties": False}
        kw = {"c": v}
        if case["shape"] == "with-scalars":
            b.update({"n": Integer(), "s": String()})
            kw.update({"n": 0, "s": ""})
        if case["shape"] == "two":
            other = "set-int" if case["kind"] != "set-int" else "array-int"
            b["d"] = ENTRY_KINDS[other][0]()
            kw["d"] = type(ENTRY_KINDS[other][1][0])()
        return b, kw
    res = {"site": f"{case['kind']}:{case['shape']}", "value": repr(v)[:80]}
    try:
        b, kw = body()
        cls = type("E", (Structure,), b)
        x = cls(**kw)
        doc = Serializer(x).serialize()
        json.dumps(doc)
        y = Deserializer(cls).deserialize(json.loads(json.dumps(doc)))
    except Exception as e:
        return {"skip": f"{type(e).__name__}: {e}"[:200]}
    res["regular_equal"] = bool(y == x)
    try:
        yt = Deserializer(cls).deserialize(json.loads(json.dumps(doc)), direct_trusted_mapping=True)
        res["trusted"] = "ok"
        res["trusted_equal"] = bool(yt == x)
        # (the trusted path builds plain collections, not the validating wrappers: compare the builtin kind)
        kind_of = lambda o: next((t.__name__ for t in (collections.deque, list, tuple, set, frozenset, dict) if isinstance(o, t)), type(o).__name__)
        res["trusted_types"] = [[n, kind_of(getattr(y, n)), kind_of(getattr(yt, n))] for n in kw
                                if kind_of(getattr(y, n)) != kind_of(getattr(yt, n))]
    except Exception as e:
        res["trusted"] = f"{type(e).__name__}: {e}"[:160]
    try:
        b2, kw2 = body()
        fcls = type("E", (FastSerializable, Structure), b2)
        xf = fcls(**kw2)
        outs = {"Serializer(x).serialize()": Serializer(xf).serialize(), "x.serialize()": xf.serialize()}
        canon = lambda d: {k: (sorted(w, key=repr) if isinstance(w, list) and case["kind"].startswith("set") or
                               (k == "d" and isinstance(w, list)) else w) for k, w in d.items()} if isinstance(d, dict) else d
        res["fast"] = []
        for how, o in outs.items():
            entry = {"how": how, "impure": pure_json_path(o)}
            try:
                json.dumps(o)
                entry["same"] = canon(o) == canon(doc)
            except Exception as e:
                entry["dumps"] = f"{type(e).__name__}: {e}"[:120]
            res["fast"].append(entry)
    except Exception as e:
        res["fast_exc"] = f"{type(e).__name__}: {e}"[:200]
    return res


def judge_entry(case, impl):
    if "skip" in impl:
        return []
    fails = []
    site = impl["site"]
    if impl.get("trusted") == "ok" and impl.get("regular_equal"):
        if not impl.get("trusted_equal"):
            fails.append((f"entry:trusted-roundtrip-differs:{site}", f"Deserializer(cls).deserialize(doc, direct_trusted_mapping=True) of the serialized c={impl['value']} is not equal to the instance"))
        elif impl.get("trusted_types"):
            fails.append((f"entry:trusted-roundtrip-type:{site}", f"the trusted deserialization of c={impl['value']} holds another Python type than the regular one: {impl['trusted_types']}"))
    for e in impl.get("fast", []):
        if e.get("impure") or "dumps" in e:
            fails.append((f"entry:fast-not-json:{site}", f"FastSerializable twin: {e['how']} is not pure JSON for c={impl['value']}: {e.get('impure') or e.get('dumps')}"))
        elif e.get("same") is False:
            fails.append((f"entry:fast-differs:{site}", f"FastSerializable twin: {e['how']} differs from the regular serialization for c={impl['value']}"))
    return fails


# ------------------------------------------------------------------ C02: ill-typed constructor arguments

CTOR_BAD = [5, 2.5, None, True, ["www.example.com"], {"host": "x"}, ("a", "b"), object, b"a.com", "n/a", "", -1, [], {},
            # well-typed but ill-formed strings (each is refused by at least one of the String subclasses below)
            "not-a-date", "999.1.1.1", "{broken json", "toolong", "-bad-.host", "25:61:00", "2020-13-45", "1.2.3", "a b"]


def _ctor_leaves():
    from typedpy import JSONString, SizedString
    extra = {
        "jsonstring": (lambda: JSONString(), ['{"a": 1}', "[1, 2]"], True),
        "sizedstring": (lambda: SizedString(maxlen=3), ["ab", "abc"], True),
        "string-bounded": (lambda: String(minLength=2, maxLength=4, pattern="^[a-z]+$"), ["ab", "abcd"], True),
        "integer-bounded": (lambda: Integer(minimum=0, maximum=9), [0, 9], True),
    }
    return {**{k: v for k, v in LEAVES.items() if k not in JSONLIKE_LEAVES and not k.endswith(":Cmd")}, **extra}


CTOR_LEAVES = None


def ctor_leaves():
    global CTOR_LEAVES
    if CTOR_LEAVES is None:
        CTOR_LEAVES = _ctor_leaves()
    return CTOR_LEAVES
CTOR_WRAPS = ["bare", "optional", "array", "deque", "set", "map", "map-key", "tuple2", "anyof-then-int", "array-of-optional"]


def _ctor_field(leaf, wrap):
    if wrap == "map-key":
        return Map[ctor_leaves()[leaf][0](), Integer()]
    saved = dict(LEAVES)
    LEAVES.update(ctor_leaves())
    try:
        return build_field(leaf, wrap)
    finally:
        LEAVES.clear()
        LEAVES.update(saved)


def _ctor_value(leaf, wrap, bad):
    """a value of the wrapped field with ONE leaf position holding `bad` (next to a valid leaf where there is room)"""
    good = load(ctor_leaves()[leaf][1][-1])
    try:
        hash(bad)
        hashable = True
    except TypeError:
        hashable = False
    if wrap in ("bare", "optional", "anyof-then-int"):
        return bad
    if wrap == "array":
        return [good, bad]
    if wrap == "deque":
        import collections
        return collections.deque([good, bad])
    if wrap == "set":
        return {good, bad} if hashable else None
    if wrap == "map":
        return {"k0": good, "k1": bad}
    if wrap == "map-key":
        return {good: 1, bad: 2} if hashable else None
    if wrap == "tuple2":
        return (bad, 3)
    if wrap == "array-of-optional":
        return [None, good, bad]
    raise ValueError(wrap)


def directed_ctor_cases():
    out = []
    for leaf in sorted(ctor_leaves()):
        for wrap in CTOR_WRAPS:
            for bi in range(len(CTOR_BAD)):
                out.append({"suite": "extras-ctor", "leaf": leaf, "wrap": wrap, "bad": bi})
            out.append({"suite": "extras-ctor", "leaf": leaf, "wrap": wrap, "bad": None})    # the valid control
    return out


def run_ctor(case):
    leaf, wrap = case["leaf"], case["wrap"]
    res = {"site": f"{wrap}>{leaf}"}
    try:
        cls = type("X", (Structure,), {"f": _ctor_field(leaf, wrap), "_required": []})
    except Exception as e:
        return {"skip": f"class: {type(e).__name__}: {e}"[:200]}
    if case["bad"] is None:
        picks = [1, 1]       # (not the zero member of a Flag class: Python does not list it among the members)
        saved = dict(LEAVES)
        LEAVES.update(ctor_leaves())
        try:
            v = build_value(leaf, wrap, picks) if wrap != "map-key" else {load(LEAVES[leaf][1][-1]): 1}
        finally:
            LEAVES.clear()
            LEAVES.update(saved)
        if wrap == "anyof-then-int":
            v = 3          # the value of the LATER option: must be accepted
        res["control"] = True
    else:
        v = _ctor_value(leaf, wrap, CTOR_BAD[case["bad"]])
        if v is None and wrap in ("set", "map-key"):
            return {"skip": "unhashable element cannot be put into the argument"}
    res["value"] = repr(v)[:200]
    if case["bad"] is not None and wrap not in ("bare", "anyof-then-int"):
        # what the bare field says about the same leaf value (the wrapped position must decide alike)
        try:
            bare_cls = type("B", (Structure,), {"f": ctor_leaves()[leaf][0](), "_required": []})
            bad = CTOR_BAD[case["bad"]]
            if bad is None:
                res["bare"] = "n/a"
            else:
                try:
                    bare_cls(f=bad)
                    res["bare"] = "accepted"
                except (TypeError, ValueError):
                    res["bare"] = "rejected"
                except Exception:
                    res["bare"] = "n/a"
        except Exception:
            res["bare"] = "n/a"
    try:
        x = cls(f=v)
        res["out"] = "accepted"
        res["stored"] = repr(getattr(x, "f", None))[:200]
    except Exception as e:
        res["out"] = "rejected"
        res["exc"] = type(e).__name__
        res["documented_exc"] = isinstance(e, (TypeError, ValueError))
        res["msg"] = str(e)[:200]
    return res


def judge_ctor(case, impl):
    if "skip" in impl:
        return []
    if impl["out"] == "rejected" and not impl["documented_exc"]:
        return [(f"extras:wrong-exception:{impl['exc']}:ctor:{impl['site']}",
                 f"constructor rejected f={impl['value']} with {impl['exc']} ({impl['msg']}) instead of TypeError/ValueError")]
    if impl.get("control") and impl["out"] == "rejected":
        return [(f"extras:rejects-valid:ctor:{impl['site']}", f"constructor rejected the valid value f={impl['value']}: {impl['exc']}: {impl['msg']}")]
    if impl.get("bare") == "rejected" and impl["out"] == "accepted":
        return [(f"extras:element-not-validated:ctor:{impl['site']}",
                 f"the bare field rejects the leaf value but it is accepted inside f={impl['value']} (stored {impl.get('stored')})")]
    if impl.get("bare") == "accepted" and impl["out"] == "rejected" and case["wrap"] not in ("set", "map-key"):
        return [(f"extras:element-over-rejected:ctor:{impl['site']}",
                 f"the bare field accepts the leaf value but it is rejected inside f={impl['value']}: {impl.get('exc')}: {impl.get('msg')}")]
    return []


# ------------------------------------------------------------------ C02 / C06: DecimalNumber and floats

DEC_VALUES = [0.1, 0.2, 0.3, 0.7, 1.1, 19.99, 2.5, 0.25, 3, -0.1, 0.0, 1e-7]


def decimal_cases():
    out = []
    for vi in range(len(DEC_VALUES)):
        for bounds in ("none", "min", "max", "both"):
            for wrap in ("bare", "array", "map"):
                out.append({"suite": "extras-decimal", "value": vi, "bounds": bounds, "wrap": wrap})
    return out


def run_decimal(case):
    import math
    v = DEC_VALUES[case["value"]]
    kw = {}
    if case["bounds"] in ("min", "both"):
        kw["minimum"] = v
    if case["bounds"] in ("max", "both"):
        kw["maximum"] = v
    mk = lambda: DecimalNumber(**kw)
    field = {"bare": mk, "array": lambda: Array[mk()], "map": lambda: Map[String(), mk()]}[case["wrap"]]
    wrapv = {"bare": lambda x: x, "array": lambda x: [x, x], "map": lambda x: {"k": x}}[case["wrap"]]
    leaf = {"bare": lambda s: s, "array": lambda s: s[0], "map": lambda s: s["k"]}[case["wrap"]]
    try:
        cls = type("D", (Structure,), {"f": field(), "_required": ["f"]})
    except Exception as e:
        return {"skip": f"{type(e).__name__}: {e}"[:160]}
    res = {"site": f"{case['wrap']}>decimal:{case['bounds']}", "value": repr(v), "probes": []}
    probes = [("at", v, True)]
    if isinstance(v, float):
        if case["bounds"] in ("max", "both"):
            probes.append(("above", math.nextafter(v, math.inf), False))
        if case["bounds"] in ("min", "both"):
            probes.append(("below", math.nextafter(v, -math.inf), False))
    for label, x, expect_ok in probes:
        pr = {"probe": label, "x": repr(x), "expect_ok": expect_ok}
        try:
            inst = cls(f=wrapv(x))
            stored = leaf(inst.f)
            pr["ctor"] = "ok"
            pr["ctor_equal_input"] = bool(stored == x) and bool(stored == decimal.Decimal(x))
            pr["ctor_stored"] = repr(stored)[:80]
        except Exception as e:
            pr["ctor"] = type(e).__name__
            stored = None
        try:
            inst2 = Deserializer(cls).deserialize({"f": wrapv(x)}, keep_undefined=False)
            stored2 = leaf(inst2.f)
            pr["deser"] = "ok"
            pr["deser_stored"] = repr(stored2)[:80]
            if stored is not None:
                pr["deser_equals_ctor"] = bool(stored2 == stored)
        except Exception as e:
            pr["deser"] = type(e).__name__
        res["probes"].append(pr)
    return res


def judge_decimal_ctor(case, impl):
    """C02: the bound value itself is accepted, its outer float neighbours are refused, and what is read back equals
    the number that was given"""
    fails = []
    for pr in impl.get("probes", []):
        site = impl["site"]
        if pr["expect_ok"] and pr["ctor"] != "ok":
            fails.append((f"extras:decimal:rejects-documented:{site}", f"DecimalNumber bounds {case['bounds']}={impl['value']}: the value {pr['x']} ({pr['probe']}) was rejected: {pr['ctor']}"))
        if not pr["expect_ok"] and pr["ctor"] == "ok":
            fails.append((f"extras:decimal:accepts-undocumented:{site}", f"DecimalNumber bounds {case['bounds']}={impl['value']}: the value {pr['x']} ({pr['probe']}) was accepted"))
        if pr["ctor"] == "ok" and pr["expect_ok"] and not pr.get("ctor_equal_input"):
            fails.append((f"extras:decimal:normal-form:{site}", f"DecimalNumber given {pr['x']} reads back {pr.get('ctor_stored')}, which is not equal to the number given"))
        if pr["ctor"] not in ("ok", "TypeError", "ValueError"):
            fails.append((f"extras:wrong-exception:{pr['ctor']}:ctor:{site}", f"DecimalNumber given {pr['x']} raised {pr['ctor']}"))
    return fails


def judge_decimal_deser(case, impl):
    """C06: for a JSON number the Deserializer accepts exactly when the constructor does, with an equal value"""
    fails = []
    for pr in impl.get("probes", []):
        site = impl["site"]
        c, d = pr["ctor"], pr.get("deser")
        if c == "ok" and d != "ok":
            fails.append((f"extras:decimal:rejects-image:{site}", f"the constructor accepts {pr['x']} but the Deserializer raises {d}"))
        elif c != "ok" and d == "ok":
            fails.append((f"extras:decimal:accepts-non-image:{site}", f"the constructor rejects {pr['x']} ({c}) but the Deserializer accepts it"))
        elif c == "ok" and pr.get("deser_equals_ctor") is False:
            fails.append((f"extras:decimal:differs-from-constructor:{site}", f"{pr['x']}: Deserializer gives {pr.get('deser_stored')}, the constructor {pr.get('ctor_stored')}"))
        if d not in ("ok", "TypeError", "ValueError", None):
            fails.append((f"extras:wrong-exception:{d}:{site}", f"Deserializer given {pr['x']} raised {d}"))
    return fails


# ------------------------------------------------------------------ C02: DateTime / DateField / TimeField (oracle-only)
# The documented decision, written from the docstrings (independent of the library): DateTime takes a datetime or a
# string in its format (and, undocumented but tested, an int Unix timestamp strictly between 10**9 and 2*10**9);
# DateField takes a date, a datetime (its date part) or a string in its format; TimeField takes a time or a string in
# its format.  Everything else is refused with TypeError / ValueError - whatever its magnitude.

TEMPORAL_VALUES = [
    ["datetime", 2020, 1, 31, 23, 59, 1], ["date", 2020, 1, 31], ["time", 23, 59, 1],
    "01/31/20 07:15:45", "2020-01-31", "23:59:01", "13/31/20 07:15:45", "2020-02-30", "24:00:00", "", "n/a", "1500000000",
    0, 1, -1, True, False, 12122020, 999999999, 10 ** 9, 10 ** 9 + 1, 1500000000, 2 * 10 ** 9 - 1, 2 * 10 ** 9, 2 * 10 ** 9 + 1, 2 ** 31 - 1, 2 ** 31,
    2 ** 32, 10 ** 10, 10 ** 12, 10 ** 15, 10 ** 18, 2 ** 63 - 1, 2 ** 63, 2 ** 64, 10 ** 20, 10 ** 30, 10 ** 100, -10 ** 9 - 5, -1500000000, -10 ** 20,
    ["float", "0.0"], ["float", "1.5e9"], ["float", "1e15"], ["float", "1e20"], ["float", "1e308"], ["float", "inf"], ["float", "-inf"], ["float", "nan"],
    ["float", "-1e18"], ["dec", "1500000000"], ["dec", "1e30"], None, ["list"], ["dict"], ["bytes"],
]
TEMPORAL_LEAVES = ["datetime", "date", "timefield", "datetime-fmt"]
TEMPORAL_WRAPS = ["bare", "optional", "array", "map", "anyof-then-str", "not", "tuple2", "set"]


def _temporal_field(leaf):
    from typedpy.extfields import TimeField
    return {"datetime": lambda: DateTime(), "date": lambda: DateField(), "timefield": lambda: TimeField(),
            "datetime-fmt": lambda: DateTime(datetime_format="%Y-%m-%d %H:%M")}[leaf]()


def _temporal_value(spec):
    if isinstance(spec, list):
        if spec[0] == "time":
            return datetime.time(*spec[1:])
        if spec[0] == "list":
            return [2020, 1, 31]
        if spec[0] == "dict":
            return {"year": 2020}
        if spec[0] == "bytes":
            return b"2020-01-31"
        return load(spec)
    return spec


def temporal_expected(leaf, v):
    """(accepted?, documented normal form or None)"""
    def parse(s, fmt):
        try:
            return datetime.datetime.strptime(s, fmt)
        except ValueError:
            return None
    if leaf in ("datetime", "datetime-fmt"):
        fmt = "%m/%d/%y %H:%M:%S" if leaf == "datetime" else "%Y-%m-%d %H:%M"
        if isinstance(v, datetime.datetime):
            return True, v
        if isinstance(v, str):
            d = parse(v, fmt)
            return d is not None, d
        if isinstance(v, int) and not isinstance(v, bool) and 10 ** 9 < v < 2 * 10 ** 9:
            return True, datetime.datetime.fromtimestamp(v)
        return False, None
    if leaf == "date":
        if isinstance(v, datetime.datetime):
            return True, v.date()
        if isinstance(v, datetime.date):
            return True, v
        if isinstance(v, str):
            d = parse(v, "%Y-%m-%d")
            return d is not None, (d.date() if d else None)
        return False, None
    if leaf == "timefield":
        if isinstance(v, datetime.time):
            return True, v
        if isinstance(v, str):
            d = parse(v, "%H:%M:%S")
            return d is not None, (d.time() if d else None)
        return False, None
    raise ValueError(leaf)


def temporal_cases():
    out = []
    for leaf in TEMPORAL_LEAVES:
        for wrap in TEMPORAL_WRAPS:
            for vi in range(len(TEMPORAL_VALUES)):
                if wrap not in ("bare", "array") and vi % 2 != len(wrap) % 2 and not (24 <= vi <= 42):
                    continue      # every value bare and as an Array element; the ints of every magnitude everywhere
                out.append({"suite": "extras-temporal", "leaf": leaf, "wrap": wrap, "value": vi})
    return out


def run_temporal(case):
    leaf, wrap = case["leaf"], case["wrap"]
    v = _temporal_value(TEMPORAL_VALUES[case["value"]])
    mk = lambda: _temporal_field(leaf)
    try:
        field = {"bare": mk, "optional": lambda: AnyOf[mk(), NoneField()], "array": lambda: Array[mk()], "map": lambda: Map[String(), mk()],
                 "anyof-then-str": lambda: AnyOf[mk(), Boolean()], "not": lambda: typedpy.NotField[mk()], "tuple2": lambda: Tuple[mk(), Integer()],
                 "set": lambda: Set[mk()]}[wrap]()
        cls = type("T", (Structure,), {"f": field, "_required": []})
    except Exception as e:
        return {"skip": f"class: {type(e).__name__}: {e}"[:200]}
    try:
        arg = {"bare": lambda: v, "optional": lambda: v, "array": lambda: [v], "map": lambda: {"k": v}, "anyof-then-str": lambda: v, "not": lambda: v,
               "tuple2": lambda: (v, 1), "set": lambda: {v}}[wrap]()
    except TypeError:
        return {"skip": "unhashable element"}
    leaf_of = {"bare": lambda s: s, "optional": lambda s: s, "array": lambda s: s[0], "map": lambda s: s["k"], "anyof-then-str": lambda s: s,
               "not": lambda s: s, "tuple2": lambda s: s[0], "set": lambda s: next(iter(s))}[wrap]
    exp_ok, exp_norm = temporal_expected(leaf, v)
    if wrap == "optional" and v is None:
        exp_ok, exp_norm = True, None
    if wrap == "anyof-then-str" and isinstance(v, bool):
        exp_ok, exp_norm = True, v
    if wrap == "not":
        exp_ok, exp_norm = (not exp_ok), v
    res = {"site": f"{wrap}>{leaf}", "value": repr(v)[:80], "expect_ok": exp_ok}
    try:
        x = cls(f=arg)
        res["out"] = "accepted"
        stored = leaf_of(x.f)
        res["stored"] = repr(stored)[:80]
        res["normal"] = bool(type(stored) is type(exp_norm) and stored == exp_norm) if exp_ok else None
        res["expected_norm"] = repr(exp_norm)[:80]
    except Exception as e:
        res["out"] = "rejected"
        res["exc"] = type(e).__name__
        res["documented_exc"] = isinstance(e, (TypeError, ValueError))
        res["msg"] = str(e)[:160]
    return res


def judge_temporal(case, impl):
    if "skip" in impl:
        return []
    site = impl["site"]
    fails = []
    if impl["out"] == "rejected" and not impl["documented_exc"]:
        fails.append((f"extras:wrong-exception:{impl['exc']}:ctor:{site}", f"constructor given f={impl['value']} raised {impl['exc']} ({impl['msg']}) instead of TypeError/ValueError"))
    if impl["out"] == "accepted" and not impl["expect_ok"]:
        fails.append((f"extras:temporal:accepts-undocumented:{site}", f"{site} accepts {impl['value']} (stored {impl.get('stored')}), which the documentation excludes"))
    if impl["out"] == "rejected" and impl["expect_ok"]:
        fails.append((f"extras:temporal:rejects-documented:{site}", f"{site} rejects {impl['value']}: {impl.get('exc')}: {impl.get('msg')}"))
    if impl["out"] == "accepted" and impl["expect_ok"] and impl.get("normal") is False:
        fails.append((f"extras:temporal:normal-form:{site}", f"{site} given {impl['value']} reads back {impl.get('stored')}, documented {impl.get('expected_norm')}"))
    return fails


# ------------------------------------------------------------------ C02 / C01: FLOAT multiplesOf steps (oracle-only)
# The Lean model's domain is an int multiplesOf; a float step is documented the same way ("the number must be a multiple of
# this number") and decided in float arithmetic: value / step is integral.  The documented decision is computed here,
# independently, by float division; steps that are not powers of two (0.1, 0.01, 0.3, 2.5 ...) are where `%` and `/` differ.

FSTEPS = [0.1, 0.01, 0.25, 0.5, 2.5, 0.3, 0.001, 1.5, 0.2, 3.0]
FSTEP_KINDS = ["float", "number", "positive-float"]
FSTEP_WRAPS = ["bare", "array", "map", "optional", "anyof-then-str"]


def _fstep_values(step):
    vals = []
    for k in (0, 1, 2, 3, 5, 7, 10, 15, 20, 50, 100, 150, 1000, -1, -3, -10):
        vals.append(k * step)                     # the float product
        vals.append(round(k * step, 6))           # the decimal spelling a user writes (0.5, 1.0, 0.05 ...)
    vals += [step / 2, step * 1.5, step + 1e-9, 0.05, 0.5, 1.0, 1.5, 2, 3, 10, 7, -2, 0, True, 0.75, 1e-3, 123.456]
    out = []
    for v in vals:
        if not any(type(v) is type(w) and v == w for w in out):
            out.append(v)
    return out


def fstep_expected(kind, step, v):
    """documented decision: a number (not bool for Float) whose quotient by the step is integral in float arithmetic"""
    if kind in ("float", "positive-float"):
        if isinstance(v, bool) or not isinstance(v, (int, float)):
            return False, None
        x = float(v)
    else:
        if not isinstance(v, (int, float)):
            return False, None
        x = v
    q = x / step
    ok = (q == int(q))
    if kind == "positive-float" and not x > 0:
        ok = False
    return ok, x


def floatstep_cases():
    out = []
    for si in range(len(FSTEPS)):
        for kind in FSTEP_KINDS:
            for wrap in FSTEP_WRAPS:
                n = len(_fstep_values(FSTEPS[si]))
                for vi in range(n):
                    if wrap != "bare" and vi % 3 != (si + len(wrap)) % 3:
                        continue
                    out.append({"suite": "extras-floatstep", "step": si, "kind": kind, "wrap": wrap, "value": vi})
    return out


def run_floatstep(case):
    from typedpy import Number, PositiveFloat
    step = FSTEPS[case["step"]]
    kind, wrap = case["kind"], case["wrap"]
    v = _fstep_values(step)[case["value"]]
    mk = {"float": lambda: Float(multiplesOf=step), "number": lambda: Number(multiplesOf=step), "positive-float": lambda: PositiveFloat(multiplesOf=step)}[kind]
    try:
        field = {"bare": mk, "array": lambda: Array[mk()], "map": lambda: Map[String(), mk()], "optional": lambda: AnyOf[mk(), NoneField()],
                 "anyof-then-str": lambda: AnyOf[mk(), String()]}[wrap]()
        cls = type("FS", (Structure,), {"f": field, "_required": []})
    except Exception as e:
        return {"skip": f"class: {type(e).__name__}: {e}"[:200]}
    arg = {"bare": v, "array": [v], "map": {"k": v}, "optional": v, "anyof-then-str": v}[wrap]
    leaf = {"bare": lambda s: s, "array": lambda s: s[0], "map": lambda s: s["k"], "optional": lambda s: s, "anyof-then-str": lambda s: s}[wrap]
    exp_ok, exp_norm = fstep_expected(kind, step, v)
    res = {"site": f"{wrap}>{kind}", "step": step, "value": repr(v), "expect_ok": exp_ok}
    try:
        x = cls(f=arg)
        stored = leaf(x.f)
        res["out"] = "accepted"
        res["stored"] = repr(stored)
        res["normal"] = bool(type(stored) is type(exp_norm) and stored == exp_norm) if exp_ok else None
    except Exception as e:
        res["out"] = "rejected"
        res["exc"] = type(e).__name__
        res["documented_exc"] = isinstance(e, (TypeError, ValueError))
        res["msg"] = str(e)[:160]
    return res


def judge_floatstep(case, impl):
    if "skip" in impl:
        return []
    site, fails = impl["site"], []
    what = f"{site}(multiplesOf={impl['step']}) given {impl['value']}"
    if impl["out"] == "rejected" and not impl["documented_exc"]:
        fails.append((f"extras:wrong-exception:{impl['exc']}:ctor:floatstep:{site}", f"{what} raised {impl['exc']}: {impl['msg']}"))
    if impl["out"] == "accepted" and not impl["expect_ok"]:
        fails.append((f"extras:floatstep:accepts-undocumented:{site}", f"{what} is accepted (stored {impl.get('stored')}) although value / step is not integral"))
    if impl["out"] == "rejected" and impl["expect_ok"]:
        fails.append((f"extras:floatstep:rejects-documented:{site}", f"{what} is rejected ({impl.get('exc')}: {impl.get('msg')}) although value / step is integral"))
    if impl["out"] == "accepted" and impl["expect_ok"] and impl.get("normal") is False:
        fails.append((f"extras:floatstep:normal-form:{site}", f"{what} reads back {impl.get('stored')}"))
    return fails
