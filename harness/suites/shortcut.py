"""
Suite `shortcut` (property C10): classes on the eligibility boundary of trusted deserialization,
documents / keyword arguments / instances for them, run on the real code
  * mode `trusted`  : `_structure_simplicity_level`, Deserializer with and without
                      direct_trusted_mapping, ==, Serializer of both instances;
  * mode `construct`: cls(**kw) vs from_trusted_data(None, **kw) / from_trusted_data(mapping) /
                      trust_supplied_values() + cls(**kw);
  * mode `fast`     : FastSerializable twin classes: create_serializer verdict, x.serialize() vs
                      Serializer(twin).serialize(compact=...)
and on the Lean model (Sem/Trusted.lean, Sem/Fast.lean, Spec/TrustedSafe.lean, Spec/FastSafe.lean).
Every case builds fresh classes (the classifier's lru_cache and the installed `cls.serialize` are
per class object).
"""
import copy
import json

from typedpy import Deserializer, Serializer, Structure, FastSerializable, create_serializer, FunctionCall, mappers
from typedpy.structures import TypedPyDefaults
from typedpy.serialization import serialization as SER

from .. import dump, gen
from . import construct as C
from . import serde as S

FIELD_NAMES = ["a", "b_c", "d1", "e_f_g", "h", "i_j"]
SCALARS = ["integer", "number", "float", "string", "boolean", "enumCls", "enumLit", "noneF"]
NONE = {"k": "noneF"}


# ------------------------------------------------------------------ mappers (Python mirror, generation only)

def camel(key):
    words = key.split("_")
    return words[0] + "".join(w.title() for w in words[1:])


def map_key(m, name):
    if isinstance(m, dict) and "chain" in m:      # the regular path: the parents' mapper, then the class's own
        for step in m["chain"]:
            name = map_key(step, name)
        return name
    if m == "camel":
        return camel(name)
    if m == "lower":
        return name.upper()
    if isinstance(m, dict) and "rename" in m:
        out = name
        for k, v in m["rename"]:
            if k == name:
                out = v
        return out
    return name


def real_mapper(m, cls_decl):
    if m in (None, "none"):
        return None
    if m == "camel":
        return mappers.TO_CAMELCASE
    if m == "lower":
        return mappers.TO_LOWERCASE
    if isinstance(m, dict) and "rename" in m:
        return {k: v for k, v in m["rename"]}
    if isinstance(m, dict) and "complex" in m:
        first = cls_decl["fields"][0][0]
        kind = m["complex"]
        if kind == "list":
            return [mappers.TO_LOWERCASE, {}]
        if kind == "nested":
            return {first + "._mapper": {"q": "r"}}
        if kind == "fn":
            return {first: FunctionCall(func=_ident)}
    raise ValueError(f"mapper {m!r}")


def _ident(x):
    return x


def wire_mapper(m):
    if m in (None, "none"):
        return "none"
    if isinstance(m, dict) and "complex" in m:
        return "complex-list" if m["complex"] == "list" else "complex"
    return m


# ------------------------------------------------------------------ where a class declares its mapper(s)

SLOTS = {"ser": "_serialization_mapper", "deser": "_deserialization_mapper"}
EMPTY = {"rename": []}       # a declared `{}`


def find_struct(d, name):
    if isinstance(d, dict):
        if d.get("k") == "struct" and d.get("name") == name:
            return d
        for v in d.values():
            r = find_struct(v, name)
            if r is not None:
                return r
    elif isinstance(d, list):
        for x in d:
            r = find_struct(x, name)
            if r is not None:
                return r
    return None


def other_mapper(rng, names, m):
    """a simple mapper different from m: an enum mapper, a rename dict (injective), or {}"""
    for _ in range(8):
        r = rng.random()
        if r < 0.25:
            o = "camel"
        elif r < 0.5:
            o = "lower"
        elif r < 0.65:
            o = EMPTY
        else:
            keys = rng.sample(["k1", "k2", "zz", "q_r", "k3", "w_w", "o1", "o2"], min(len(names), 8))
            o = {"rename": [[n, k] for n, k in zip(names, keys) if rng.random() < 0.7]}
        if o != m and [map_key(o, n) for n in names] != [map_key(m, n) for n in names]:
            return o
    return EMPTY if m != EMPTY else "lower"


def resolve_decl(d):
    """the mapper the deserializing paths read: getattr(cls, DESER, getattr(cls, SER, {}))"""
    own = d.get("deser") if d.get("deser") is not None else d.get("baseDeser")
    if own is not None:
        return own
    ser = d.get("ser") if d.get("ser") is not None else d.get("baseSer")
    return ser if ser is not None else "none"


def chain_of(d):
    """what the regular path reads: per class of the MRO its deserialization mapper, else its serialization mapper
    (an inherited attribute counts for the subclass again), chained parent first"""
    def slot(deser, ser):
        return deser if deser is not None else ser
    base = slot(d.get("baseDeser"), d.get("baseSer"))
    own = slot(d.get("deser") if d.get("deser") is not None else d.get("baseDeser"),
               d.get("ser") if d.get("ser") is not None else d.get("baseSer"))
    return [m for m in (base, own) if m is not None]


def mapper_decls(rng, cls, table):
    """for every class with a mapper: which attribute(s) declare it, in the class or in a parent class"""
    decls, eff = {}, {}
    for name, m in table.items():
        d = find_struct(cls, name)
        if d is None or d.get("inline"):
            continue        # generated but not part of the final class tree
        names = [n for n, _ in d["fields"]]
        simple = not (isinstance(m, dict) and "complex" in m)
        kinds = (["ser"] * 3 + ["deser", "both-equal", "both-diff", "both-diff", "ser-empty", "deser-empty",
                               "base", "base-deser", "base-chain"]) if simple else ["ser", "ser", "deser", "base"]
        kind = rng.choice(kinds)
        if kind == "ser":
            dc = {"ser": m}
        elif kind == "deser":
            dc = {"deser": m}
        elif kind == "both-equal":
            dc = {"ser": m, "deser": m}
        elif kind == "both-diff":
            dc = {"deser": m, "ser": other_mapper(rng, names, m)}
        elif kind == "ser-empty":
            dc = {"deser": m, "ser": EMPTY}
        elif kind == "deser-empty":
            dc = {"deser": EMPTY, "ser": m}
        elif kind == "base":
            dc = {"baseSer": m}
        elif kind == "base-deser":
            dc = {"baseDeser": m, "ser": other_mapper(rng, names, m)} if rng.random() < 0.5 else {"baseDeser": m}
        else:
            dc = {"baseSer": rng.choice(["camel", "lower"]), "ser": m}
        dc["kind"] = kind
        decls[name] = dc
        eff[name] = resolve_decl(dc)
    return decls, eff


def wire_decls(decls):
    return [[n, {slot: wire_mapper(d[slot]) for slot in ("ser", "deser", "baseSer", "baseDeser") if d.get(slot) is not None}]
            for n, d in sorted((decls or {}).items())]


# ------------------------------------------------------------------ declarations on the boundary

class BoundaryGen:
    def __init__(self, rng, max_depth, p_mapper=0.0, fast=False):
        self.rng = rng
        self.dg = gen.DeclGen(rng, max_depth=2, p_constraint=0.25)
        self.max_depth = max_depth
        self.p_mapper = p_mapper
        self.fast = fast
        self.mappers = {}
        self.n = 0

    def scalar(self, kinds=SCALARS):
        return self.dg.scalar(self.rng.choice(kinds))

    def hashable(self):
        return self.dg.scalar(self.rng.choice(["integer", "string", "float", "boolean", "enumCls", "enumLit", "number"]))

    def nested(self, depth):
        if depth >= self.max_depth:
            return self.scalar()
        return self.class_decl(depth + 1)

    def field(self, depth):
        rng = self.rng
        shape = rng.choices(
            ["scalar", "opt", "optRev", "arr", "set", "map", "anyOf", "struct", "arrStruct", "setStruct", "optStruct",
             "optRevStruct", "optArr", "optArrStruct", "optSet", "optMap", "optTuple", "optOther", "tuple", "tuplePos",
             "deque", "seqPos", "inline", "anything", "untyped", "arrArr", "multi", "mapStruct", "anyOf3"],
            [14, 7, 3, 7, 6, 2, 3, 5, 4, 2, 3,
             1, 2, 2, 1, 1, 1, 1, 1, 1,
             1, 1, 1, 1, 1, 1, 1, 1, 1])[0]
        sc = self.scalar
        if shape == "scalar":
            return sc()
        if shape == "opt":
            return {"k": "anyOf", "fields": [sc([k for k in SCALARS if k != "noneF"]), NONE]}
        if shape == "optRev":
            return {"k": "anyOf", "fields": [NONE, sc([k for k in SCALARS if k != "noneF"])]}
        if shape == "arr":
            return self.dg.size_opts({"k": "seqOf", "item": sc()})
        if shape == "set":
            return self.dg.size_opts({"k": "setOf", "item": self.hashable(), **({"imm": True} if rng.random() < 0.25 else {})},
                                     uniq=False)
        if shape == "map":
            return {"k": "mapOf", "key": self.dg.scalar("string"), "val": sc()}
        if shape == "anyOf":
            return {"k": "anyOf", "fields": [sc(["integer", "float", "boolean", "enumCls"]), sc(["string", "enumLit"])]}
        if shape == "anyOf3":
            return {"k": "anyOf", "fields": [sc(["integer", "enumCls"]), sc(["string"]), NONE]}
        if shape == "struct":
            return self.nested(depth)
        if shape == "arrStruct":
            return {"k": "seqOf", "item": self.nested(depth)}
        if shape == "setStruct":
            return {"k": "setOf", "item": self.nested(depth)}
        if shape == "mapStruct":
            return {"k": "mapOf", "key": self.dg.scalar("string"), "val": self.nested(depth)}
        if shape == "optStruct":
            return {"k": "anyOf", "fields": [self.nested(depth), NONE]}
        if shape == "optRevStruct":
            return {"k": "anyOf", "fields": [NONE, self.nested(depth)]}
        if shape == "optArr":
            return {"k": "anyOf", "fields": [{"k": "seqOf", "item": sc()}, NONE]}
        if shape == "optArrStruct":
            return {"k": "anyOf", "fields": [{"k": "seqOf", "item": self.nested(depth)}, NONE]}
        if shape == "optSet":
            return {"k": "anyOf", "fields": [{"k": "setOf", "item": self.hashable()}, NONE]}
        if shape == "optMap":
            return {"k": "anyOf", "fields": [{"k": "mapOf", "key": self.dg.scalar("string"),
                                              "val": rng.choice([sc(), self.nested(depth)])}, NONE]}
        if shape == "optTuple":
            return {"k": "anyOf", "fields": [{"k": "tuplePos", "items": [sc(), sc()]}, NONE]}
        if shape == "optOther":
            return {"k": "anyOf", "fields": [rng.choice([{"k": "seqOf", "seq": "deque", "item": sc()},
                                                          {"k": "seqAny"}, {"k": "anything"},
                                                          {"k": "tupleOf", "item": sc()}]), NONE]}
        if shape == "tuple":
            return {"k": "tupleOf", "item": sc()}
        if shape == "tuplePos":
            return {"k": "tuplePos", "items": [sc(), sc()]}
        if shape == "deque":
            return {"k": "seqOf", "seq": "deque", "item": sc()}
        if shape == "seqPos":
            d = {"k": "seqPos", "items": [sc(), sc()]}
            if rng.random() < 0.5:
                d["addl"] = False
            return d
        if shape == "inline":
            d = self.class_decl(depth + 1, inline=True)
            return d
        if shape == "anything":
            return {"k": "anything"}
        if shape == "untyped":
            return rng.choice([{"k": "seqAny"}, {"k": "setAny"}, {"k": "mapAny"}, {"k": "seqAny", "seq": "deque"}])
        if shape == "arrArr":
            return {"k": "seqOf", "item": rng.choice([{"k": "seqOf", "item": sc()}, {"k": "setOf", "item": self.hashable()},
                                                      {"k": "anyOf", "fields": [sc(["integer"]), sc(["string"])]}])}
        if shape == "multi":
            return {"k": rng.choice(["oneOf", "allOf"]), "fields": [sc(["integer", "number"]), sc(["number", "float"])]}
        raise ValueError(shape)

    def class_decl(self, depth=0, inline=False, n_fields=None):
        rng = self.rng
        self.n += 1
        my_id = self.n
        n = n_fields if n_fields is not None else rng.choice([1, 2, 2, 3, 3, 4])
        names = rng.sample(FIELD_NAMES, n)
        fields = [[nm, self.field(depth)] for nm in names]
        required = [nm for nm in names if rng.random() < 0.55]
        d = {"k": "struct", "name": ("Inl" if inline else "Cls") + str(my_id), "required": sorted(required),
             "addl": rng.random() < 0.6, "fields": fields}
        if rng.random() < 0.3:
            d["ignoreNone"] = True
        if inline:
            d["inline"] = True
        # defaults on optional scalar fields
        vg = gen.ValGen(rng)
        defaults = []
        for nm, fd in fields:
            if nm not in required and fd["k"] in ("integer", "string", "float", "boolean", "number") and rng.random() < 0.3:
                v = vg.valid(fd)
                if v is not gen.NOVALUE and not isinstance(v, str) or (fd["k"] == "string" and isinstance(v, str)):
                    if fd["k"] == "float" and isinstance(v, int):
                        v = gen.fl(v)
                    defaults.append([nm, v])
        if defaults:
            d["defaults"] = defaults
        if not inline and rng.random() < self.p_mapper:
            r = rng.random()
            if r < 0.3:
                m = "camel"
            elif r < 0.55:
                m = "lower"
            elif r < 0.85:
                # injective on the class's fields (key collisions are C07's subject)
                ren = []
                pool = ["k1", "k2", "zz", "q_r", "k3", "w_w"] + names
                taken = set()
                for nm in names:
                    key = rng.choice(pool) if rng.random() < 0.6 else nm
                    if key in taken or (key != nm and key in names and key not in [r[0] for r in ren] and rng.random() < 0.7):
                        key = nm
                    if key in taken:
                        key = "u_" + nm
                    taken.add(key)
                    if key != nm:
                        ren.append([nm, key])
                keys = [dict(ren).get(nm, nm) for nm in names]
                m = {"rename": ren} if ren and len(set(keys)) == len(keys) else "camel"
            else:
                m = {"complex": rng.choice(["list", "nested", "fn"])}
            self.mappers[d["name"]] = m
        return d


# ------------------------------------------------------------------ enum classes of several kinds

ENUM_KINDS = ["plain", "plain", "int", "intflag", "str_diff", "str_same", "float"]


def make_enum(name, members, kind):
    """an enum class with the given member names; the member VALUES are chosen so that no generated document
    value is == to a member (the model addresses members by name only)"""
    import enum
    if kind == "int":
        return enum.IntEnum(name, {m: 1001 + i for i, m in enumerate(members)})
    if kind == "intflag":
        return enum.IntFlag(name, {m: 1024 << i for i, m in enumerate(members)})
    if kind == "str_diff":
        return enum.Enum(name, {m: m.lower() + "_v" for m in members}, type=str)
    if kind == "str_same":
        return enum.Enum(name, {m: m for m in members}, type=str)
    if kind == "float":
        return enum.Enum(name, {m: 1001.5 + i for i, m in enumerate(members)}, type=float)
    return enum.Enum(name, {m: i + 1 for i, m in enumerate(members)})


def make_ctx(case):
    ctx = dump.Ctx()
    kinds = case.get("enumKinds") or {}
    for name, members in gen.ENUMS.items():
        ctx.enums[name] = make_enum(name, members, kinds.get(name, "plain"))
    return ctx


def pick_kinds(rng):
    return {name: rng.choice(ENUM_KINDS) for name in sorted(gen.ENUMS)}


# ------------------------------------------------------------------ building real classes

def build_tree(decl, ctx, mapper_table=None, fast=False, non_fast=(), split=None, mapper_decls=None):
    """build every non-inline class of `decl` bottom-up (mapper / FastSerializable included);
    `split=k`: the top class is declared as a subclass: its first k fields live in a parent class"""
    mapper_table = mapper_table or {}

    def build_one(d, split=None):
        bases = (Structure, FastSerializable) if (fast and d["name"] not in non_fast) else (Structure,)
        fields = list(d["fields"])
        dc = (mapper_decls or {}).get(d["name"])
        if dc is not None:
            attrs = lambda a, b: {SLOTS[k]: real_mapper(dc[v], d) for k, v in (("ser", a), ("deser", b)) if dc.get(v) is not None}
            own, inherited = attrs("ser", "deser"), attrs("baseSer", "baseDeser")
            if inherited:
                parent = make(d, d["name"] + "Base", [], bases, inherited)      # a parent class that only declares the mapper
                cls = make(d, d["name"], fields, (parent,), own)
            else:
                cls = make(d, d["name"], fields, bases, own)
        elif split:
            parent = make(d, d["name"] + "Base", fields[:split], bases, {})
            ctx.parent_class = parent
            cls = make(d, d["name"], fields[split:], (parent,), {})
        else:
            m = real_mapper(mapper_table.get(d["name"]), d)
            cls = make(d, d["name"], fields, bases, {} if m is None else {"_serialization_mapper": m})
        ctx.classes[d["name"]] = cls
        return cls

    def make(d, name, fields, bases, m):
        body = {}
        for n, fd in fields:
            body[n] = dump.build_field(fd, ctx, _imm=n in d.get("immFields", []), **dump._default_kw(d, n, ctx))
        names = [n for n, _ in fields]
        body["_required"] = [r for r in d["required"] if r in names]
        body["_additional_properties"] = bool(d.get("addl", True))
        if d.get("ignoreNone"):
            body["_ignore_none"] = True
        body.update(m)
        return type(name, bases, body)

    def walk(d):
        if isinstance(d, dict):
            if d.get("k") == "struct":
                for _, fd in d["fields"]:
                    walk(fd)
                if not d.get("inline") and d["name"] not in ctx.classes:
                    build_one(d, split if d is decl else None)
                return
            for v in d.values():
                walk(v)
        elif isinstance(d, list):
            for x in d:
                walk(x)

    walk(decl)
    return ctx.classes[decl["name"]]


def class_names(d, acc=None):
    acc = [] if acc is None else acc
    if isinstance(d, dict):
        if d.get("k") == "struct" and not d.get("inline"):
            acc.append(d["name"])
        for v in d.values():
            class_names(v, acc)
    elif isinstance(d, list):
        for x in d:
            class_names(x, acc)
    return acc


# ------------------------------------------------------------------ documents

def map_doc(d, doc, table, outer=(), cascade=False):
    """rename the keys of every class-level object of a document by its class's mapper; `outer` = enum
    mappers of the enclosing classes (the regular path applies them to nested classes as well)"""
    if d is None or not isinstance(doc, dict):
        return doc
    k = d["k"]
    if k == "struct" and "m" in doc:
        if d.get("inline"):
            fd = dict((n, f) for n, f in d["fields"])
            return {"m": [[kk, map_doc(fd.get(kk), v, table, (), cascade)] for kk, v in doc["m"]]}
        m = table.get(d["name"])
        fd = dict((n, f) for n, f in d["fields"])
        inner_outer = (outer + ((m,) if m in ("camel", "lower") else ())) if cascade else ()
        out = []
        for kk, v in doc["m"]:
            key = kk
            if kk in fd:
                key = map_key(m, kk)
                for om in outer:
                    key = map_key(om, key)
            out.append([key, map_doc(fd.get(kk), v, table, inner_outer, cascade)])
        return {"m": out}
    if k in ("seqOf", "setOf", "tupleOf") and "l" in doc:
        return {"l": [map_doc(d["item"], x, table, outer, cascade) for x in doc["l"]]}
    if k in ("seqPos", "tuplePos") and "l" in doc:
        return {"l": [map_doc(d["items"][i] if i < len(d["items"]) else None, x, table, outer, cascade) for i, x in enumerate(doc["l"])]}
    if k == "mapOf" and "m" in doc:
        return {"m": [[kk, map_doc(d["val"], v, table, outer, cascade)] for kk, v in doc["m"]]}
    if k in ("anyOf", "oneOf", "allOf"):
        for opt in d["fields"]:
            if opt["k"] == "struct" and "m" in doc or opt["k"] in S.LISTY and "l" in doc or opt["k"] == "mapOf" and "m" in doc:
                return map_doc(opt, doc, table, outer, cascade)
    return doc


def dup_set_elems(rng, d, doc, p=0.5):
    """repeat an element in the JSON arrays of Set fields (a JSON array may list an element twice)"""
    if d is None or not isinstance(doc, dict):
        return doc
    k = d["k"]
    if k == "struct" and "m" in doc:
        fd = dict((n, f) for n, f in d["fields"])
        return {"m": [[kk, dup_set_elems(rng, fd.get(kk), v, p)] for kk, v in doc["m"]]}
    if k == "setOf" and "l" in doc:
        xs = [dup_set_elems(rng, d["item"], x, p) for x in doc["l"]]
        if xs and rng.random() < p:
            xs.insert(rng.randrange(len(xs) + 1), copy.deepcopy(rng.choice(xs)))
        return {"l": xs}
    if k in ("seqOf", "tupleOf") and "l" in doc:
        return {"l": [dup_set_elems(rng, d["item"], x, p) for x in doc["l"]]}
    if k == "mapOf" and "m" in doc:
        return {"m": [[kk, dup_set_elems(rng, d["val"], v, p)] for kk, v in doc["m"]]}
    if k == "anyOf":
        for opt in d["fields"]:
            if opt["k"] == "struct" and "m" in doc or opt["k"] in ("seqOf", "setOf") and "l" in doc:
                return dup_set_elems(rng, opt, doc, p)
    return doc


def inject_nulls(rng, d, doc, p=0.25):
    """add `key: null` for some absent non-required fields of class-level objects"""
    if d is None or not isinstance(doc, dict):
        return doc
    k = d["k"]
    if k == "struct" and "m" in doc:
        fd = dict((n, f) for n, f in d["fields"])
        out = [[kk, inject_nulls(rng, fd.get(kk), v, p)] for kk, v in doc["m"]]
        have = {kk for kk, _ in out}
        for n, _ in d["fields"]:
            if n not in have and n not in d["required"] and rng.random() < p:
                out.append([n, None])
        return {"m": out}
    if k in ("seqOf", "setOf", "tupleOf") and "l" in doc:
        return {"l": [inject_nulls(rng, d["item"], x, p) for x in doc["l"]]}
    if k == "mapOf" and "m" in doc:
        return {"m": [[kk, inject_nulls(rng, d["val"], v, p)] for kk, v in doc["m"]]}
    if k == "anyOf":
        for opt in d["fields"]:
            if opt["k"] == "struct" and "m" in doc or opt["k"] in ("seqOf", "setOf") and "l" in doc:
                return inject_nulls(rng, opt, doc, p)
    return doc


# ------------------------------------------------------------------ generation

OPTS = [{"keepUndefined": ku, "ignoreInvalidAddl": ii} for ku in (True, False, None) for ii in (True, False)]


def gen_trusted(rng, tier, n_classes):
    cases = []
    for ci in range(n_classes):
        with_mappers = rng.random() < 0.3
        bg = BoundaryGen(rng, max_depth=rng.choice([0, 1, 1, 2, 2 if tier == "quick" else 3]),
                         p_mapper=0.6 if with_mappers else 0.0)
        cls = bg.class_decl(0)
        C.fix_accepts(cls)
        vg = gen.ValGen(rng)
        decls, table = mapper_decls(rng, cls, dict(bg.mappers))     # table: the mapper the deserializing paths read
        wire_table = [[n, wire_mapper(m)] for n, m in sorted(table.items())]
        base = {"suite": "shortcut", "mode": "trusted", "cls": cls, "mappers": wire_table, "mapperSpec": table,
                "mapperDecls": decls, "enumKinds": pick_kinds(rng)}
        if not table and len(cls["fields"]) >= 2 and rng.random() < 0.2:
            # the class is declared as a SUBCLASS: its first k fields live in a parent class (the classifier, the enum
            # mapping and from_trusted_data must go through get_all_fields_by_name, not the class's own __dict__)
            base["split"] = rng.randint(1, len(cls["fields"]) - 1)
        chain_table = {n: {"chain": chain_of(dc)} for n, dc in decls.items()}
        for _ in range(4):
            kw = vg.valid_kw(cls)
            if kw is gen.NOVALUE:
                continue
            fd = dict((n, f) for n, f in cls["fields"])
            doc = {"m": [[k, S.to_doc(fd.get(k), v)] for k, v in kw]}
            doc = S.dedupe_doc(doc)
            if rng.random() < 0.5:
                doc = inject_nulls(rng, cls, doc)
            doc = dup_set_elems(rng, cls, doc)
            variants = [("image", doc)]
            if rng.random() < 0.25:
                variants.append(("corrupt", S.dedupe_doc(S.corrupt_doc(rng, doc))))
            for tag, dd in variants:
                o = rng.choice(OPTS)
                if table:
                    own = map_doc(cls, dd, table, ())
                    cases.append(dict(base, stream=tag + ":own-keys", doc=own, opts=o, re=gen.re_table(cls, own)))
                    if rng.random() < 0.5:
                        casc = map_doc_cascade(cls, dd, table)
                        if casc != own:
                            cases.append(dict(base, stream=tag + ":cascade-keys", doc=casc, opts=o, re=gen.re_table(cls, casc)))
                    if rng.random() < 0.3:
                        cases.append(dict(base, stream=tag + ":field-names", doc=dd, opts=o, re=gen.re_table(cls, dd)))
                    chained = map_doc(cls, dd, chain_table, ())
                    if chained != own and rng.random() < 0.7:
                        cases.append(dict(base, stream=tag + ":chain-keys", doc=chained, opts=o, re=gen.re_table(cls, chained)))
                else:
                    cases.append(dict(base, stream=tag, doc=dd, opts=o, re=gen.re_table(cls, dd)))
        cases.append(dict(base, stream="non-object", doc=rng.choice([None, 1, "s", {"l": []}, {"m": []}]),
                          opts=rng.choice(OPTS), re=gen.re_table(cls)))
    return cases


def map_doc_cascade(cls, doc, table):
    """keys as the regular path reads them: the enclosing classes' enum mappers applied to nested classes too"""
    return map_doc(cls, doc, table, (), cascade=True)


def gen_construct(rng, tier, n_classes):
    cases = []
    for ci in range(n_classes):
        bg = BoundaryGen(rng, max_depth=rng.choice([0, 1, 1, 2]))
        cls = bg.class_decl(0)
        C.fix_accepts(cls)
        vg = gen.ValGen(rng)
        kinds = pick_kinds(rng)
        for _ in range(4):
            kw = vg.valid_kw(cls)
            if kw is gen.NOVALUE:
                continue
            if rng.random() < 0.3:
                for n, _f in cls["fields"]:
                    if n not in cls["required"] and all(k != n for k, _ in kw) and rng.random() < 0.4:
                        kw = kw + [[n, None]]
            cases.append({"suite": "shortcut", "mode": "construct", "cls": cls, "kw": kw, "stream": "valid",
                          "enumKinds": kinds, "re": gen.re_table(cls, kw)})
    return cases


def gen_fast(rng, tier, n_classes):
    cases = []
    for ci in range(n_classes):
        with_mappers = rng.random() < 0.25
        bg = BoundaryGen(rng, max_depth=rng.choice([0, 1, 1, 2]), p_mapper=0.6 if with_mappers else 0.0, fast=True)
        cls = bg.class_decl(0, n_fields=rng.choice([1, 1, 2, 3, 4]))
        C.fix_accepts(cls)
        table = {n: (m if not (isinstance(m, dict) and "complex" in m) else {"complex": "fn"}) for n, m in bg.mappers.items()}
        nested = [n for n in class_names(cls) if n != cls["name"]]
        non_fast = [n for n in nested if rng.random() < 0.12]
        vg = gen.ValGen(rng)
        kinds = pick_kinds(rng)
        for _ in range(3):
            kw = vg.valid_kw(cls)
            if kw is gen.NOVALUE:
                continue
            for sn in (False, True):
                for compact in (False, True):
                    if sn and compact and rng.random() < 0.5:
                        continue
                    # how the serializer comes to exist: an explicit create_serializer call (the only way to pass
                    # flags), implicitly at the first instantiation, or implicitly for a SUBCLASS whose parent class
                    # already has its own serializer (parent instantiated / create_serializer(parent) first)
                    hist, extra = "explicit", {}
                    if not sn and not compact:
                        r = rng.random()
                        if r < 0.25:
                            hist = "implicit"
                        elif r < 0.7 and len(cls["fields"]) >= 2 and cls["name"] not in table:
                            hist = "inherit"
                            extra = {"split": rng.randint(1, len(cls["fields"]) - 1),
                                     "parentFirst": rng.choice(["instantiate", "create"])}
                    cases.append({"suite": "shortcut", "mode": "fast", "cls": cls, "kw": kw, "serializeNone": sn,
                                  "compact": compact, "nonFast": non_fast, "history": hist, "enumKinds": kinds, **extra,
                                  "mappers": [[n, wire_mapper(m)] for n, m in sorted(table.items())], "mapperSpec": table,
                                  "stream": f"sn={int(sn)},compact={int(compact)},{hist}", "re": gen.re_table(cls, kw)})
    return cases


# ------------------------------------------------------------------ Enum(serialization_by_value=True): oracle only

ENUM_SITES = ["field", "optional", "optionalRev", "array", "set"]


TEMPORAL_SITES = {"date": ("date", "plain"), "time": ("time", "plain"), "datetime": ("datetime", "plain"),
                  "optDate": ("date", "opt"), "arrDate": ("date", "arr"), "optRevTime": ("time", "optRev")}
TEMPORAL_VALUES = {"date": ["2020-01-31", "1999-12-01", "2024-02-29"], "time": ["07:15:45", "00:00:00", "23:59:59"],
                   "datetime": ["01/31/20 07:15:45", "12/01/99 00:00:00"]}


def _temporal_field(kind):
    from typedpy.extfields.extfields import DateField, TimeField, DateTime
    return {"date": DateField, "time": TimeField, "datetime": DateTime}[kind]()


def _temporal_value(kind, text):
    import datetime as _dt
    if kind == "date":
        return _dt.datetime.strptime(text, "%Y-%m-%d").date()
    if kind == "time":
        return _dt.datetime.strptime(text, "%H:%M:%S").time()
    return _dt.datetime.strptime(text, "%m/%d/%y %H:%M:%S")


def gen_enumvalue(rng, tier, n_classes):
    """classes whose fields are Enum fields over enum classes of every kind, by name and BY VALUE (the model has
    no by-value enums: these cases run the property's oracle on the real code only)"""
    cases = []
    for ci in range(n_classes):
        n = rng.choice([1, 2, 3])
        names = rng.sample(FIELD_NAMES, n)
        fields = []
        for nm in names:
            ename = rng.choice(sorted(gen.ENUMS))
            fields.append({"name": nm, "site": rng.choice(ENUM_SITES), "enum": ename, "byValue": rng.random() < 0.7})
        if rng.random() < 0.4:
            fields.append({"name": "z_n", "site": "int"})
        # other vocabulary the model does not have: DecimalNumber fields, Constant attributes (int / enum member)
        if rng.random() < 0.3:
            fields.append({"name": "z_d", "site": "decimal"})
        # SerializableField types the model does not have (the `field_def.deserialize(v)` / `[... for x in v]` branches of
        # _remap_input, `obj.serialize(val)` of the fast getter): DateField / TimeField / DateTime, bare, Optional, in an Array
        if rng.random() < 0.3:
            fields.append({"name": "z_t", "site": rng.choice(["date", "time", "datetime", "optDate", "arrDate", "optRevTime"])})
        if rng.random() < 0.25:
            fields.append({"name": "z_k", "site": "constInt"})
        if rng.random() < 0.25:
            fields.append({"name": "z_e", "site": "constEnum", "enum": rng.choice(sorted(gen.ENUMS))})
        kinds = pick_kinds(rng)
        required = [f["name"] for f in fields if rng.random() < 0.6 and not f["site"].startswith("const")]
        for _ in range(3):
            vals = []
            for f in fields:
                if f["site"].startswith("const"):
                    continue
                if f["name"] not in required and rng.random() < 0.3:
                    continue
                if f["site"] in TEMPORAL_SITES:
                    kind = TEMPORAL_SITES[f["site"]][0]
                    pick = lambda: rng.choice(TEMPORAL_VALUES[kind])
                    vals.append([f["name"], [pick() for _ in range(rng.randint(0, 3))] if f["site"] == "arrDate" else pick()])
                elif f["site"] == "decimal":
                    vals.append([f["name"], rng.choice(["1.5", "0.25", 2, "10"])])
                elif f["site"] == "int":
                    vals.append([f["name"], rng.choice([0, 1, 7])])
                elif f["site"] in ("array", "set"):
                    k = rng.randint(0, 3)
                    ms = [rng.choice(gen.ENUMS[f["enum"]]) for _ in range(k)]
                    vals.append([f["name"], ms])
                else:
                    vals.append([f["name"], rng.choice(gen.ENUMS[f["enum"]])])
            cases.append({"suite": "shortcut", "mode": "enumvalue", "fields": fields, "required": required,
                          "members": vals, "enumKinds": kinds, "ignoreNone": rng.random() < 0.3,
                          "stream": "by-value", "cls": {"k": "struct", "name": "E%d" % ci, "required": required,
                                                        "fields": [], "accepts": []}})
    return cases


def run_enumvalue(case):
    from typedpy import Enum as EnumF, Array as ArrayF, Set as SetF, AnyOf as AnyOfF, Integer as IntegerF, DecimalNumber
    from typedpy.commons import Constant
    from typedpy.structures import NoneField
    from decimal import Decimal
    ctx = make_ctx(case)

    def body():
        b = {}
        for f in case["fields"]:
            if f["site"] == "int":
                b[f["name"]] = IntegerF()
                continue
            if f["site"] == "decimal":
                b[f["name"]] = DecimalNumber()
                continue
            if f["site"] in TEMPORAL_SITES:
                kind, wrap = TEMPORAL_SITES[f["site"]]
                tf = _temporal_field(kind)
                b[f["name"]] = {"plain": lambda: tf, "opt": lambda: AnyOfF([tf, NoneField()]),
                                "optRev": lambda: AnyOfF([NoneField(), tf]), "arr": lambda: ArrayF(items=tf)}[wrap]()
                continue
            if f["site"] == "constInt":
                b[f["name"]] = Constant(7)
                continue
            if f["site"] == "constEnum":
                b[f["name"]] = Constant(ctx.enums[f["enum"]][gen.ENUMS[f["enum"]][0]])
                continue
            mk = lambda: EnumF(values=ctx.enums[f["enum"]], serialization_by_value=bool(f["byValue"]))
            b[f["name"]] = {"field": mk, "optional": lambda: AnyOfF([mk(), NoneField()]),
                            "optionalRev": lambda: AnyOfF([NoneField(), mk()]),
                            "array": lambda: ArrayF(items=mk()), "set": lambda: SetF(items=mk())}[f["site"]]()
        b["_required"] = list(case["required"])
        if case.get("ignoreNone"):
            b["_ignore_none"] = True
        return b
    name = case["cls"]["name"]
    try:
        P = type(name, (Structure,), body())
        F = type(name, (Structure, FastSerializable), body())
    except Exception as e:
        return {"unbuildable": f"class: {type(e).__name__}: {e}"}
    spec = {f["name"]: f for f in case["fields"]}

    def member(f, m):
        return ctx.enums[f["enum"]][m]

    def json_of(f, m):
        mem = member(f, m)
        return mem.value if f["byValue"] else mem.name
    doc, kw = {}, {}
    for nm, v in case["members"]:
        f = spec[nm]
        if f["site"] == "int":
            doc[nm] = kw[nm] = v
        elif f["site"] in TEMPORAL_SITES:
            kind = TEMPORAL_SITES[f["site"]][0]
            doc[nm] = v
            kw[nm] = [_temporal_value(kind, x) for x in v] if isinstance(v, list) else _temporal_value(kind, v)
        elif f["site"] == "decimal":
            doc[nm] = v
            kw[nm] = Decimal(v)
        elif f["site"] in ("array", "set"):
            doc[nm] = [json_of(f, m) for m in v]
            ms = [member(f, m) for m in v]
            kw[nm] = set(ms) if f["site"] == "set" else ms
        else:
            doc[nm] = json_of(f, v)
            kw[nm] = member(f, v)
    res = {"verdict": verdict_of(P), "doc": repr(doc)[:300]}

    def attempt(fn):
        try:
            return fn()
        except Exception as e:
            return e
    x = attempt(lambda: Deserializer(P).deserialize(copy.deepcopy(doc)))
    y = attempt(lambda: Deserializer(P).deserialize(copy.deepcopy(doc), direct_trusted_mapping=True))
    rec = lambda v: {"err": C.err_name(v), "msg": str(v)[:160]} if isinstance(v, Exception) else {"ok": repr(v)[:300]}
    res["regular"], res["trusted"] = rec(x), rec(y)
    if not isinstance(x, Exception) and not isinstance(y, Exception):
        res["eq"] = [bool(x == y), bool(y == x)]
        sx, sy = attempt(lambda: Serializer(x).serialize()), attempt(lambda: Serializer(y).serialize())
        res["serX"], res["serY"] = rec(sx), rec(sy)
        res["ser_same"] = not isinstance(sx, Exception) and not isinstance(sy, Exception) and _unordered(sx) == _unordered(sy)
    # fast twin, on the validated constructor's instance
    p = attempt(lambda: P(**copy.deepcopy(kw)))
    f_ = attempt(lambda: F(**copy.deepcopy(kw)))
    if not isinstance(p, Exception) and not isinstance(f_, Exception):
        a, b = attempt(lambda: Serializer(p).serialize()), attempt(lambda: f_.serialize())
        res["fast_regular"], res["fast"] = rec(a), rec(b)
        res["fast_same"] = not isinstance(a, Exception) and not isinstance(b, Exception) and _unordered(a) == _unordered(b)
        res["regular_ser_ok"] = not isinstance(a, Exception)
        if isinstance(a, dict) and isinstance(b, dict):
            res["fast_diff_keys"] = sorted(k for k in set(a) | set(b)
                                           if (k in a) != (k in b) or _unordered(a.get(k)) != _unordered(b.get(k)))
    # trusted construction
    t = attempt(lambda: P.from_trusted_data(None, **copy.deepcopy(kw)))
    if not isinstance(p, Exception):
        res["ftd"] = rec(t)
        if not isinstance(t, Exception):
            res["ftd_eq"] = [bool(p == t), bool(t == p)]
            a, b = attempt(lambda: Serializer(p).serialize()), attempt(lambda: Serializer(t).serialize())
            res["ftd_ser_same"] = not isinstance(a, Exception) and not isinstance(b, Exception) and _unordered(a) == _unordered(b)
            consts = {f["name"] for f in case["fields"] if f["site"].startswith("const")}
            names = {f["name"] for f in case["fields"]}
            pd, td = ({k: v for k, v in o.__dict__.items() if k in names} for o in (p, t))
            res["ftd_only_consts"] = (set(pd) - set(td) <= consts and set(td) <= set(pd)
                                      and all(bool(pd[k] == td[k]) for k in td))
    return res


# ------------------------------------------------------------------ order of first use (fresh FastSerializable classes)

FIRST_PATHS = ["deser", "deser", "kw", "map", "flag"]


def gen_firstuse(rng, tier, n_classes):
    """FastSerializable class trees WITHOUT an explicit create_serializer call whose FIRST instance is made by a
    shortcut path (trusted deserialization incl. the nested classes it builds, from_trusted_data(None, **kw),
    from_trusted_data(mapping), trust_supplied_values() + constructor); then x.serialize() of the instance and of
    every nested instance is compared with (a) the model's fast document of that instance, (b) the same path on an
    identically declared tree every class of which was first instantiated by the validating constructor,
    (c) the regular document of the twin when the instance is the validated one"""
    cases = []
    for ci in range(n_classes):
        with_mappers = rng.random() < 0.25
        bg = BoundaryGen(rng, max_depth=rng.choice([0, 1, 1, 2]), p_mapper=0.6 if with_mappers else 0.0, fast=True)
        cls = bg.class_decl(0, n_fields=rng.choice([1, 2, 2, 3, 4]))
        C.fix_accepts(cls)
        table = {n: m for n, m in bg.mappers.items() if not (isinstance(m, dict) and "complex" in m)}
        vg = gen.ValGen(rng)
        kinds = pick_kinds(rng)
        fd = dict((n, f) for n, f in cls["fields"])
        for _ in range(2):
            kw = vg.valid_kw(cls)
            if kw is gen.NOVALUE:
                continue
            if not cls["required"] and rng.random() < 0.15:
                kw = []                     # an instance made from no values at all
            doc = S.dedupe_doc({"m": [[k, S.to_doc(fd.get(k), v)] for k, v in kw]})
            doc = map_doc(cls, doc, table, ())
            for path in sorted(set(rng.sample(FIRST_PATHS, 2))):
                cases.append({"suite": "shortcut", "mode": "firstuse", "cls": cls, "kw": kw, "doc": doc, "path": path,
                              "serializeNone": False, "compact": False, "nonFast": [], "enumKinds": kinds,
                              "mappers": [[n, wire_mapper(m)] for n, m in sorted(table.items())], "mapperSpec": table,
                              "stream": "first-use:" + path, "re": gen.re_table(cls, kw)})
    return cases


def _fast_docs(x, ctx):
    """x.serialize() of a FastSerializable instance and of every FastSerializable instance reachable from it
    (attributes in field order, elements of lists / tuples / deques / dict values in order, sets by canonical form)"""
    out = []

    def visit(v, depth=0):
        if depth > 6:
            return
        if isinstance(v, Structure):
            if isinstance(v, FastSerializable):
                nv = not [k for k in v.__dict__ if not k.startswith("_")]
                try:
                    # (arrays compared order-free: an array that came from a Set of structures has no fixed order)
                    out.append({"ok": dump.canon(_sort_lists(_sort_doc(_dumpv(v.serialize(), ctx)))), "nv": nv})
                except Exception as e:
                    out.append({"err": C.err_name(e), "msg": str(e)[:160], "nv": nv})
            for n in v.__class__.get_all_fields_by_name():
                visit(v.__dict__.get(n), depth + 1)
        elif isinstance(v, (list, tuple)) or type(v).__name__ == "deque":
            for e in v:
                visit(e, depth + 1)
        elif isinstance(v, dict):
            for e in v.values():
                visit(e, depth + 1)
        elif isinstance(v, (set, frozenset)):
            sub = []
            for e in v:
                k = len(out)
                visit(e, depth + 1)
                sub.append(out[k:])
                del out[k:]
            for part in sorted(sub, key=lambda r: json.dumps(r, sort_keys=True, default=str)):
                out.extend(part)
    visit(x)
    return out


def run_firstuse(case):
    decl, table, path = case["cls"], case.get("mapperSpec") or {}, case["path"]
    ctxs = [make_ctx(case) for _ in range(3)]
    try:
        F1 = build_tree(decl, ctxs[0], table, fast=True)
        F2 = build_tree(decl, ctxs[1], table, fast=True)
        P = build_tree(decl, ctxs[2], table)
    except Exception as e:
        return {"unbuildable": f"class: {type(e).__name__}: {e}"}
    bad = _check_class(P, decl, ctxs[2]) or _check_class(F1, decl, ctxs[0])
    if bad:
        return bad
    res = {"cls_actual": C.fix_accepts(dump.dump_class(P, ctxs[2], order="definition"))}
    try:
        p = P(**{k: dump.load_value(v, ctxs[2]) for k, v in case["kw"]})
        F2(**{k: dump.load_value(v, ctxs[1]) for k, v in case["kw"]})     # tree 2: every class validated first
    except Exception as e:
        return {"unbuildable": f"instance: {type(e).__name__}: {e}"}      # (incl. classes without a fast serializer)

    def make(F, ctx):
        if path == "deser":
            return Deserializer(F).deserialize(dump.load_value(case["doc"], ctx), direct_trusted_mapping=True)
        kw = {k: dump.load_value(v, ctx) for k, v in case["kw"]}
        if path == "kw":
            return F.from_trusted_data(None, **kw)
        if path == "map":
            return F.from_trusted_data(kw)
        F.trust_supplied_values(True)
        try:
            return F(**kw)
        finally:
            F.trust_supplied_values(False)
    try:
        a = make(F1, ctxs[0])
    except Exception as e:
        res["path_err"] = f"{C.err_name(e)}: {e}"[:200]       # the shortcut itself fails: modes trusted / construct
        return res
    try:
        b = make(F2, ctxs[1])
    except Exception as e:
        res["path_err2"] = f"{C.err_name(e)}: {e}"[:200]
        return res
    res["x"] = _dumpv(a, ctxs[0])
    res["created"] = True
    # (an ineligible class is deserialized by the regular path; the class-level flag of path "flag" is reset by now)
    res["used_trusted"] = path != "deser" or bool(a.used_trusted_instantiation())
    res["same_as_validated"] = dump.canon(res["x"]) == dump.canon(_dumpv(p, ctxs[2]))
    snap = json.dumps(dump.canon(res["x"]), sort_keys=True)
    try:
        res["fast"] = {"ok": _dumpv(a.serialize(), ctxs[0])}
    except Exception as e:
        res["fast"] = {"err": C.err_name(e), "msg": str(e)[:200]}
    if res["same_as_validated"]:
        res["regular"] = _ser(p, ctxs[2])
    res["docs_first"] = _fast_docs(a, ctxs[0])
    res["docs_warm"] = _fast_docs(b, ctxs[1])
    res["inst_unchanged"] = snap == json.dumps(dump.canon(_dumpv(a, ctxs[0])), sort_keys=True)
    res["no_values"] = not [k for k in a.__dict__ if not k.startswith("_")]
    return res



def _unordered(doc):
    """serialized document with arrays as sorted reprs (Set fields) — good enough for enum names / values"""
    if isinstance(doc, dict):
        return {k: _unordered(v) for k, v in doc.items()}
    if isinstance(doc, list):
        return sorted((repr(_unordered(v)) for v in doc))
    return repr(doc) if isinstance(doc, float) else doc


def gen_cases(rng, tier, scale=1.0):
    q = tier == "quick"
    n = int((450 if q else 6000) * scale)
    return (gen_trusted(rng, tier, n) + gen_construct(rng, tier, int(n * 0.35)) + gen_fast(rng, tier, int(n * 0.5))
            + gen_enumvalue(rng, tier, int(n * 0.25)) + gen_firstuse(rng, tier, int(n * 0.3)))


# ------------------------------------------------------------------ real code

def _dumpv(v, ctx):
    return C.rename_inline(dump.dump_value(v, ctx), ctx)


def _check_class(cls, decl, ctx):
    back = dump.normalize_decl(dump.dump_class(cls, ctx))
    want = dump.normalize_decl(decl)
    if back != want:
        return {"abstraction_mismatch": {"dumped": back, "declared": want}}
    return None


def verdict_of(cls):
    try:
        v = SER._structure_simplicity_level(cls)
    except ValueError:
        return "raises"
    except Exception as e:   # any other exception class is a disagreement with the model
        return "exc:" + type(e).__name__
    if v is False:
        return "no"
    if v is SER._ClsSimplicity.not_nested:
        return "flat"
    if v is SER._ClsSimplicity.nested:
        return "nested"
    return repr(v)


def _ser(x, ctx, **kw):
    try:
        doc = Serializer(x).serialize(**kw)
        return {"ok": _dumpv(doc, ctx)}
    except Exception as e:
        return {"err": C.err_name(e), "msg": str(e)[:200]}


def run_trusted(case):
    ctx = make_ctx(case)
    decl = case["cls"]
    table = case.get("mapperSpec") or {}
    try:
        cls = build_tree(decl, ctx, table, mapper_decls=case.get("mapperDecls"), split=case.get("split"))
    except Exception as e:
        return {"unbuildable": f"class: {type(e).__name__}: {e}"}
    bad = _check_class(cls, decl, ctx)
    if bad:
        return bad
    res = {"cls_actual": C.fix_accepts(dump.dump_class(cls, ctx, order="definition"))}
    opts = case.get("opts", {})
    old = TypedPyDefaults.ignore_invalid_additional_properties_in_deserialization
    TypedPyDefaults.ignore_invalid_additional_properties_in_deserialization = opts.get("ignoreInvalidAddl", True)
    try:
        addl = bool(decl.get("addl", True))
        ku = opts.get("keepUndefined", True)
        # Deserializer.deserialize: keep_undefined=None on a closed class means "as the constructor would treat them"
        # (since 005d815: not ignore_invalid_additional_properties_in_deserialization; True before)
        res["opts_actual"] = {"keepUndefined": bool(ku if (ku is not None or addl) else not opts.get("ignoreInvalidAddl", True)),
                              "ignoreInvalidAddl": opts.get("ignoreInvalidAddl", True)}
        res["verdict"] = verdict_of(cls)
        try:
            doc = dump.load_value(case["doc"], ctx)
        except TypeError as e:
            return {"unbuildable": f"document: {e}"}
        before = json.dumps(dump.dump_value(doc, ctx), sort_keys=True)
        x = y = None
        try:
            x = Deserializer(cls).deserialize(copy.deepcopy(doc), keep_undefined=ku)
            res["regular"] = {"ok": _dumpv(x, ctx)}
        except Exception as e:
            res["regular"] = {"err": C.err_name(e), "msg": str(e)[:200]}
        try:
            y = Deserializer(cls).deserialize(doc, keep_undefined=ku, direct_trusted_mapping=True)
            res["trusted"] = {"ok": _dumpv(y, ctx)}
            res["used_trusted"] = bool(y.used_trusted_instantiation())
        except Exception as e:
            res["trusted"] = {"err": C.err_name(e), "msg": str(e)[:200]}
        res["doc_unchanged"] = before == json.dumps(dump.dump_value(doc, ctx), sort_keys=True)
        if x is not None and y is not None:
            try:
                res["eq"] = [bool(x == y), bool(y == x)]
            except Exception as e:
                res["eq"] = [False, False]
                res["eq_exc"] = f"{type(e).__name__}: {e}"[:200]
        if x is not None:
            res["serX"] = _ser(x, ctx)
        if y is not None:
            res["serY"] = _ser(y, ctx)
    finally:
        TypedPyDefaults.ignore_invalid_additional_properties_in_deserialization = old
    return res


def run_construct(case):
    ctx = make_ctx(case)
    decl = case["cls"]
    try:
        cls = build_tree(decl, ctx)
    except Exception as e:
        return {"unbuildable": f"class: {type(e).__name__}: {e}"}
    bad = _check_class(cls, decl, ctx)
    if bad:
        return bad
    res = {"cls_actual": C.fix_accepts(dump.dump_class(cls, ctx))}
    try:
        kw = {k: dump.load_value(v, ctx) for k, v in case["kw"]}
    except Exception as e:
        return {"unbuildable": f"value: {type(e).__name__}: {e}"}
    res["kw_actual"] = [[k, _dumpv(v, ctx)] for k, v in kw.items()]

    def attempt(fn):
        try:
            return fn()
        except Exception as e:
            return e

    x = attempt(lambda: cls(**copy.deepcopy(kw)))
    ys = {
        "trustedKw": attempt(lambda: cls.from_trusted_data(None, **copy.deepcopy(kw))),
        "trustedMap": attempt(lambda: cls.from_trusted_data(copy.deepcopy(kw))),
    }

    def flagged():
        cls.trust_supplied_values(True)
        try:
            return cls(**copy.deepcopy(kw))
        finally:
            cls.trust_supplied_values(False)
    ys["trustFlag"] = attempt(flagged)
    after = attempt(lambda: cls(**copy.deepcopy(kw)))

    def rec(v):
        return {"err": C.err_name(v), "msg": str(v)[:200]} if isinstance(v, Exception) else {"ok": _dumpv(v, ctx)}
    res["validated"] = rec(x)
    res["flag_reset_ok"] = json.dumps(rec(after), sort_keys=True) == json.dumps(rec(x), sort_keys=True)
    for name, y in ys.items():
        res[name] = rec(y)
        if not isinstance(x, Exception) and not isinstance(y, Exception):
            try:
                res["eq_" + name] = [bool(x == y), bool(y == x)]
            except Exception as e:
                res["eq_" + name] = [False, False]
            res["ser_" + name] = _ser(y, ctx)
    if not isinstance(x, Exception):
        res["serX"] = _ser(x, ctx)
    return res


def run_fast(case):
    decl = case["cls"]
    table = case.get("mapperSpec") or {}
    hist = case.get("history", "explicit")
    split = case.get("split") if hist == "inherit" else None
    ctx_f, ctx_p = make_ctx(case), make_ctx(case)
    try:
        F = build_tree(decl, ctx_f, table, fast=True, non_fast=case.get("nonFast", ()), split=split)
        P = build_tree(decl, ctx_p, table, split=split)
    except Exception as e:
        return {"unbuildable": f"class: {type(e).__name__}: {e}"}
    bad = _check_class(P, decl, ctx_p) or _check_class(F, decl, ctx_f)
    if bad:
        return bad
    res = {"cls_actual": C.fix_accepts(dump.dump_class(P, ctx_p, order="definition"))}
    try:
        p = P(**{k: dump.load_value(v, ctx_p) for k, v in case["kw"]})
    except Exception as e:
        return {"unbuildable": f"instance: {type(e).__name__}: {e}"}
    res["x"] = _dumpv(p, ctx_p)
    res["regular"] = _ser(p, ctx_p, compact=case["compact"])
    try:
        kw_f = {k: dump.load_value(v, ctx_f) for k, v in case["kw"]}
    except Exception as e:
        res["created"] = None
        res["fast_inst_err"] = f"{C.err_name(e)}: {e}"[:200]    # a nested class that cannot be instantiated
        try:
            create_serializer(F, compact=case["compact"], serialize_none=case["serializeNone"])
            res["created"] = True
        except Exception as e2:
            res["created"] = False
        return res
    try:
        if hist == "explicit":
            create_serializer(F, compact=case["compact"], serialize_none=case["serializeNone"])
        elif hist == "inherit":
            parent = ctx_f.parent_class
            if case.get("parentFirst") == "create":
                create_serializer(parent)
            else:
                pnames = set(parent.get_all_fields_by_name())
                parent(**{k: v for k, v in copy.deepcopy(kw_f).items() if k in pnames})
        res["created"] = True
    except Exception as e:
        res["created"] = False
        res["create_err"] = f"{C.err_name(e)}: {e}"[:200]
    try:
        f = F(**kw_f)           # FastSerializable.__init__ creates the serializer when the class has none of its own
    except Exception as e:
        if res["created"]:
            res["created"] = hist == "explicit"
            res["fast_inst_err"] = f"{C.err_name(e)}: {e}"[:200]
        return res
    if res["created"]:
        res["x_fast_same"] = dump.canon(_dumpv(f, ctx_f)) == dump.canon(res["x"])
        snap = json.dumps(dump.canon(_dumpv(f, ctx_f)), sort_keys=True)
        try:
            doc = f.serialize()
            res["fast"] = {"ok": _dumpv(doc, ctx_f)}
            try:
                json.dumps(doc)
                res["fast_dumps"] = True
            except Exception as e:
                res["fast_dumps"] = f"{type(e).__name__}: {e}"[:120]
        except Exception as e:
            res["fast"] = {"err": C.err_name(e), "msg": str(e)[:200]}
        res["via_serializer"] = _ser(f, ctx_f, compact=case["compact"])
        res["inst_unchanged"] = snap == json.dumps(dump.canon(_dumpv(f, ctx_f)), sort_keys=True)
    return res


def run_impl(case):
    return {"trusted": run_trusted, "construct": run_construct, "fast": run_fast,
            "enumvalue": run_enumvalue, "firstuse": run_firstuse}[case["mode"]](case)


# ------------------------------------------------------------------ driver line

def line(case, impl):
    l = {"suite": "shortcut", "mode": "fast" if case["mode"] == "firstuse" else case["mode"],
         "cls": impl.get("cls_actual", case["cls"]), "re": case.get("re", []), "mappers": case.get("mappers", [])}
    if case["mode"] == "enumvalue":
        return {"suite": "shortcut", "mode": "oracle", "cls": case["cls"]}
    if case["mode"] == "trusted":
        l["doc"] = case["doc"]
        l["opts"] = impl.get("opts_actual", {})
        if case.get("mapperDecls") is not None:
            l["mapperDecls"] = wire_decls(case["mapperDecls"])     # the model resolves the attribute the trusted path reads
    elif case["mode"] == "construct":
        l["kw"] = impl.get("kw_actual", case["kw"])
    else:
        l["x"] = impl.get("x", {"o": [case["cls"]["name"], []]})
        l["serializeNone"] = case["serializeNone"]
        l["compact"] = case["compact"]
        l["nonFast"] = case.get("nonFast", [])
        l["jsonEnums"] = sorted(n for n, k in (case.get("enumKinds") or {}).items() if k != "plain")
        if case["mode"] == "firstuse":
            l["firstUse"] = bool(impl.get("used_trusted"))
    return l


# ------------------------------------------------------------------ evidence helpers

def shape_of(fd):
    k = fd["k"]
    if k == "anyOf":
        inner = [x["k"] for x in fd["fields"]]
        if len(inner) == 2 and "noneF" in inner:
            other = [x for x in fd["fields"] if x["k"] != "noneF"]
            return ("optRev:" if inner[0] == "noneF" else "opt:") + (shape_of(other[0]) if other else "none")
        return "anyOf"
    if k in ("seqOf", "setOf", "tupleOf"):
        return ("deque" if fd.get("seq") == "deque" else k) + "[" + shape_of(fd["item"]) + "]"
    if k == "mapOf":
        return "mapOf[" + shape_of(fd["val"]) + "]"
    if k == "struct":
        return "inline" if fd.get("inline") else "struct"
    return k


def tags(case, impl, model):
    out = ["mode:" + case["mode"], "stream:" + case["mode"] + ":" + str(case.get("stream"))]
    if "unbuildable" in impl:
        out.append("impl:skipped")
        return out
    for _, fd in case["cls"]["fields"]:
        out.append("field:" + shape_of(fd)[:40])
    for name, kind in sorted((case.get("enumKinds") or {}).items()):
        out.append("enum-kind:" + kind)
    if case["mode"] == "enumvalue":
        for f in case["fields"]:
            if f["site"] in ENUM_SITES:
                out.append("enum-site:" + f["site"] + (":by-value" if f["byValue"] else ":by-name"))
            elif f["site"] != "int":
                out.append("probe-site:" + f["site"])
        out.append("verdict:" + str(impl.get("verdict")))
        return out
    if case.get("mapperSpec"):
        out.append("mappers:yes")
    for dc in (case.get("mapperDecls") or {}).values():
        out.append("mapper-decl:" + dc["kind"])
    if case["mode"] == "trusted":
        if case.get("split"):
            out.append("declared:subclass-with-inherited-fields")
        out.append("verdict:" + str(impl.get("verdict")))
        for key in ("regular", "trusted"):
            if key in impl:
                out.append(f"{key}:" + ("ok" if "ok" in impl[key] else impl[key]["err"]))
        m = (model or {}).get("out", model) or {}
        if isinstance(m, dict) and "tsafe" in m:
            out.append("proved-region:" + str(bool(m.get("tsafe") and m.get("plain") and not case.get("mapperSpec"))))
            if case.get("mapperSpec"):
                out.append("proved-region-with-mappers:" + str(bool(
                    m.get("tsafe") and m.get("plainMapped") and m.get("simpleMappers") and not m.get("cascade")
                    and not m.get("baseChain") and m.get("verdict") in ("flat", "nested")
                    and "ok" in (m.get("regularMapped") or {}))))
    elif case["mode"] == "fast":
        out.append("created:" + str(impl.get("created")))
        if "fast_inst_err" in impl:
            out.append("fast:nested-class-not-instantiable")
    return out


def nontrivial(case):
    return True


def describe(case, impl, model):
    keep = ("verdict", "regular", "trusted", "eq", "serX", "serY", "validated", "trustedKw", "created", "fast")
    return {"mode": case["mode"], "cls": case["cls"], "mappers": case.get("mappers"), "doc": case.get("doc"),
            "kw": case.get("kw"), "opts": case.get("opts"), "impl": {k: impl.get(k) for k in keep if k in impl},
            "model": {k: (model or {}).get(k) for k in ("verdict", "tsafe", "plain", "declDefects", "docIssues", "created",
                                                        "fastDefects") if k in (model or {})}}


# ------------------------------------------------------------------ comparison

def same_inst(a, b):
    return dump.canon(a) == dump.canon(b)


def same_doc(cls, a, b, mapped=False):
    """serialized documents: key order free, arrays that came from sets order free; with mappers the keys no
    longer name the fields, so every array is compared order-free"""
    if mapped:
        return json.dumps(_sort_lists(_sort_doc(a)), sort_keys=True) == json.dumps(_sort_lists(_sort_doc(b)), sort_keys=True)
    if len(cls["fields"]) == 1 and not (isinstance(a, dict) and "m" in a and isinstance(b, dict) and "m" in b):
        cls = cls["fields"][0][1]       # compact form: the document of the only field
    return json.dumps(S.canon_doc(cls, _sort_doc(a)), sort_keys=True) == json.dumps(S.canon_doc(cls, _sort_doc(b)), sort_keys=True)


def _sort_lists(j):
    if isinstance(j, dict):
        if "l" in j:
            return {"l": sorted((_sort_lists(x) for x in j["l"]), key=lambda x: json.dumps(x, sort_keys=True))}
        if "m" in j:
            return {"m": [[_sort_lists(k), _sort_lists(v)] for k, v in j["m"]]}
    return j


def _sort_doc(j):
    """serialized documents: objects are unordered"""
    if isinstance(j, dict):
        if "m" in j:
            return {"m": sorted(([_sort_doc(k), _sort_doc(v)] for k, v in j["m"]), key=lambda kv: json.dumps(kv[0], sort_keys=True))}
        for t in ("l", "t", "q"):
            if t in j:
                return {t: [_sort_doc(x) for x in j[t]]}
        for t in ("s", "fs"):
            if t in j:
                return {t: sorted((_sort_doc(x) for x in j[t]), key=lambda x: json.dumps(x, sort_keys=True))}
        if "o" in j:
            return {"o": [j["o"][0], sorted(([k, _sort_doc(v)] for k, v in j["o"][1]), key=lambda kv: kv[0])]}
    return j


def loose_doc(j):
    """document equality as Python's == sees numbers (1 == 1.0 == True is not applied to bools here)"""
    if isinstance(j, dict):
        if "f" in j:
            n, d = j["f"]
            return n // d if n % d == 0 else j
        return {k: loose_doc(v) for k, v in j.items()}
    if isinstance(j, list):
        return [loose_doc(x) for x in j]
    return j


def res_same(cls, m, i, doc=False, mapped=False):
    """model result vs real result; None = agree, else message"""
    if m is None or i is None:
        return None
    if str(m.get("err", "")).startswith("outside-model"):
        return None
    if "ok" in m:
        if "ok" not in i:
            return f"model ok, real code raises {i.get('err')}: {i.get('msg')}"
        same = same_doc(cls, m["ok"], i["ok"], mapped=mapped) if doc else same_inst(m["ok"], i["ok"])
        if not same:
            return "results differ: model " + json.dumps(dump.canon(m["ok"]))[:300] + " impl " + json.dumps(dump.canon(i["ok"]))[:300]
        return None
    if "ok" in i:
        return f"model raises {m['err']}, real code ok: " + json.dumps(i["ok"])[:300]
    return None if m["err"] == i["err"] else f"exception class differs: model {m['err']}, real code {i['err']}: {i.get('msg')}"
