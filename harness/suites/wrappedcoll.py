"""
Oracle-only cases for C03: Array / Deque / Map values held through Optional / AnyOf (and typed collections of
structures) in a MUTABLE structure.  Every native mutator of list / dict / deque (found by probing, same
extractor as the Lean table) is applied with valid and with invalid arguments, one operation per fresh
instance and short histories.  After every operation the instance must still be accepted by its own
constructor (validity), and an operation that raised must have changed nothing (atomicity) and raised
TypeError / ValueError / IndexError / KeyError.
"""
import collections
import copy

from typedpy import Structure, Array, Deque, Map, String, Integer, AnyOf, Serializer

from extract import wrappers


class Pt(Structure):
    x: int


SHAPES = {
    "optional>array>int": (lambda: AnyOf[Array[Integer(minimum=0)], None], lambda: [1, 2], "list", 5, "bad"),
    "anyof>array>int|str": (lambda: AnyOf[Array[Integer(minimum=0)], String], lambda: [3, 4], "list", 5, -5),
    "anyof>str|array>int": (lambda: AnyOf[String, Array[Integer]], lambda: [3, 4], "list", 5, "bad"),
    "optional>deque>int": (lambda: AnyOf[Deque[Integer], None], lambda: collections.deque([1, 2]), "deque", 5, "bad"),
    "optional>map>str>int": (lambda: AnyOf[Map[String, Integer], None], lambda: {"a": 1, "b": 2}, "dict", 5, "bad"),
    "anyof>map|int": (lambda: AnyOf[Map[String, Integer(maximum=9)], Integer], lambda: {"a": 1}, "dict", 5, 50),
    "optional>array>struct": (lambda: AnyOf[Array[Pt], None], lambda: [Pt(x=1), Pt(x=2)], "list", Pt(x=9), "bad"),
    "array>int": (lambda: Array[Integer(minimum=0)], lambda: [1, 2], "list", 5, -5),          # controls (also in the model)
    "map>str>int": (lambda: Map[String, Integer], lambda: {"a": 1, "b": 2}, "dict", 5, "bad"),
    "deque>int": (lambda: Deque[Integer], lambda: collections.deque([1, 2]), "deque", 5, "bad"),
}


def _args(kind, m, v):
    """canned argument tuples for mutator m of a native kind, carrying element/value v"""
    if kind in ("list", "deque"):
        table = {"__setitem__": [(0, v)], "__delitem__": [(0,)], "append": [(v,)], "appendleft": [(v,)], "extend": [([v],)],
                 "extendleft": [([v],)], "insert": [(0, v)], "remove": [(1,)], "pop": [()], "popleft": [()], "clear": [()],
                 "sort": [()], "reverse": [()], "rotate": [(1,)], "__iadd__": [([v],)], "__imul__": [(2,)]}
    else:
        table = {"__setitem__": [("z", v)], "__delitem__": [("a",)], "update": [({"z": v},)], "pop": [("a",)], "popitem": [()],
                 "setdefault": [("z", v)], "clear": [()], "__ior__": [({"z": v},)]}
    return table.get(m, [()])


def cases():
    out = []
    for shape in sorted(SHAPES):
        kind = SHAPES[shape][2]
        for m in wrappers.native_mutators(kind):
            for which in ("valid", "invalid"):
                out.append({"suite": "wrappedcoll", "shape": shape, "ops": [[m, which]]})
        # short histories: a valid operation first (the stored wrapper has been re-created once), then an invalid one
        for m in ("append", "__setitem__", "extend", "update", "__ior__", "__iadd__", "insert", "setdefault"):
            if m in wrappers.native_mutators(kind):
                out.append({"suite": "wrappedcoll", "shape": shape, "ops": [[m, "valid"], [m, "invalid"]]})
                out.append({"suite": "wrappedcoll", "shape": shape, "ops": [["reassign", "valid"], [m, "invalid"]]})
    return out


def run_impl(case):
    mk, mkval, kind, good, bad = SHAPES[case["shape"]]
    try:
        cls = type("W", (Structure,), {"f": mk(), "n": Integer(default=0), "_required": []})
        x = cls(f=mkval())
    except Exception as e:
        return {"skip": f"{type(e).__name__}: {e}"[:200]}
    snap = lambda: (str(x), repr(Serializer(x).serialize()) if _serializable(x) else None)

    def valid_now():
        try:
            cls(**{k: copy.deepcopy(v) for k, v in x.__dict__.items() if not k.startswith("_")})
            return None
        except Exception as e:
            return f"{type(e).__name__}: {e}"[:160]
    steps = []
    for m, which in case["ops"]:
        v = copy.deepcopy(good if which == "valid" else bad)
        before = snap()
        out = "ok"
        try:
            if m == "reassign":
                x.f = mkval()
            else:
                for args in _args(kind, m, v):
                    getattr(x.f, m)(*args)
        except Exception as e:
            out = type(e).__name__
        after = snap()
        steps.append({"op": m, "arg": which, "out": out, "changed": after != before, "invalid_after": valid_now(),
                      "before": before[0][:160], "after": after[0][:160]})
    return {"steps": steps}


def _serializable(x):
    try:
        Serializer(x).serialize()
        return True
    except Exception:
        return False


def judge(case, impl):
    if "skip" in impl:
        return []
    fails = []
    for st in impl.get("steps", []):
        site = f"{case['shape']}:{st['op']}"
        if st["invalid_after"]:
            fails.append((f"unvalidated:wrapped:{site}", f"{st['op']}({st['arg']} argument) on the value of a {case['shape']} field left the instance "
                          f"invalid - its own constructor rejects the content: {st['invalid_after']}; {st['before']} -> {st['after']}"))
        if st["out"] != "ok" and st["changed"]:
            fails.append((f"not-atomic:wrapped:{site}", f"{st['op']}({st['arg']} argument) raised {st['out']} but changed the instance: {st['before']} -> {st['after']}"))
        if st["out"] not in ("ok", "TypeError", "ValueError", "IndexError", "KeyError"):
            fails.append((f"error-class:wrapped:{site}:{st['out']}", f"{st['op']}({st['arg']} argument) raised {st['out']}"))
    return fails
