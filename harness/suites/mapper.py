"""
Suite `mapper` (C07): class hierarchies with rename-only `_serialization_mapper`s built with real
typedpy, valid instances, `Serializer(x).serialize()` / `serialize` / `Deserializer(cls).deserialize`
on the real code and `Sem/Mappers` + `Spec/Mappers` in the Lean driver on the dumped hierarchy and
instance.

case = {"cls": classdesc, "kw": instance tree, "camel": bool, "strict": bool,
        "explicit": None | wire mapper dict, "doc2": bool,
        "pre": [call]}   -- history: calls made BEFORE the main call on the same class objects, in order
optional: "entry": "function" (deserialize through deserialize_structure(..., keep_undefined=False) instead
of Deserializer(...).deserialize(doc)); a level may carry "addl": "new" | "old" (the class sets
_additional_properties / _additionalProperties = False; deserialization of such trees is judged by the
oracle only, undefined-key handling is not in the Lean model)
call = {"target": name of the top class or of a nested class, "kw", "camel", "strict", "explicit", "doc2"}
(the process-wide cache aggregated_mapper_by_class is keyed by (class, override, camel flag): every call
 of a history is compared with the model, which threads the same cache)
classdesc = {"name": str, "levels": [{"mapper": attr | None, "fields": [fielddesc]}]}   (base first)
fielddesc = {"n": str, "opt": bool, "kind": "int" | "one" | "arr" | "set", "cls": classdesc?}
wire mapper: "lower" | "camel" | {"d": [[key, val]]}, val = str | {"dns": true} | {"d": [...]};
attr = mapper | {"list": [mapper]}
instance tree = {field: int | tree | [tree]}  (absent optional fields are missing)
"""
import itertools
import json

from typedpy import ImmutableStructure, Structure, Integer, Array, Set, Map, String, Serializer, Deserializer, mappers, serialize, deserialize_structure
from typedpy.structures import StructMeta
from typedpy.serialization.mappers import DoNotSerialize
import sys as _sys
_mappers_module = _sys.modules["typedpy.serialization.mappers"]

NAMES = ["a_b1", "x", "aB", "first_name", "a", "b", "c", "a_b", "n", "m", "q_r", "X", "b1", "firstName",
         "A", "k", "n_1", "abc", "a_bC", "first_Name", "a_b1c", "x_2y"]
FRESH_KEYS = ["k1", "key_two", "K", "zz", "b", "a", "x", "aB", "a_b", "X", "Q", "first_name", "n", "c", "A_B1"]

_counter = [0]


# ------------------------------------------------------------------ generation

def all_fields(cd):
    fs = [f for lv in cd["levels"] for f in lv["fields"]]
    if "field_order" in cd:      # several bases: the order typedpy's own MRO merge gives (taken from the real class)
        by = {f["n"]: f for f in fs}
        return [by[n] for n in cd["field_order"]]
    return fs


def level_names(cd):
    return [lv.get("name") or f"{cd['name']}_{li}" for li, lv in enumerate(cd["levels"])]


def level_bases(cd, li):
    """names of the Structure bases of level li (a plain hierarchy is a chain)"""
    lv = cd["levels"][li]
    if "bases" in lv:
        return lv["bases"]
    return [level_names(cd)[li - 1]] if li > 0 else []


def gen_dict_mapper(rng, fields, allow_dns=True, allow_nested=True, depth=0):
    names = [f["n"] for f in fields]
    entries = []
    used = set()
    k = rng.randint(1, max(1, min(4, len(names))))
    chosen = rng.sample(names, min(k, len(names)))
    style = rng.random()
    if style < 0.15 and len(names) >= 2:
        # swap / rotation of field names
        sub = rng.sample(names, rng.randint(2, min(3, len(names))))
        for i, nm in enumerate(sub):
            entries.append([nm, sub[(i + 1) % len(sub)]])
            used.add(nm)
    else:
        for nm in chosen:
            r = rng.random()
            if allow_dns and r < 0.07:
                v = {"dns": True}
            elif r < 0.30 and len(names) > 1:
                v = rng.choice([x for x in names if x != nm])      # another field's name
            elif r < 0.34:
                v = rng.choice(["p.q", "x.y", nm + ".z"])           # dotted key
            elif r < 0.40:
                v = nm
            else:
                v = rng.choice(FRESH_KEYS)
            entries.append([nm, v])
            used.add(nm)
        # chain entries keyed by a mapped key (applies on the current key)
        if rng.random() < 0.3:
            vals = [v for _, v in entries if isinstance(v, str) and v not in used]
            if vals:
                src = rng.choice(vals)
                entries.append([src, rng.choice(FRESH_KEYS + names)])
                used.add(src)
    if allow_nested and depth < 2:
        for f in fields:
            if f["kind"] != "int" and rng.random() < 0.2:
                sub = gen_dict_mapper(rng, all_fields(f["cls"]), allow_dns, allow_nested, depth + 1)
                key = f["n"] + "._mapper"
                if rng.random() < 0.25:
                    # keyed by the mapped name instead of the field name
                    mv = [v for k_, v in entries if k_ == f["n"] and isinstance(v, str)]
                    if mv:
                        key = mv[0] + "._mapper"
                if key not in used:
                    entries.append([key, sub])
                    used.add(key)
    # de-duplicate keys (a Python dict literal keeps the last)
    seen = {}
    for k_, v in entries:
        seen[k_] = v
    return {"d": [[k_, v] for k_, v in seen.items()]}


def gen_mapper(rng, fields):
    r = rng.random()
    if r < 0.2:
        return "lower"
    if r < 0.4:
        return "camel"
    return gen_dict_mapper(rng, fields)


def gen_attr(rng, fields):
    r = rng.random()
    if r < 0.35:
        return None
    if r < 0.8:
        return gen_mapper(rng, fields)
    return {"list": [gen_mapper(rng, fields) for _ in range(rng.randint(1, 3))]}


def gen_class(rng, depth, max_levels, nest_budget, kinds=("one", "one", "arr", "set")):
    _counter[0] += 1
    name = f"K{_counter[0]}"
    n_levels = rng.randint(1, max_levels)
    pool = NAMES[:]
    rng.shuffle(pool)
    levels = []
    sofar = []
    for li in range(n_levels):
        nf = rng.randint(1, 3) if li == 0 else rng.randint(0, 2)
        fields = []
        for _ in range(nf):
            if not pool:
                break
            nm = pool.pop()
            kind = "int"
            if depth < nest_budget and rng.random() < (0.4 if depth == 0 else 0.45):
                kind = rng.choice(list(kinds))
            fd = {"n": nm, "opt": rng.random() < 0.45, "kind": kind}
            if kind != "int":
                fd["cls"] = gen_class(rng, depth + 1, 2, nest_budget, kinds)
                if kind == "set" and _counter[0] % 2 == 0 and len(fd["cls"]["levels"]) == 1:
                    # items of a Set are hashed when the set is built: every other item class is an ImmutableStructure
                    # (whatever such an instance keeps in its __dict__ must stay out of the document)
                    fd["cls"]["immutable"] = True
            fields.append(fd)
        sofar = sofar + fields
        levels.append({"mapper": gen_attr(rng, sofar) if sofar else None, "fields": fields})
    if not sofar:
        levels[0]["fields"].append({"n": pool.pop(), "opt": False, "kind": "int"})
    return {"name": name, "levels": levels}


def gen_instance(rng, cd, p_absent=0.45):
    out = {}
    for f in all_fields(cd):
        if f["opt"] and rng.random() < p_absent:
            continue
        if f["kind"] == "int":
            out[f["n"]] = rng.choice([0, 1, 2, 3, 5, 7, -1, 10, 42])
        elif f["kind"] == "one":
            out[f["n"]] = gen_instance(rng, f["cls"], p_absent)
        elif f["kind"] == "map":
            out[f["n"]] = {k: gen_instance(rng, f["cls"], p_absent)
                           for k in rng.sample(["k_a", "kB", "x", "A_b", "a"], rng.choice([0, 1, 1, 2]))}
        else:
            n = rng.choice([0, 1, 1, 2]) if f["kind"] == "arr" else rng.choice([1, 2])
            elems = []
            for i in range(n):
                e = gen_instance(rng, f["cls"], p_absent)
                elems.append(e)
            if f["kind"] == "set":
                # distinct elements
                uniq = []
                for e in elems:
                    if e not in uniq:
                        uniq.append(e)
                elems = uniq
            out[f["n"]] = elems
    return out


def gen_explicit(rng, cd):
    fields = all_fields(cd)
    m = gen_dict_mapper(rng, fields, allow_dns=False)
    r = rng.random()
    if r < 0.3:
        bad = rng.choice(["zz", "nope", "not_a_field.x", "Z._mapper", "q9"])
        val = rng.choice(["k1", "a"]) if not bad.endswith("._mapper") else {"d": [["a", "b"]]}
        pos = rng.randint(0, len(m["d"]))
        m["d"].insert(pos, [bad, val])
    return m["d"]


def nested_cds(cd, acc=None):
    acc = [] if acc is None else acc
    for f in all_fields(cd):
        if f["kind"] != "int":
            acc.append(f["cls"])
            nested_cds(f["cls"], acc)
    return acc


def gen_pre(rng, cd, case):
    """a history of 1-3 earlier calls on the same class objects: same class with the other / same
    camel flag and the same / another override, or a nested class serialized in its own right first"""
    nested = nested_cds(cd)
    pre = []
    for _ in range(rng.randint(1, 3)):
        if nested and rng.random() < 0.3:
            tcd = rng.choice(nested)
            kw = gen_instance(rng, tcd, 0.4)
        else:
            tcd = cd
            kw = case["kw"] if rng.random() < 0.5 else gen_instance(rng, cd, 0.4)
        r = rng.random()
        if r < 0.7 or tcd is not cd:
            explicit = None if (tcd is not cd or rng.random() < 0.8) else gen_explicit(rng, tcd)
        else:
            explicit = case["explicit"]
        pre.append({"target": tcd["name"], "kw": kw,
                    "camel": (not case["camel"]) if rng.random() < 0.6 else rng.random() < 0.5,
                    "strict": rng.random() < 0.3, "explicit": explicit, "doc2": False})
    return pre


def history_cases(rng, n):
    """directed stream: one class serialized several times in one process with alternating
    camel_case_convert (both orders), without and with an explicit override"""
    out = []
    for i in range(n):
        cd = gen_class(rng, 0, 2, rng.choice([0, 1, 2]))
        kw = gen_instance(rng, cd, 0.3)
        ex = gen_explicit(rng, cd) if rng.random() < 0.3 else None
        for flags in ([True, False, True], [False, True]):
            calls = [{"target": cd["name"], "kw": kw, "camel": fl, "strict": False, "explicit": ex, "doc2": False}
                     for fl in flags]
            main = dict(calls[-1])
            del main["target"]
            main["cls"] = cd
            main["pre"] = calls[:-1]
            out.append(main)
    return out


def all_cds(cd):
    return [cd] + nested_cds(cd)


def closed_cases(rng, n):
    """stream: trees in which some classes forbid additional properties — on the class itself, or
    inherited from a base level — deserialized through Deserializer with the default keep_undefined"""
    out = []
    for _ in range(n):
        cd = gen_class(rng, 0, 3, rng.choice([0, 1, 1, 2]))
        cds = all_cds(cd)
        marked = False
        for c in cds:
            if rng.random() < (0.6 if c is cd else 0.35):
                li = rng.randrange(len(c["levels"]))
                c["levels"][li]["addl"] = rng.choice(["new", "old"])
                marked = True
        if not marked:
            cd["levels"][0]["addl"] = "new"
        for _ in range(2):
            out.append({"cls": cd, "kw": gen_instance(rng, cd, rng.choice([0.2, 0.6])),
                        "camel": rng.random() < 0.3, "strict": rng.random() < 0.3,
                        "explicit": gen_explicit(rng, cd) if rng.random() < 0.15 else None,
                        "doc2": rng.random() < 0.3})
    return out


def ku_cases(rng, n):
    """stream: explicit keep_undefined=True / False to Deserializer.deserialize, on open and closed trees
    (with True on an open class every renamed key is kept as an extra attribute, by design: compared with
    the model, never judged for round trip)"""
    out = []
    for _ in range(n):
        cd = gen_class(rng, 0, 2, rng.choice([0, 1, 1, 2]))
        if rng.random() < 0.4:
            for c in all_cds(cd):
                if rng.random() < 0.5:
                    c["levels"][rng.randrange(len(c["levels"]))]["addl"] = rng.choice(["new", "old"])
        for ku in (True, False):
            out.append({"cls": cd, "kw": gen_instance(rng, cd, 0.3), "camel": rng.random() < 0.25,
                        "strict": rng.random() < 0.3, "explicit": gen_explicit(rng, cd) if rng.random() < 0.15 else None,
                        "doc2": rng.random() < 0.3, "ku": ku})
    return out


def des_cases(rng, n):
    """stream: classes that also define _deserialization_mapper — a copy of the serialization mapper (the
    round trip is still demanded) or a different one (compared with the model only)"""
    out = []
    for _ in range(n):
        cd = gen_class(rng, 0, 3, rng.choice([0, 1, 1, 2]))
        same = rng.random() < 0.5
        marked = False
        for c in all_cds(cd):
            sofar = []
            for lv in c["levels"]:
                sofar = sofar + lv["fields"]
                if sofar and rng.random() < (0.7 if c is cd else 0.3):
                    lv["des"] = lv["mapper"] if (same and lv["mapper"] is not None) else gen_attr(rng, sofar)
                    marked = marked or lv["des"] is not None
        if not marked:
            lv = cd["levels"][-1]
            lv["des"] = lv["mapper"] if (same and lv["mapper"] is not None) else gen_mapper(rng, all_fields(cd))
        for _ in range(2):
            out.append({"cls": cd, "kw": gen_instance(rng, cd, rng.choice([0.2, 0.6])),
                        "camel": rng.random() < 0.3, "strict": rng.random() < 0.3, "explicit": None,
                        "doc2": rng.random() < 0.3})
    return out


def mapfield_cases(rng, n):
    """stream: classes holding structures as Map values (Map[String, Cls]), next to directly nested and
    Array-nested ones, with the full mapper vocabulary — compared with the Lean model (class-directed
    serializer serC, deserialization of every value as a call of its own with the caller's keep_undefined)"""
    out = []
    for _ in range(n):
        cd = gen_class(rng, 0, 2, rng.choice([1, 1, 2]), kinds=("map", "map", "one", "arr"))
        if not has_maps(cd):
            continue
        for _ in range(2):
            out.append({"cls": cd, "kw": gen_instance(rng, cd, rng.choice([0.2, 0.5])),
                        "camel": rng.random() < 0.3, "strict": rng.random() < 0.3,
                        "explicit": gen_explicit(rng, cd) if rng.random() < 0.1 else None,
                        "doc2": rng.random() < 0.3, "ku": rng.choice([None, None, None, True, False])})
    return out


def has_maps(cd):
    return any(f["kind"] == "map" or (f["kind"] != "int" and has_maps(f["cls"])) for f in all_fields(cd))


def des_differs(cd):
    """some class of the tree defines a _deserialization_mapper that is not a copy of its serialization mapper"""
    return any(lv.get("des") is not None and lv["des"] != lv["mapper"] for lv in cd["levels"]) or any(
        des_differs(f["cls"]) for f in all_fields(cd) if f["kind"] != "int")


def gen_mi_class(rng, depth=0):
    """a class with several bases (diamonds included): 3-5 class statements, each with 0-2 fields and its
    own mapper attribute; the field order and the required set are taken from the real class"""
    for _attempt in range(20):
        _counter[0] += 1
        name = f"M{_counter[0]}"
        pool = NAMES[:]
        rng.shuffle(pool)
        levels = []
        sofar = []
        n_nodes = rng.randint(3, 5)
        for i in range(n_nodes):
            if i == 0 or (i < n_nodes - 1 and rng.random() < 0.3):
                bases = []
            else:
                k = 2 if (i >= 2 and rng.random() < 0.7) else 1
                bases = rng.sample([lv["name"] for lv in levels], min(k, len(levels)))
            fields = []
            for _ in range(rng.randint(0, 2) if i else rng.randint(1, 2)):
                if not pool:
                    break
                kind = "int"
                if depth == 0 and rng.random() < 0.25:
                    kind = rng.choice(["one", "arr"])
                fd = {"n": pool.pop(), "opt": rng.random() < 0.4, "kind": kind}
                if kind != "int":
                    fd["cls"] = gen_class(rng, 1, 2, 1)
                fields.append(fd)
            sofar = sofar + fields
            lv = {"name": f"{name}_{i}", "bases": bases, "mapper": gen_attr(rng, sofar) if sofar else None,
                  "fields": fields}
            levels.append(lv)
        # the last statement is the class under test: make it derive from at least two statements if possible
        if len(levels[-1]["bases"]) < 2 and len(levels) >= 3:
            levels[-1]["bases"] = rng.sample([lv["name"] for lv in levels[:-1]], 2)
        cd = {"name": name, "levels": levels}
        try:
            cls = build_class(cd, {})
        except TypeError:
            continue          # no consistent linearisation: draw again
        order = list(cls.get_all_fields_by_name().keys())
        declared = {f["n"]: f for lv in levels for f in lv["fields"]}
        if not order or set(order) - set(declared):
            continue
        # statements that are not among the ancestors of the class under test contribute nothing
        cd["field_order"] = order
        req = set(getattr(cls, "_required", order))
        for lv in levels:
            lv["fields"] = [f for f in lv["fields"] if f["n"] in order]
            for f in lv["fields"]:
                f["opt"] = f["n"] not in req
        return cd
    return gen_class(rng, depth, 3, 1)


def mi_cases(rng, n):
    """stream: multiple inheritance — the order in which _serialization_mapper attributes are collected
    (reversed C3 linearisation, getattr per class) decides the aggregate"""
    out = []
    for _ in range(n):
        cd = gen_mi_class(rng)
        for _ in range(2):
            out.append({"cls": cd, "kw": gen_instance(rng, cd, rng.choice([0.2, 0.6])),
                        "camel": rng.random() < 0.3, "strict": rng.random() < 0.3,
                        "explicit": gen_explicit(rng, cd) if rng.random() < 0.1 else None,
                        "doc2": rng.random() < 0.3})
    return out


def gen_cases(rng, tier, n):
    cases = []
    for i in range(n):
        nest_budget = rng.choice([0, 1, 1, 2, 2]) if tier == "quick" else rng.choice([0, 1, 2, 2, 2])
        cd = gen_class(rng, 0, 3, nest_budget)
        for _ in range(2 if tier == "quick" else 3):
            kw = gen_instance(rng, cd, rng.choice([0.2, 0.5, 0.8]))
            for camel in (False, True) if rng.random() < 0.5 else (rng.random() < 0.3,):
                case = {"cls": cd, "kw": kw, "camel": camel, "strict": rng.random() < 0.4,
                        "explicit": gen_explicit(rng, cd) if rng.random() < 0.22 else None,
                        "doc2": rng.random() < 0.5}
                if rng.random() < 0.4:
                    case["pre"] = gen_pre(rng, cd, case)
                if rng.random() < 0.15:
                    case["entry"] = "function"
                cases.append(case)
    return (cases + history_cases(rng, max(20, n // 25)) + closed_cases(rng, max(40, n // 8)) + fixed_cases()
            + map_cases(rng, max(40, n // 10)) + fc_cases(rng, max(60, n // 12)) + scalar_cases(rng, max(80, n // 10)) + positional_cases(rng, max(40, n // 40))
            + subclass_cases(rng, max(60, n // 25)) + inherit_history_cases(rng, max(80, n // 20)) + mapfield_cases(rng, max(60, n // 10)) + ku_cases(rng, max(30, n // 16)) + des_cases(rng, max(40, n // 12)) + mi_cases(rng, max(60, n // 8)))


def _flat(name, fields, mapper, opt=()):
    return {"name": name, "levels": [{"mapper": mapper,
                                      "fields": [{"n": f, "opt": f in opt, "kind": "int"} for f in fields]}]}


def fixed_cases():
    """hand-written cases: the two fixed findings (now round-tripping), the open finding, a bad explicit key"""
    sw = _flat("Sw", ["a", "b"], {"d": [["a", "b"], ["b", "a"]]}, opt=("a",))
    dns = _flat("Dn", ["a", "b"], {"d": [["a", {"dns": True}]]}, opt=("a",))
    g = _flat("G", ["a", "b"], {"d": [["a", "z"]]})
    mid = {"name": "Mid", "levels": [{"mapper": None, "fields": [
        {"n": "g", "opt": False, "kind": "one", "cls": g}, {"n": "m_x", "opt": False, "kind": "int"}]}]}
    top = {"name": "Top", "levels": [{"mapper": "lower", "fields": [
        {"n": "m", "opt": False, "kind": "one", "cls": mid}]}]}
    out = []
    for strict in (False, True):
        out.append({"cls": sw, "kw": {"b": 2}, "camel": False, "strict": strict, "explicit": None, "doc2": True})
        out.append({"cls": dns, "kw": {"b": 2}, "camel": False, "strict": strict, "explicit": None, "doc2": False})
        out.append({"cls": top, "kw": {"m": {"g": {"a": 1, "b": 2}, "m_x": 3}}, "camel": False, "strict": strict,
                    "explicit": None, "doc2": False})
    # a populated DoNotSerialize field is dropped: no round trip is claimed (must not be flagged)
    out.append({"cls": dns, "kw": {"a": 1, "b": 2}, "camel": False, "strict": False, "explicit": None, "doc2": True})
    out.append({"cls": sw, "kw": {"a": 1, "b": 2}, "camel": False, "strict": False, "explicit": [["zz", "k"]],
                "doc2": False})
    return out


# ------------------------------------------------------------------ building real classes

def to_py_mapper(m):
    if m == "lower":
        return mappers.TO_LOWERCASE
    if m == "camel":
        return mappers.TO_CAMELCASE
    return to_py_dict(m["d"])


def to_py_dict(entries):
    out = {}
    for k, v in entries:
        if isinstance(v, str):
            out[k] = v
        elif "dns" in v:
            out[k] = DoNotSerialize
        else:
            out[k] = to_py_dict(v["d"])
    return out


def mapper_to_wire(m):
    """a resolved (aggregated) mapper dict of the real code -> wire dict"""
    out = []
    for k, v in m.items():
        if isinstance(v, str):
            out.append([k, v])
        elif v is DoNotSerialize:
            out.append([k, {"dns": True}])
        elif isinstance(v, dict):
            out.append([k, mapper_to_wire(v)])
        else:
            out.append([k, {"other": repr(v)[:60]}])
    return {"d": out}


def to_py_attr(a):
    if isinstance(a, dict) and "list" in a:
        return [to_py_mapper(m) for m in a["list"]]
    return to_py_mapper(a)


def build_class(cd, registry):
    """build the hierarchy of `cd` with real typedpy; returns the most derived class"""
    cls = None
    names = level_names(cd)
    local = {}
    for li, lv in enumerate(cd["levels"]):
        bases = tuple(local[b] for b in level_bases(cd, li)) or (
            (ImmutableStructure,) if cd.get("immutable") else (Structure,))
        ns = {}
        for f in lv["fields"]:
            if f["kind"] == "int":
                ns[f["n"]] = Integer
            else:
                sub = build_class(f["cls"], registry)
                ns[f["n"]] = (sub if f["kind"] == "one" else Array[sub] if f["kind"] == "arr"
                              else Map[String, sub] if f["kind"] == "map" else Set[sub])
        ns["_required"] = [f["n"] for f in lv["fields"] if not f["opt"]]
        if lv.get("addl"):
            ns["_additional_properties" if lv["addl"] == "new" else "_additionalProperties"] = False
        if lv["mapper"] is not None:
            ns["_serialization_mapper"] = to_py_attr(lv["mapper"])
        if lv.get("des") is not None:
            ns["_deserialization_mapper"] = to_py_attr(lv["des"])
        cls = StructMeta(names[li], bases, ns)
        local[names[li]] = cls
    registry[cd["name"]] = cls
    return cls


def make_instance(cd, kw, registry):
    cls = registry[cd["name"]]
    args = {}
    for f in all_fields(cd):
        if f["n"] not in kw:
            continue
        v = kw[f["n"]]
        if f["kind"] == "int":
            args[f["n"]] = v
        elif f["kind"] == "one":
            args[f["n"]] = make_instance(f["cls"], v, registry)
        elif f["kind"] == "map":
            args[f["n"]] = {k: make_instance(f["cls"], e, registry) for k, e in v.items()}
        elif f["kind"] == "arr":
            args[f["n"]] = [make_instance(f["cls"], e, registry) for e in v]
        else:
            args[f["n"]] = {make_instance(f["cls"], e, registry) for e in v}
    return cls(**args)


INTERNAL = ("_instantiated", "_none_fields", "_trust_supplied_values")


def dump_inst(x, cd, canonical):
    """instance → wire tree.  canonical: class field order, null for absent; else `__dict__` order
    (the order `serialize_internal` walks), sets in iteration order"""
    by_name = {f["n"]: f for f in all_fields(cd)}

    def val(f, v):
        if v is None:
            return None
        if f["kind"] == "int":
            return v
        if f["kind"] == "one":
            return dump_inst(v, f["cls"], canonical)
        if f["kind"] == "map":
            return {"o": [[k, dump_inst(e, f["cls"], canonical)] for k, e in v.items()]}
        return [dump_inst(e, f["cls"], canonical) for e in v]

    if canonical:
        return {"o": [[f["n"], val(f, getattr(x, f["n"], None))] for f in all_fields(cd)]}
    pairs = []
    for k, v in x.__dict__.items():
        if k in INTERNAL:
            continue
        if k not in by_name:
            if k.startswith("_"):
                continue      # bookkeeping the instance keeps for itself: must not show up in the document (oracle)
            raise RuntimeError(f"unexpected attribute {k}")
        pairs.append([k, val(by_name[k], v)])
    return {"o": pairs}


def closed(cd):
    """some class of the tree (at some inheritance level) forbids additional properties"""
    return any(lv.get("addl") for lv in cd["levels"]) or any(
        closed(f["cls"]) for f in all_fields(cd) if f["kind"] != "int")


def find_extras(x, cd, path=""):
    """attributes of the instance tree that are not declared fields (undefined keys kept)"""
    by_name = {f["n"]: f for f in all_fields(cd)}
    out = []
    for k, v in x.__dict__.items():
        if k in INTERNAL:
            continue
        if k not in by_name:
            out.append(path + k)
            continue
        f = by_name[k]
        if v is None or f["kind"] == "int":
            continue
        for i, e in enumerate([v] if f["kind"] == "one" else list(v.values()) if f["kind"] == "map" else list(v)):
            out += find_extras(e, f["cls"], f"{path}{k}.")
    return out


def model_extras(tree, cd, path=""):
    """keys of the model's deserialized tree that are not declared fields (undefined keys kept)"""
    by_name = {f["n"]: f for f in all_fields(cd)}
    out = []
    if not (isinstance(tree, dict) and "o" in tree):
        return out
    for k, v in tree["o"]:
        if k not in by_name:
            out.append(path + k)
            continue
        f = by_name[k]
        if v is None or f["kind"] == "int":
            continue
        for e in ([v] if f["kind"] == "one" else [p[1] for p in v["o"]] if f["kind"] == "map" else list(v)):
            out += model_extras(e, f["cls"], f"{path}{k}.")
    return out


def doc_to_wire(d):
    if isinstance(d, dict):
        return {"o": [[k, doc_to_wire(v)] for k, v in d.items()]}
    if isinstance(d, (list, tuple)):
        return [doc_to_wire(e) for e in d]
    if d is None or isinstance(d, (int, str)):
        return d
    raise RuntimeError(f"non-JSON value in document: {d!r}")


def wire_to_py(w):
    """wire tree → Python value with dict semantics (a later duplicate key overwrites)"""
    if isinstance(w, dict):
        out = {}
        for k, v in w["o"]:
            out[k] = wire_to_py(v)
        return out
    if isinstance(w, list):
        return [wire_to_py(e) for e in w]
    return w


def canon_inst(tree, cd):
    """canonical comparable form of a canonical instance tree: set-shaped fields sorted"""
    if tree is None:
        return None
    d = wire_to_py(tree) if isinstance(tree, dict) and "o" in tree else tree
    out = {}
    for f in all_fields(cd):
        v = d.get(f["n"])
        if v is None or f["kind"] == "int":
            out[f["n"]] = v
        elif f["kind"] == "one":
            out[f["n"]] = canon_inst(v, f["cls"])
        elif f["kind"] == "map":
            out[f["n"]] = {k: canon_inst(e, f["cls"]) for k, e in v.items()}
        else:
            elems = [canon_inst(e, f["cls"]) for e in v]
            if f["kind"] == "set":
                uniq = []
                for e in sorted(elems, key=lambda e: json.dumps(e, sort_keys=True)):
                    if e not in uniq:
                        uniq.append(e)
                elems = uniq
            out[f["n"]] = elems
    return out


def err_name(e):
    if isinstance(e, TypeError) and isinstance(e, ValueError):
        return "InvalidStructureErr"
    if isinstance(e, TypeError):
        return "TypeError"
    if isinstance(e, ValueError):
        return "ValueError"
    return type(e).__name__


def identity_doc(tree):
    """the instance written under its own field names (absent fields omitted)"""
    if isinstance(tree, dict):
        return {"o": [[k, identity_doc(v)] for k, v in tree["o"] if v is not None]}
    if isinstance(tree, list):
        return [identity_doc(e) for e in tree]
    return tree


def find_cd(cd, name):
    """class descriptor called `name` inside the tree of `cd`"""
    if cd["name"] == name:
        return cd
    for f in all_fields(cd):
        if f["kind"] != "int":
            r = find_cd(f["cls"], name)
            if r is not None:
                return r
    return None


def run_impl(case):
    if case.get("oracle") == "map":
        return run_map(case)
    if case.get("oracle") == "fc":
        return run_fc(case)
    if case.get("oracle") == "scalar":
        return run_scalar(case)
    if case.get("oracle") == "positional":
        return run_positional(case)
    if case.get("oracle") == "subclass":
        return run_subclass(case)
    if case.get("oracle") == "inherit":
        return run_inherit(case)
    cd = case["cls"]
    registry = {}
    cls = build_class(cd, registry)
    order = list(cls.get_all_fields_by_name().keys())
    if "field_order" in cd:
        if order != cd["field_order"]:
            raise RuntimeError(f"field order {order} changed since generation {cd['field_order']}")
    elif order != [f["n"] for f in all_fields(cd)]:
        raise RuntimeError(f"field order {order}")
    required = set(getattr(cls, "_required"))
    if required != {f["n"] for f in all_fields(cd) if not f["opt"]}:
        raise RuntimeError(f"required {required}")
    pre = []
    filed, mutated = {}, []
    for call in case.get("pre") or []:
        pre.append(run_call(find_cd(cd, call["target"]), registry, call))
        _check_filed(registry, filed, mutated)
    out = run_call(cd, registry, case)
    if case.get("pre"):
        _check_filed(registry, filed, mutated)
        if mutated:
            out["cache_mutated"] = mutated
    if pre:
        out["pre"] = pre
    return out


def _check_filed(registry, filed, mutated):
    """an entry of the process-wide mapper cache must never change once it is filed (checked after every call of a history)"""
    real_cache = _mappers_module.aggregated_mapper_by_class
    classes = {c: n for n, c in registry.items()}
    for k in [(c, ov, cm) for c in classes for ov in ("",) for cm in (False, True)]:
        if k in real_cache:
            text = json.dumps(mapper_to_wire(real_cache[k]), sort_keys=True)
            key = (classes[k[0]], k[1], k[2])
            if key in filed and filed[key] != text:
                mutated.append([str(key), filed[key][:200], text[:200]])
            filed.setdefault(key, text)


def run_call(cd, registry, case):
    """one Serializer / serialize / Deserializer call on the (already built) class of `cd`"""
    cls = registry[cd["name"]]
    x = make_instance(cd, case["kw"], registry)
    explicit = to_py_dict(case["explicit"]) if case["explicit"] is not None else None
    camel, strict = case["camel"], case["strict"]
    out = {"inst": dump_inst(x, cd, False), "inst_canon": dump_inst(x, cd, True)}
    ser_w = des_w = None
    try:
        ser_w = Serializer(x, mapper=explicit) if explicit is not None else Serializer(x)
        out["ser_wrapper"] = "ok"
    except Exception as e:
        out["ser_wrapper"] = err_name(e)
        out["ser_wrapper_msg"] = str(e)[:200]
    try:
        kw = {"camel_case_convert": camel, "use_strict_mapping": strict}
        if explicit is not None:
            kw["mapper"] = explicit
        des_w = Deserializer(cls, **kw)
        out["des_wrapper"] = "ok"
    except Exception as e:
        out["des_wrapper"] = err_name(e)
        out["des_wrapper_msg"] = str(e)[:200]
    doc = None
    if ser_w is not None:
        try:
            real_cache = _mappers_module.aggregated_mapper_by_class
            n0 = len(real_cache)
            doc = ser_w.serialize(camel_case_convert=camel)
            out["doc"] = doc_to_wire(doc)
            names = {c: n for n, c in registry.items()}
            # the dict keeps insertion order and entries are never removed: the new ones are the last ones
            fresh = list(itertools.islice(reversed(real_cache.items()), len(real_cache) - n0))[::-1]
            try:
                out["cache_new"] = json.dumps([[names.get(k[0], getattr(k[0], "__name__", "?")), "ov" if k[1] else "",
                                                bool(k[2]), mapper_to_wire(v)] for k, v in fresh], separators=(",", ":"))
            except Exception:       # a cache keyed / filled differently: its contents are evidence, not the property
                out.pop("cache_new", None)
            doc_f = serialize(x, mapper=explicit, camel_case_convert=camel)
            if doc_f != doc:
                out["ser_paths_differ"] = [doc, doc_f]
        except Exception as e:
            out["ser_err"] = err_name(e)
            out["ser_msg"] = str(e)[:300]
    if case.get("entry") == "function" and des_w is not None:
        fkw = {"use_strict_mapping": strict, "camel_case_convert": camel, "keep_undefined": False}
        if explicit is not None:
            fkw["mapper"] = explicit
        run = lambda d: deserialize_structure(cls, d, **fkw)
    else:
        if case.get("ku") is None:
            run = (lambda d: des_w.deserialize(d)) if des_w is not None else None
        else:
            run = (lambda d: des_w.deserialize(d, keep_undefined=case["ku"])) if des_w is not None else None
    if run is not None and doc is not None:
        out["deser"] = _deser(run, doc, cd, x)
    if run is not None and case.get("doc2"):
        d2 = wire_to_py(identity_doc(out["inst_canon"]))
        out["doc2"] = identity_doc(out["inst_canon"])
        out["deser2"] = _deser(run, d2, cd, x)
    return out


def _deser(run, doc, cd, x):
    try:
        y = run(doc)
    except Exception as e:
        return {"err": err_name(e), "msg": str(e)[:300]}
    out = {"ok": dump_inst(y, cd, True), "equal": bool(y == x)}
    extras = find_extras(y, cd)
    if extras:
        out["extras"] = extras
    return out


# ------------------------------------------------------------------ driver line

def cls_to_wire(cd):
    fields = []
    for f in all_fields(cd):
        w = {"n": f["n"], "opt": f["opt"]}
        if f["kind"] != "int":
            w["shape"] = "one" if f["kind"] == "one" else "map" if f["kind"] == "map" else "many"
            w["cls"] = cls_to_wire(f["cls"])
        fields.append(w)
    names = level_names(cd)
    graph = [{"name": names[li], "bases": level_bases(cd, li), "ser": lv["mapper"], "des": lv.get("des"),
              "closed": bool(lv.get("addl"))} for li, lv in enumerate(cd["levels"])]
    return {"graph": graph, "top": names[-1], "fields": fields, "cid": cd["name"]}


def call_wire(cd, call, impl):
    l = {"cid": cd["name"], "cls": cls_to_wire(cd), "camel": call["camel"], "strict": call["strict"],
         "explicit": call["explicit"], "inst": impl.get("inst", {"o": []}),
         "inst_canon": impl.get("inst_canon", {"o": []})}
    if "doc2" in impl:
        l["doc2"] = impl["doc2"]
    ku = call_ku(call)
    if ku is not None:
        l["ku"] = ku
    return l


def call_ku(call):
    """keep_undefined as it reaches deserialize_structure: None = Deserializer's default"""
    if call.get("entry") == "function":
        return False
    return call.get("ku")


def line(case, impl):
    if case.get("oracle"):
        return None          # oracle-only: no model counterpart
    l = call_wire(case["cls"], case, impl)
    l["suite"] = "mapper"
    pre = case.get("pre") or []
    if pre and len(impl.get("pre", [])) == len(pre):
        l["pre"] = [call_wire(find_cd(case["cls"], c["target"]), c, im) for c, im in zip(pre, impl["pre"])]
    return l


# ------------------------------------------------------------------ evidence helpers

def class_depth(cd):
    return 1 + max([class_depth(f["cls"]) for f in all_fields(cd) if f["kind"] != "int"] or [0])


def mapper_kinds(cd, acc):
    for lv in cd["levels"]:
        a = lv["mapper"]
        ms = [] if a is None else (a["list"] if isinstance(a, dict) and "list" in a else [a])
        if isinstance(a, dict) and "list" in a:
            acc.add("list")
        for m in ms:
            acc.add(m if isinstance(m, str) else "dict")
            if isinstance(m, dict):
                for k, v in m["d"]:
                    if isinstance(v, dict) and "dns" in v:
                        acc.add("dns")
                    if k.endswith("._mapper"):
                        acc.add("nested-entry")
    for f in all_fields(cd):
        if f["kind"] != "int":
            acc.add("nested:" + f["kind"])
            mapper_kinds(f["cls"], acc)
    return acc


def tags(case, impl, model):
    if case.get("oracle") == "positional":
        return ["stream=positional-items(oracle-only)", "positional.order=" + case["order"], f"camel={case['camel']}"]
    if case.get("oracle") == "subclass":
        return ["stream=subclass-instances(oracle-only)", f"camel={case['camel']}"]
    if case.get("oracle") == "inherit":
        return ["stream=base-then-subclass(oracle-only)", "inherit.first=" + case["first"], f"camel={case['camel']}"]
    if case.get("oracle") == "scalar":
        r = impl.get("deser", {})
        return ["stream=scalar-leaves(oracle-only)", f"camel={case['camel']}", "scalar.nest=" + str(case["nest"]),
                "scalar.roundtrip=" + ("equal" if r.get("equal") else "different")]
    if case.get("oracle") == "fc":
        r = impl.get("deser", {})
        return ["stream=functioncall(oracle-only)", "fc.where=" + case["where"], f"fc.own={case['own']}",
                f"camel={case['camel']}", "fc.args=" + ("none" if not case["args"] else str(len(case["args"]))),
                "fc.roundtrip=" + ("equal" if r.get("equal") else "different")]
    if case.get("oracle") == "map":
        r = impl.get("deser", {})
        return ["stream=map-values(oracle-only)", f"camel={case['camel']}", "holder=" + case["spec"]["holder"],
                "map-value-roundtrip=" + ("equal" if r.get("equal") and not r.get("extras") else
                                          "extras" if r.get("extras") else "different")]
    t = [f"depth={class_depth(case['cls'])}", f"hier={len(case['cls']['levels'])}",
         f"camel={case['camel']}", f"strict={case['strict']}",
         "explicit=" + ("none" if case["explicit"] is None else "yes")]
    t += ["mapper:" + k for k in sorted(mapper_kinds(case["cls"], set()))]
    t.append("entry=" + case.get("entry", "Deserializer"))
    t.append("keep_undefined=" + str(call_ku(case)))
    mo = (model or {}).get("out") if model else None
    if mo and "cacheNew" in mo and "cache_new" in impl:
        filed = json.loads(impl["cache_new"])
        same = [e[:3] for e in mo["cacheNew"]] == [e[:3] for e in filed]
        t.append("cache-keys-filed=" + ("as-modelled" if same else "differ"))
        t.append(f"cache-entries-filed={min(len(filed), 4)}")
    if any("bases" in lv for lv in case["cls"]["levels"]):
        t.append("multiple-inheritance")
    if any(lv.get("des") is not None for c in all_cds(case["cls"]) for lv in c["levels"]):
        t.append("deserialization-mapper:" + ("different" if des_differs(case["cls"]) else "copy"))
    if closed(case["cls"]):
        t.append("closed-class-in-tree")
    pre = case.get("pre") or []
    t.append(f"history={len(pre)}")
    top = [c for c in pre if c["target"] == case["cls"]["name"]]
    if any(c["camel"] != case["camel"] for c in top):
        t.append("history:same-class-other-camel-flag")
    if any(c["explicit"] != case["explicit"] for c in top):
        t.append("history:same-class-other-override")
    if any(c["target"] != case["cls"]["name"] for c in pre):
        t.append("history:nested-class-first")
    if "deser" in impl:
        t.append("deser=" + ("ok" if "ok" in impl["deser"] else "err:" + impl["deser"]["err"]))
        if "ok" in impl["deser"]:
            t.append("roundtrip=" + ("equal" if impl["deser"]["equal"] else "different"))
    if "ser_wrapper" in impl and impl["ser_wrapper"] != "ok":
        t.append("wrapper-rejected")
    out = (model or {}).get("out") if model else None
    if out and "hyp" in out:
        t.append("hyp.rt=" + str(out["hyp"]["rt"]))
        t.append("hyp.dom=" + str(out["hyp"]["dom"]))
        if "region" in out["hyp"]:
            t.append("hyp.region=" + str(out["hyp"]["region"]))
            h = out["hyp"]
            if h.get("domE") and class_depth(case["cls"]) >= 2:
                t.append("nested,in-domain: " + ("Sync holds" if h.get("rtNoKu") else "Sync fails") + ", "
                         + ("inside region" if h["region"] else "outside region"))
                if not h["region"]:
                    t.append(("Sync holds" if h.get("rtNoKu") else "Sync fails") + " outside region because: "
                             + h.get("regionWhy", "?"))
            if class_depth(case["cls"]) >= 2:
                t.append(f"nested-class-tree:region={out['hyp']['region']}")
            if class_depth(case["cls"]) >= 3:
                t.append(f"depth>=3:region={out['hyp']['region']}")
    return t


def nontrivial(case):
    if case.get("oracle"):
        return True
    return bool(mapper_kinds(case["cls"], set()) - {"nested:one", "nested:arr", "nested:set"}) or case["camel"] \
        or case["explicit"] is not None or bool(case.get("pre"))


def describe(case, impl, model):
    if case.get("oracle") in ("positional", "subclass", "inherit"):
        return {"stream": case["oracle"] + " (oracle-only)", "case": {k: v for k, v in case.items() if k != "vals"},
                "real": impl.get("steps") or impl.get("doc")}
    if case.get("oracle") == "scalar":
        return {"stream": "non-Integer scalar leaves (oracle-only)", "case": {k: v for k, v in case.items() if k not in ("picks", "absent")},
                "real_document": impl.get("doc"), "real_deserialized": impl.get("deser")}
    if case.get("oracle") == "fc":
        return {"stream": "FunctionCall mapper values (oracle-only)", "case": {k: v for k, v in case.items() if k != "vals"},
                "real_document": impl.get("doc"), "real_deserialized": impl.get("deser")}
    if case.get("oracle"):
        return {"stream": "map-values (oracle-only)", "spec": case["spec"], "camel": case["camel"],
                "real_document": impl.get("doc"), "real_deserialized": impl.get("deser")}
    return {"class": case["cls"], "kw": case["kw"], "camel": case["camel"], "strict": case["strict"],
            "explicit": case["explicit"], "history": case.get("pre") or [], "real_document": wire_to_py(impl["doc"]) if "doc" in impl else None,
            "real_deserialized": impl.get("deser"), "model_hypotheses": (model or {}).get("hyp")}


# ------------------------------------------------------------------ judging

def bad_explicit_keys(case, cd=None):
    if case["explicit"] is None:
        return []
    names = {f["n"] for f in all_fields(cd or case["cls"])}
    return [k for k, _ in case["explicit"] if k.split(".")[0] not in names]


def correspondence(cd, impl, model):
    """first disagreement between the real code and the Lean model for one call, or None"""
    wrap_ok = impl.get("ser_wrapper") == "ok" and impl.get("des_wrapper") == "ok"
    if impl.get("ser_wrapper") != impl.get("des_wrapper") and "ok" in (impl.get("ser_wrapper"), impl.get("des_wrapper")):
        return f"Serializer wrapper {impl.get('ser_wrapper')} but Deserializer wrapper {impl.get('des_wrapper')}"
    if model["wrapper"] != wrap_ok:
        return (f"wrapper validation: model accepts={model['wrapper']} real Serializer={impl.get('ser_wrapper')} "
                f"Deserializer={impl.get('des_wrapper')} {impl.get('ser_wrapper_msg', '')}")
    if not wrap_ok:
        return None
    if "ser_paths_differ" in impl:
        return "Serializer(x).serialize() and serialize(x) differ: " + json.dumps(impl["ser_paths_differ"])[:400]
    if "ser_err" in impl:
        return f"real serialization raised {impl['ser_err']}: {impl.get('ser_msg')}"
    real_doc = wire_to_py(impl["doc"])
    model_doc = wire_to_py(model["ser"])
    if real_doc != model_doc:
        return ("serialized document differs: real " + json.dumps(real_doc)[:400] + " model "
                + json.dumps(model_doc)[:400])
    for key in ("deser", "deser2"):
        if key not in impl:
            continue
        r, m = impl[key], model.get(key)
        if m is None:
            return f"model has no {key}"
        if ("ok" in r) != ("ok" in m):
            return (f"{key}: real {json.dumps(r)[:300]} model {json.dumps(m)[:300]}")
        if "ok" in r and sorted(set(r.get("extras", []))) != sorted(set(model_extras(m["ok"], cd))):
            return (f"{key}: undefined keys kept as attributes: real {sorted(set(r.get('extras', [])))} model "
                    f"{sorted(set(model_extras(m['ok'], cd)))}")
        if "ok" in r and canon_inst(r["ok"], cd) != canon_inst(m["ok"], cd):
            return (f"{key} instance differs: real {json.dumps(canon_inst(r['ok'], cd))[:300]} model "
                    f"{json.dumps(canon_inst(m['ok'], cd))[:300]}")
    # the cache invariant (CacheOK): an entry the real code filed under a key the model files too must hold the
    # model's aggregate for that key — a wrong value is handed to every later call with that key.  WHICH keys
    # get filed is the code's business (a different caching strategy is not a violation): only tagged.
    if model.get("serCisSer") is False:
        return "class-directed serializer differs from ser on an instance without Map-valued fields: theorem serC_eq_ser contradicted"
    if "cache_new" in impl and "cacheNew" in model:
        mine = {(e[0], e[1], e[2]): e[3] for e in model["cacheNew"]}
        for e in json.loads(impl["cache_new"]):
            k = (e[0], e[1], e[2])
            if k in mine and mine[k] != e[3]:
                return (f"aggregated_mapper_by_class[{k}] filed by this call is not the aggregate of that class / "
                        "override / flag: real " + json.dumps(e[3])[:400] + " model " + json.dumps(mine[k])[:400])
    if not model["keysLaw"]:
        return "model's own document does not satisfy keysLaw (theorem ser_keys_eq_image contradicted?)"
    return None

# ------------------------------------------------------------------ oracle-only stream: structures as Map values
# (no Lean counterpart: a structure stored as a Map value is serialized / deserialized as a call of its own —
#  own mappers only, nothing from the containing class passes through; the model has no Map shape)

SAFE_NAMES = ["a_b", "c_d", "e_f", "g", "h_i", "j_k_l", "m", "n_o"]


def _safe_mapper(rng, names):
    r = rng.random()
    if r < 0.25:
        return None
    if r < 0.45:
        return "lower"
    if r < 0.65:
        return "camel"
    chosen = rng.sample(names, rng.randint(1, len(names)))
    return {"d": [[n, f"K{i}_{n.replace('_', '')}"] for i, n in enumerate(chosen)]}


def map_cases(rng, n):
    out = []
    for _ in range(n):
        pool = SAFE_NAMES[:]
        rng.shuffle(pool)
        wn = [pool.pop() for _ in range(rng.randint(1, 2))]
        vn = [pool.pop() for _ in range(rng.randint(1, 2))]
        nest = rng.choice([None, None, "one", "arr"])
        spec = {"w": {"fields": wn, "mapper": _safe_mapper(rng, wn)} if nest else None, "nest": nest,
                "nest_field": pool.pop() if nest else None,
                "v": {"fields": vn, "mapper": None}, "outer_mapper": rng.choice([None, "lower", "camel", {"d": [["z_z", "ZZ1"]]}]),
                "holder": rng.choice(["map", "map", "array_of_map"]),
                "keys": rng.sample(["k_a", "kB", "x", "A_b"], rng.randint(1, 2))}
        spec["v"]["mapper"] = _safe_mapper(rng, vn + ([spec["nest_field"]] if nest else []))
        for camel in (False, True) if rng.random() < 0.4 else (False,):
            out.append({"oracle": "map", "spec": spec, "camel": camel, "strict": rng.random() < 0.3,
                        "vals": [rng.choice([0, 1, 2, 5, 7]) for _ in range(12)]})
    return out


def _safe_key(mappers_list, camel, name):
    """key of `name` under a list of safe mappers (then camel_case_convert)"""
    from typedpy.serialization.mappers import _convert_to_camelcase
    cur = name
    for m in mappers_list + (["camel"] if camel else []):
        if m == "lower":
            cur = cur.upper()
        elif m == "camel":
            cur = _convert_to_camelcase(cur)
        elif m is not None:
            cur = dict(m["d"]).get(cur, cur)
    return cur


def run_map(case):
    from typedpy import Map, String
    spec, camel = case["spec"], case["camel"]
    vals = iter(case["vals"] * 4)

    def mk(name, fields, mapper, extra=None):
        ns = {f: Integer for f in fields}
        ns.update(extra or {})
        if mapper is not None:
            ns["_serialization_mapper"] = to_py_mapper(mapper)
        _counter[0] += 1
        return StructMeta(f"{name}{_counter[0]}", (Structure,), ns)

    W = mk("W", spec["w"]["fields"], spec["w"]["mapper"]) if spec["nest"] else None
    extra = {}
    if spec["nest"]:
        extra[spec["nest_field"]] = W if spec["nest"] == "one" else Array[W]
    V = mk("V", spec["v"]["fields"], spec["v"]["mapper"], extra)
    holder = Map[String, V] if spec["holder"] == "map" else Array[Map[String, V]]
    O = mk("O", ["z_z"], spec["outer_mapper"], {"m": holder})

    def w_inst():
        return W(**{f: next(vals) for f in spec["w"]["fields"]})

    def v_inst():
        kw = {f: next(vals) for f in spec["v"]["fields"]}
        if spec["nest"]:
            kw[spec["nest_field"]] = w_inst() if spec["nest"] == "one" else [w_inst(), w_inst()]
        return V(**kw)

    the_map = {k: v_inst() for k in spec["keys"]}
    o = O(z_z=next(vals), m=the_map if spec["holder"] == "map" else [the_map])
    out = {}
    try:
        doc = Serializer(o).serialize(camel_case_convert=camel)
        out["doc"] = doc
    except Exception as e:
        out["ser_err"] = err_name(e)
        out["ser_msg"] = str(e)[:300]
        return out
    # the specified document: map keys untouched, every value written as a call of its own
    v_list = [spec["v"]["mapper"]]
    w_list = ([spec["w"]["mapper"]] if spec["nest"] else []) + [m for m in v_list if m in ("lower", "camel")]

    def w_doc(w):
        return {_safe_key(w_list, camel, f): getattr(w, f) for f in spec["w"]["fields"]}

    def v_doc(v):
        d = {_safe_key(v_list, camel, f): getattr(v, f) for f in spec["v"]["fields"]}
        if spec["nest"]:
            x = getattr(v, spec["nest_field"])
            d[_safe_key(v_list, camel, spec["nest_field"])] = w_doc(x) if spec["nest"] == "one" else [w_doc(e) for e in x]
        return d

    m_doc = {k: v_doc(v) for k, v in the_map.items()}
    out["spec_doc"] = {_safe_key([spec["outer_mapper"]], camel, "z_z"): o.z_z,
                       _safe_key([spec["outer_mapper"]], camel, "m"): m_doc if spec["holder"] == "map" else [m_doc]}
    try:
        y = Deserializer(O, camel_case_convert=camel, use_strict_mapping=case["strict"]).deserialize(doc)
    except Exception as e:
        out["deser"] = {"err": err_name(e), "msg": str(e)[:300]}
        return out
    extras = []
    maps = [y.m] if spec["holder"] == "map" else list(y.m)
    for mp in maps:
        for k, v in mp.items():
            allowed = set(spec["v"]["fields"]) | ({spec["nest_field"]} if spec["nest"] else set())
            extras += [f"m[{k}].{a}" for a in v.__dict__ if a not in INTERNAL and a not in allowed]
            if spec["nest"]:
                # keep_undefined=True reaches the classes nested in the value class as well
                x = getattr(v, spec["nest_field"], None)
                for w in ([] if x is None else [x] if spec["nest"] == "one" else list(x)):
                    extras += [f"m[{k}].{spec['nest_field']}.{a}" for a in w.__dict__
                               if a not in INTERNAL and a not in spec["w"]["fields"]]
    out["deser"] = {"ok": True, "equal": bool(y == o), "extras": extras}
    return out


def judge_map(case, impl):
    fails = []
    desc = json.dumps(case["spec"])[:400] + f" camel_case_convert={case['camel']}"
    if "ser_err" in impl:
        return None, [(f"serialize-raises:{impl['ser_err']}", f"map-value stream: {impl.get('ser_msg')} for {desc}")]
    if impl["doc"] != impl["spec_doc"]:
        fails.append(("keyset-law:map-value", "a structure stored as a Map value is not written under its own class's "
                      "keys: real " + json.dumps(impl["doc"])[:300] + " specified " + json.dumps(impl["spec_doc"])[:300]
                      + " for " + desc))
    r = impl.get("deser", {})
    if not (r.get("ok") and r.get("equal") and not r.get("extras")):
        key = "roundtrip:map-value:unexplained"
        if r.get("extras"):
            key = "keep-undefined-leak:deserialize_map"
        fails.append((key, "deserialize(serialize(x)) != x for a class holding structures as Map values: document "
                      + json.dumps(impl["doc"])[:300] + " gave " + json.dumps(r)[:300] + " for " + desc))
    return None, fails

# ------------------------------------------------------------------ oracle-only stream: FunctionCall mapper values
# (no Lean counterpart: the model is rename-only.  Documented behaviour, simple shapes only: one dict mapper, a
#  FunctionCall on one field with no args or with field-name args, optional rename of ANOTHER field, optionally one
#  level down under "<field>._mapper", given explicitly or as the class's own _serialization_mapper)

FC_FUNCS = {"times2": lambda x: x * 2, "half": lambda x: x // 2, "plus5": lambda x: x + 5, "minus5": lambda x: x - 5,
            "add": lambda x, y: x + y, "sub": lambda x, y: x - y}
FC_INVERSE = {"times2": "half", "plus5": "minus5", "add": "sub"}


def fc_cases(rng, n):
    out = []
    for _ in range(n):
        names = rng.sample(["a", "b", "c_d", "e_f", "g"], 3)
        fn = rng.choice(["times2", "plus5", "add"])
        target, other = names[0], names[1]
        out.append({"oracle": "fc", "names": names, "fn": fn, "target": target,
                    "args": [target, other] if fn == "add" else rng.choice([None, [target]]),
                    "rename": rng.choice([None, None, [names[2], "RR" + names[2].replace("_", "")]]),
                    "where": rng.choice(["top", "top", "nested", "array"]),
                    "own": rng.random() < 0.35, "camel": rng.random() < 0.35,
                    "vals": [rng.choice([0, 1, 2, 4, 6, 10]) for _ in range(9)]})
    return out


def run_fc(case):
    from typedpy import FunctionCall
    names, fn, target = case["names"], case["fn"], case["target"]
    camel, where = case["camel"], case["where"]

    def fc(name):
        return FunctionCall(func=FC_FUNCS[name], args=case["args"]) if case["args"] else FunctionCall(func=FC_FUNCS[name])

    def flat(direction):
        m = {target: fc(fn if direction == "ser" else FC_INVERSE[fn])}
        if case["rename"]:
            m[case["rename"][0]] = case["rename"][1]
        return m

    _counter[0] += 1
    ns = {n: Integer for n in names}
    own = case["own"] and where == "top"
    if own:
        ns["_serialization_mapper"] = flat("ser")
        ns["_deserialization_mapper"] = flat("des")
    F = StructMeta(f"F{_counter[0]}", (Structure,), ns)
    vals = iter(case["vals"] * 3)

    def f_inst():
        return F(**{n: next(vals) for n in names})

    if where == "top":
        cls, x = F, f_inst()
        ser_m, des_m = (None, None) if own else (flat("ser"), flat("des"))
    else:
        holder = F if where == "nested" else Array[F]
        cls = StructMeta(f"O{_counter[0]}", (Structure,), {"n_x": holder, "z": Integer})
        x = cls(n_x=f_inst() if where == "nested" else [f_inst(), f_inst()], z=next(vals))
        ser_m, des_m = {"n_x._mapper": flat("ser")}, {"n_x._mapper": flat("des")}

    from typedpy.serialization.mappers import _convert_to_camelcase

    def key(n):
        if case["rename"] and n == case["rename"][0]:
            return case["rename"][1]
        return _convert_to_camelcase(n) if camel else n

    def f_doc(f):
        d = {}
        for n in names:
            v = getattr(f, n)
            if n == target:
                argv = [getattr(f, a) for a in case["args"]] if case["args"] else [v]
                v = FC_FUNCS[fn](*argv)
            d[key(n)] = v
        return d

    if where == "top":
        spec = f_doc(x)
    else:
        spec = {key("n_x"): f_doc(x.n_x) if where == "nested" else [f_doc(e) for e in x.n_x], "z": x.z}
    out = {"spec_doc": spec}
    try:
        doc = (Serializer(x, mapper=ser_m) if ser_m else Serializer(x)).serialize(camel_case_convert=camel)
        out["doc"] = doc
        doc_f = serialize(x, mapper=ser_m, camel_case_convert=camel)
        if doc_f != doc:
            out["ser_paths_differ"] = [doc, doc_f]
    except Exception as e:
        out["ser_err"] = err_name(e)
        out["ser_msg"] = str(e)[:300]
        return out
    # the inverse function on the way back: add(a, b) is undone by sub(doc[a], doc[b]) because b is written as it is
    try:
        kw = {"camel_case_convert": camel}
        if des_m:
            kw["mapper"] = des_m
        y = Deserializer(cls, **kw).deserialize(doc, keep_undefined=False)
        out["deser"] = {"ok": True, "equal": bool(y == x), "repr": repr(y)[:200]}
    except Exception as e:
        out["deser"] = {"err": err_name(e), "msg": str(e)[:300]}
    return out


def judge_fc(case, impl):
    fails = []
    desc = json.dumps({k: v for k, v in case.items() if k not in ("oracle", "vals")})[:400]
    if "ser_err" in impl:
        return None, [(f"functioncall:serialize-raises:{impl['ser_err']}", f"{impl.get('ser_msg')} for {desc}")]
    if "ser_paths_differ" in impl:
        fails.append(("functioncall:serializer-paths-differ", json.dumps(impl["ser_paths_differ"])[:300] + " for " + desc))
    if impl["doc"] != impl["spec_doc"]:
        fails.append(("functioncall:document", "a FunctionCall mapper value must write func(value | named attributes) under the "
                      "field's key and leave the other keys to the renames: real " + json.dumps(impl["doc"])[:300]
                      + " specified " + json.dumps(impl["spec_doc"])[:300] + " for " + desc))
    r = impl.get("deser", {})
    if not (r.get("ok") and r.get("equal")):
        fails.append(("functioncall:roundtrip", "deserializing with the inverse FunctionCall does not give the instance back: "
                      "document " + json.dumps(impl["doc"])[:300] + " gave " + json.dumps(r)[:300] + " for " + desc))
    return None, fails

# ------------------------------------------------------------------ oracle-only stream: non-Integer scalar leaves
# (the Lean model has Integer leaves only; JSON-native scalars of other kinds pass through both directions unchanged,
#  so with collision-free mappers the specified document and the round trip can be stated directly — falsy values
#  "", False, 0.0 included, which a truthiness test in the mapper code would drop)

SCALAR_VALUES = {"str": ["", "a", "x_y", "Hello"], "bool": [False, True], "float": [0.0, 1.5, -2.25], "int": [0, 1, 7]}


def scalar_cases(rng, n):
    out = []
    for _ in range(n):
        pool = SAFE_NAMES[:]
        rng.shuffle(pool)
        inner = [[pool.pop(), rng.choice(["str", "bool", "float", "int"]), rng.random() < 0.3] for _ in range(rng.randint(1, 3))]
        outer = [[pool.pop(), rng.choice(["str", "bool", "float", "int"]), rng.random() < 0.3] for _ in range(rng.randint(1, 2))]
        nest = rng.choice([None, "one", "arr"])
        out.append({"oracle": "scalar", "inner": inner, "outer": outer, "nest": nest, "nest_field": pool.pop(),
                    "inner_mapper": _safe_mapper(rng, [f[0] for f in inner]),
                    "outer_mapper": _safe_mapper(rng, [f[0] for f in outer]),
                    "camel": rng.random() < 0.35, "strict": rng.random() < 0.3,
                    "picks": [rng.randrange(12) for _ in range(12)], "absent": [rng.random() < 0.4 for _ in range(8)]})
    return out


def run_scalar(case):
    from typedpy import Boolean, Float
    kinds = {"str": String, "bool": Boolean, "float": Float, "int": Integer}
    camel = case["camel"]
    picks, absent = iter(case["picks"] * 4), iter(case["absent"] * 4)
    _counter[0] += 1

    def mk(name, fields, mapper, extra=None, extra_req=()):
        ns = {f: kinds[k] for f, k, _ in fields}
        ns.update(extra or {})
        ns["_required"] = [f for f, _, opt in fields if not opt] + list(extra_req)
        if mapper is not None:
            ns["_serialization_mapper"] = to_py_mapper(mapper)
        return StructMeta(f"{name}{_counter[0]}", (Structure,), ns)

    def inst(cls, fields, **extra):
        kw = dict(extra)
        for f, k, opt in fields:
            if opt and next(absent):
                continue
            vals = SCALAR_VALUES[k]
            kw[f] = vals[next(picks) % len(vals)]
        return cls(**kw)

    I = mk("SI", case["inner"], case["inner_mapper"])
    if case["nest"]:
        O = mk("SO", case["outer"], case["outer_mapper"],
               {case["nest_field"]: I if case["nest"] == "one" else Array[I]}, [case["nest_field"]])
        nested = inst(I, case["inner"]) if case["nest"] == "one" else [inst(I, case["inner"]), inst(I, case["inner"])]
        x = inst(O, case["outer"], **{case["nest_field"]: nested})
    else:
        O, x = I, inst(I, case["inner"])
    # specified document
    outer_list = [case["outer_mapper"]] if case["nest"] else [case["inner_mapper"]]
    inner_list = [case["inner_mapper"]] + [m for m in outer_list if m in ("lower", "camel")]

    def doc_of(obj, fields, lst):
        return {_safe_key(lst, camel, f): getattr(obj, f) for f, _, _ in fields if getattr(obj, f, None) is not None}

    if case["nest"]:
        spec = doc_of(x, case["outer"], outer_list)
        v = getattr(x, case["nest_field"])
        spec[_safe_key(outer_list, camel, case["nest_field"])] = (
            doc_of(v, case["inner"], inner_list) if case["nest"] == "one" else [doc_of(e, case["inner"], inner_list) for e in v])
    else:
        spec = doc_of(x, case["inner"], outer_list)
    out = {"spec_doc": spec}
    try:
        out["doc"] = Serializer(x).serialize(camel_case_convert=camel)
    except Exception as e:
        out["ser_err"] = err_name(e)
        out["ser_msg"] = str(e)[:300]
        return out
    try:
        y = Deserializer(O, camel_case_convert=camel, use_strict_mapping=case["strict"]).deserialize(out["doc"])
        out["deser"] = {"ok": True, "equal": bool(y == x), "repr": repr(y)[:200]}
    except Exception as e:
        out["deser"] = {"err": err_name(e), "msg": str(e)[:300]}
    return out


def judge_scalar(case, impl):
    fails = []
    desc = json.dumps({k: v for k, v in case.items() if k not in ("oracle", "picks", "absent")})[:400]
    if "ser_err" in impl:
        return None, [(f"scalar-leaves:serialize-raises:{impl['ser_err']}", f"{impl.get('ser_msg')} for {desc}")]
    if impl["doc"] != impl["spec_doc"] or json.dumps(impl["doc"], sort_keys=True) != json.dumps(impl["spec_doc"], sort_keys=True):
        fails.append(("scalar-leaves:document", "String / Boolean / Float leaves (falsy values included) must be written under the "
                      "mapped key unchanged: real " + json.dumps(impl["doc"])[:300] + " specified "
                      + json.dumps(impl["spec_doc"])[:300] + " for " + desc))
    r = impl.get("deser", {})
    if not (r.get("ok") and r.get("equal")):
        fails.append(("scalar-leaves:roundtrip", "deserialize(serialize(x)) != x with non-Integer scalar leaves: document "
                      + json.dumps(impl["doc"])[:300] + " gave " + json.dumps(r)[:300] + " for " + desc))
    return None, fails

# ------------------------------------------------------------------ oracle-only stream: positional items of several classes
# (Array(items=[A, B]): the holder's base mapper merges the item classes' aggregates into ONE dict — which must be a
#  private dict: what the process-wide cache filed for A must still be A's own aggregate afterwards, so A serialized on
#  its own, after the holder, is written under A's keys)

def positional_cases(rng, n):
    out = []
    for _ in range(n):
        shared = rng.choice(["v_x", "a_b", "g"])
        out.append({"oracle": "positional", "shared": shared, "ka": "KA_" + shared.replace("_", ""),
                    "kb": "KB_" + shared.replace("_", ""), "b_extra": rng.choice(["w", "c_d"]),
                    "a_mapper_kind": rng.choice(["dict", "dict", "lower", "camel"]),
                    "n_items": rng.choice([2, 2, 3]), "camel": rng.random() < 0.3,
                    "order": rng.choice(["holder-A-B", "holder-B-A", "A-holder-A", "holder-holder-A"]),
                    "vals": [rng.choice([0, 1, 2, 5]) for _ in range(8)]})
    return out


def run_positional(case):
    sh, camel = case["shared"], case["camel"]
    _counter[0] += 1
    a_map = {"d": [[sh, case["ka"]]]} if case["a_mapper_kind"] == "dict" else case["a_mapper_kind"]
    b_map = {"d": [[sh, case["kb"]]]}
    A = StructMeta(f"PA{_counter[0]}", (Structure,), {sh: Integer, "_serialization_mapper": to_py_mapper(a_map)})
    B = StructMeta(f"PB{_counter[0]}", (Structure,), {sh: Integer, case["b_extra"]: Integer,
                                                     "_serialization_mapper": to_py_mapper(b_map)})
    items = [A, B] + ([A] if case["n_items"] == 3 else [])
    H = StructMeta(f"PH{_counter[0]}", (Structure,), {"items_f": Array(items=items), "z": Integer})
    vals = iter(case["vals"] * 3)
    a = A(**{sh: next(vals)})
    b = B(**{sh: next(vals), case["b_extra"]: next(vals)})
    h = H(items_f=[a, b] + ([A(**{sh: next(vals)})] if case["n_items"] == 3 else []), z=next(vals))
    spec = {"A": {_safe_key([a_map], camel, sh): getattr(a, sh)},
            "B": {_safe_key([b_map], camel, sh): getattr(b, sh),
                  _safe_key([b_map], camel, case["b_extra"]): getattr(b, case["b_extra"])}}
    real_cache = _mappers_module.aggregated_mapper_by_class
    filed, out = {}, {"steps": [], "spec": spec}
    for step in case["order"].split("-"):
        obj = {"holder": h, "A": a, "B": b}[step]
        try:
            doc = Serializer(obj).serialize(camel_case_convert=camel)
        except Exception as e:
            out["steps"].append({"step": step, "err": err_name(e), "msg": str(e)[:200]})
            continue
        out["steps"].append({"step": step, "doc": doc})
        # an entry of the process-wide cache must never change once it is filed
        for k in [(c, "", cm) for c in (A, B, H) for cm in (False, True)]:      # direct probes: the cache is large
            if k in real_cache:
                key = (k[0].__name__[:2],) + tuple(k[1:])
                text = json.dumps(mapper_to_wire(real_cache[k]), sort_keys=True)
                if key in filed and filed[key] != text:
                    out.setdefault("cache_mutated", []).append([str(key), filed[key], text, step])
                filed.setdefault(key, text)
    return out


def judge_positional(case, impl):
    fails = []
    desc = json.dumps({k: v for k, v in case.items() if k not in ("oracle", "vals")})[:300]
    for st in impl["steps"]:
        if "err" in st:
            fails.append((f"positional-items:serialize-raises:{st['err']}", f"{st.get('msg')} at step {st['step']} of {desc}"))
        elif st["step"] in ("A", "B") and st["doc"] != impl["spec"][st["step"]]:
            fails.append(("positional-items:item-class-alone-gets-foreign-keys",
                          f"class {st['step']} serialized on its own (history {case['order']}, the holder has positional items "
                          f"of several classes) is not written under its own keys: real {json.dumps(st['doc'])} specified "
                          f"{json.dumps(impl['spec'][st['step']])} for {desc}"))
    if impl.get("cache_mutated"):
        fails.append(("cache-entry-mutated:aggregated_mapper_by_class",
                      "an entry of the process-wide mapper cache changed after it was filed: "
                      + json.dumps(impl["cache_mutated"])[:500] + " for " + desc))
    return None, fails


# ------------------------------------------------------------------ oracle-only stream: nested values that are subclass instances
# (a value whose class is a SUBCLASS of the declared class is written with its own class's aggregate and the call's
#  camel_case_convert — directly nested and as an Array item)

def subclass_cases(rng, n):
    out = []
    for _ in range(n):
        pool = SAFE_NAMES[:]
        rng.shuffle(pool)
        base_f = [pool.pop() for _ in range(rng.randint(1, 2))]
        sub_f = [pool.pop() for _ in range(rng.randint(1, 2))]
        out.append({"oracle": "subclass", "base_f": base_f, "sub_f": sub_f, "base_mapper": _safe_mapper(rng, base_f),
                    "holder_field": pool.pop(), "camel": rng.random() < 0.6,
                    "vals": [rng.choice([0, 1, 2, 5, 7]) for _ in range(12)]})
    return out


def run_subclass(case):
    camel = case["camel"]
    _counter[0] += 1
    ns = {f: Integer for f in case["base_f"]}
    if case["base_mapper"] is not None:
        ns["_serialization_mapper"] = to_py_mapper(case["base_mapper"])
    Base = StructMeta(f"SB{_counter[0]}", (Structure,), ns)
    Sub = StructMeta(f"SD{_counter[0]}", (Base,), {f: Integer for f in case["sub_f"]})
    H = StructMeta(f"SH{_counter[0]}", (Structure,), {"n_s": Base, "arr_s": Array[Base], case["holder_field"]: Integer})
    vals = iter(case["vals"] * 3)

    def sub():
        return Sub(**{f: next(vals) for f in case["base_f"] + case["sub_f"]})

    def base():
        return Base(**{f: next(vals) for f in case["base_f"]})

    x = H(n_s=sub(), arr_s=[sub(), base()], **{case["holder_field"]: next(vals)})
    lst = [case["base_mapper"]]

    def doc_of(o, fields):
        return {_safe_key(lst, camel, f): getattr(o, f) for f in fields}

    spec = {_safe_key([], camel, "n_s"): doc_of(x.n_s, case["base_f"] + case["sub_f"]),
            _safe_key([], camel, "arr_s"): [doc_of(x.arr_s[0], case["base_f"] + case["sub_f"]), doc_of(x.arr_s[1], case["base_f"])],
            _safe_key([], camel, case["holder_field"]): getattr(x, case["holder_field"])}
    out = {"spec_doc": spec}
    try:
        out["doc"] = Serializer(x).serialize(camel_case_convert=camel)
        doc_f = serialize(x, camel_case_convert=camel)
        if doc_f != out["doc"]:
            out["ser_paths_differ"] = [out["doc"], doc_f]
    except Exception as e:
        out["ser_err"] = err_name(e)
        out["ser_msg"] = str(e)[:300]
    return out


def judge_subclass(case, impl):
    desc = json.dumps({k: v for k, v in case.items() if k not in ("oracle", "vals")})[:300]
    if "ser_err" in impl:
        return None, [(f"subclass-instance:serialize-raises:{impl['ser_err']}", f"{impl.get('ser_msg')} for {desc}")]
    fails = []
    if "ser_paths_differ" in impl:
        fails.append(("subclass-instance:serializer-paths-differ", json.dumps(impl["ser_paths_differ"])[:300] + " for " + desc))
    if impl["doc"] != impl["spec_doc"]:
        fails.append(("keyset-law:subclass-instance", "a nested value that is an instance of a subclass of the declared class must be "
                      f"written under its own class's keys with the call's camel_case_convert={case['camel']}: real "
                      + json.dumps(impl["doc"])[:300] + " specified " + json.dumps(impl["spec_doc"])[:300] + " for " + desc))
    return None, fails

# ------------------------------------------------------------------ oracle-only stream: a base class first, then its subclass
# (anything the (de)serializer keeps per class — caches, attributes set on the class — must not be inherited by a
#  subclass that adds fields: base class round trip first, then the subclass's, in one process; also with the base
#  class reached first as a nested class of another structure)

def inherit_history_cases(rng, n):
    out = []
    for _ in range(n):
        pool = SAFE_NAMES[:]
        rng.shuffle(pool)
        base_f = [pool.pop() for _ in range(rng.randint(1, 2))]
        sub_f = [pool.pop() for _ in range(rng.randint(1, 2))]
        out.append({"oracle": "inherit", "base_f": base_f, "sub_f": sub_f,
                    "base_mapper": rng.choice([None, "lower", "camel", _safe_mapper(rng, base_f)]),
                    "sub_mapper": rng.choice([None, None, "lower", "camel", _safe_mapper(rng, sub_f)]),
                    "first": rng.choice(["base", "base", "base-nested", "sub"]), "camel": rng.random() < 0.3,
                    "strict": rng.random() < 0.3, "vals": [rng.choice([0, 1, 2, 5, 7]) for _ in range(10)]})
    return out


def run_inherit(case):
    camel = case["camel"]
    _counter[0] += 1
    ns = {f: Integer for f in case["base_f"]}
    if case["base_mapper"] is not None:
        ns["_serialization_mapper"] = to_py_mapper(case["base_mapper"])
    Base = StructMeta(f"IB{_counter[0]}", (Structure,), ns)
    ns2 = {f: Integer for f in case["sub_f"]}
    if case["sub_mapper"] is not None:
        ns2["_serialization_mapper"] = to_py_mapper(case["sub_mapper"])
    Sub = StructMeta(f"IS{_counter[0]}", (Base,), ns2)
    Holder = StructMeta(f"IH{_counter[0]}", (Structure,), {"n_b": Base, "z": Integer})
    vals = iter(case["vals"] * 3)
    b = Base(**{f: next(vals) for f in case["base_f"]})
    sb = Sub(**{f: next(vals) for f in case["base_f"] + case["sub_f"]})
    h = Holder(n_b=Base(**{f: next(vals) for f in case["base_f"]}), z=next(vals))
    mb = case["base_mapper"]
    sub_list = [mb, case["sub_mapper"] if case["sub_mapper"] is not None else mb]
    spec = {"base": {_safe_key([mb], camel, f): getattr(b, f) for f in case["base_f"]},
            "sub": {_safe_key(sub_list, camel, f): getattr(sb, f) for f in case["base_f"] + case["sub_f"]}}
    order = {"base": ["base", "sub"], "base-nested": ["holder", "sub"], "sub": ["sub", "base", "sub"]}[case["first"]]
    out = {"steps": [], "spec": spec}
    for step in order:
        cls, x = {"base": (Base, b), "sub": (Sub, sb), "holder": (Holder, h)}[step]
        st = {"step": step}
        try:
            st["doc"] = Serializer(x).serialize(camel_case_convert=camel)
            y = Deserializer(cls, camel_case_convert=camel, use_strict_mapping=case["strict"]).deserialize(st["doc"])
            st["equal"] = bool(y == x)
            st["repr"] = repr(y)[:160]
        except Exception as e:
            st["err"] = err_name(e)
            st["msg"] = str(e)[:200]
        out["steps"].append(st)
    return out


def judge_inherit(case, impl):
    fails = []
    desc = json.dumps({k: v for k, v in case.items() if k not in ("oracle", "vals")})[:300]
    order = [st["step"] for st in impl["steps"]]
    for st in impl["steps"]:
        if st["step"] in impl["spec"] and "doc" in st and st["doc"] != impl["spec"][st["step"]]:
            fails.append(("keyset-law:base-then-subclass", f"{st['step']} class serialized in the history {order}: real "
                          f"{json.dumps(st['doc'])} specified {json.dumps(impl['spec'][st['step']])} for {desc}"))
        if "err" in st or not st.get("equal"):
            fails.append(("roundtrip:base-then-subclass", f"deserialize(serialize(x)) != x for the {st['step']} class in the "
                          f"history {order} (a class and then its subclass in one process): {json.dumps(st)[:300]} for {desc}"))
    return None, fails
